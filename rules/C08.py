"""C08 — race results are correct statistics of the normal samples and survive storage (DESIGN.md section 4, C08)."""
from __future__ import annotations

import ast
import bisect
import builtins
import fnmatch
import glob as _glob
import json
import math
import operator
import posixpath
from pathlib import PurePosixPath
import re
import statistics
from fractions import Fraction

from sa import pat as P
from sa import source
from sa.classes import decorator_names, is_logging_call, is_logging_stmt
from sa.minieval import CannotEval, Record, ev
from sa.source import AnchorMissing, bind_args, dotted, is_self_attr, last_attr, local_defs, params_of, short, u, walk_body
from sa.sym import UnknownAtom, atoms_of, parse_expr, rat_equal
from sa.tables import Unsupported

_M = "esrally/metrics.py"
_RC = "esrally/racecontrol.py"

REQUEST_QUERIES = {"get_stats", "get_mean", "get_median", "get_percentiles", "get_error_rate", "get", "get_raw", "get_one"}
COUNTS = [1, 2, 5, 9, 10, 50, 99, 100, 500, 999, 1000, 5000, 9999, 10000, 10**6]


def record_key_agreement(chk, rid, met):
    """GlobalStats.tasks() lists, and GlobalStats.metrics(task) selects by, the SAME record key: the task name, falling back to the operation name (shared with C20:
    the comparison pairs the records of both races through these two). Decided on values: both methods are RUN (machine) on a results object holding representative per-task
    records (with a task name, without one as written before Rally 0.8.0, two tasks sharing an operation), so a comprehension, a loop, a lookup table or a helper are all the same."""
    GS = met.cls("GlobalStats")
    gsm = met.methods(GS)
    mt, tk, gi = gsm.get("metrics"), gsm.get("tasks"), gsm.get("__init__")
    if mt is None or tk is None or gi is None or len(params_of(mt)) != 2 or len(params_of(tk)) != 1 or len(params_of(gi)) != 2:
        raise AnchorMissing("GlobalStats.__init__(self, d) / GlobalStats.metrics(self, task) / GlobalStats.tasks(self)")
    methods, mfuncs = _mro_methods(met, GS), _module_functions(met)
    recs = [{"task": "t1", "operation": "o1", "throughput": {"mean": 1}}, {"operation": "o2", "throughput": {"mean": 2}}, {"task": "t3", "operation": "o1", "throughput": {"mean": 3}},
            {"task": "o2x", "operation": "o4", "throughput": {"mean": 4}}]
    keys = ["t1", "o2", "t3", "o2x"]
    strangers = ["o1", "o4", "t", "o", "nope"]  # operation names of records that HAVE a task name, prefixes, unknown names: none of them is a record key
    try:
        obj = Record()
        k0, v0 = _Machine(methods=methods, functions=mfuncs).run(gi, [None], recv=obj)
        lists = [a for a, v in obj.fields.items() if isinstance(v, list)]
        ao = gsm.get("add_op_metrics")
        if k0 == "return" and len(lists) != 1 and ao is not None:
            # by role: the per-task records live in the list that add_op_metrics appends to
            _Machine(methods=methods, functions=mfuncs).run(ao, [], {p_: f"<{p_}>" for p_ in params_of(ao)[1:]}, recv=obj)
            lists = [a for a in lists if len(obj.fields[a]) == 1]
        if k0 != "return" or len(lists) != 1:
            chk.unknown(rid, f"the attribute of GlobalStats holding the per-task records is not located ({k0}; candidate attributes: {lists})", gi)
            return
        obj.fields[lists[0]] = recs
        run = lambda f, a: _Machine(methods=methods, functions=mfuncs).run(f, a, recv=obj)
        kt, listed = run(tk, [])
        listed = list(listed) if kt == "return" and isinstance(listed, (list, tuple)) else listed
        sel = {k: run(mt, [k]) for k in keys + strangers}
    except (CannotEval, _Unsup) as x:
        chk.unknown(rid, f"GlobalStats.tasks / metrics are not evaluable on representative per-task records: {x}", mt)
        return
    wrong = [k for k, r_ in zip(keys, recs) if not (sel[k][0] == "return" and sel[k][1] is r_)]
    ok = kt == "return" and listed == keys and not wrong
    chk.ob(rid, "tasks() and metrics() use the same record key: task name, else operation", ok, mt,
           "" if ok else (f"tasks() -> {kt} {listed!r}, expected {keys} (task name, else the operation name)" if not (kt == "return" and listed == keys)
                          else f"metrics({wrong[0]!r}) -> {sel[wrong[0]][0]} {sel[wrong[0]][1]!r}, expected the record listed under that key")[:260], key="esrally/metrics.py:GlobalStats:record-key")
    hit = [k for k in strangers if not (sel[k][0] == "return" and sel[k][1] is None)]
    chk.ob(rid, "metrics(task) returns the record whose key EQUALS the requested task (no other match rule)", not hit, mt,
           "" if not hit else f"metrics({hit[0]!r}) -> {sel[hit[0]][0]} {sel[hit[0]][1]!r} although no record has that key (keys: {keys}; o1 / o4 are operation names of records that have a task name)"[:300],
           key="esrally/metrics.py:GlobalStats.metrics:equality")


def _need(methods, name, owner):
    """the method of that name, or 'anchor missing' (exit 2) instead of a KeyError inside the checker."""
    if name not in methods:
        raise AnchorMissing(f"{owner}.{name}")
    return methods[name]


def _loop_var(node):
    """name bound by the innermost `for` enclosing node (None if there is none / it unpacks a tuple)."""
    lp = source.enclosing(node, ast.For)
    return lp.target.id if lp is not None and isinstance(lp.target, ast.Name) else None


def _il(e, defs):
    """text of e with the single-assignment locals replaced by their definitions (None stays None): names are compared by what they hold, not by how they are spelt."""
    return u(source.inline_node(e, defs)) if e is not None else None


class _WouldRaise(Exception):
    """the extracted expression, evaluated on the representative value, raises at run time (an aggregate over / an index into an empty sequence)."""


# ---- a small abstract machine over extracted code (local helper; a candidate for sa/) -----------------------------------------------------------------------------------------
class _Unsup(Exception):
    """a statement / expression form the machine does not interpret: the verdict is 'not recognised', never a falsified obligation."""


class _Raised(_WouldRaise):
    """the analysed code raises on the representative input (a `raise` statement, or an operation that raises at run time). `etype` names the exception class where it is known
    (a `raise X(...)` statement, an exception of the modelled environment): a `try` statement of the analysed code is decided on it."""

    def __init__(self, text, etype=None):
        super().__init__(text)
        self.etype = etype


# exception class -> the builtin classes above it (what an `except <name>` clause of the analysed code catches); classes of the repository are matched by their own name only
_EXC_BASES = {"FileNotFoundError": ("OSError", "IOError", "EnvironmentError"), "FileExistsError": ("OSError", "IOError", "EnvironmentError"), "NotADirectoryError": ("OSError", "IOError", "EnvironmentError"),
              "IsADirectoryError": ("OSError", "IOError", "EnvironmentError"), "PermissionError": ("OSError", "IOError", "EnvironmentError"), "KeyError": ("LookupError",), "IndexError": ("LookupError",),
              "ZeroDivisionError": ("ArithmeticError",), "JSONDecodeError": ("ValueError",), "UnicodeDecodeError": ("ValueError",)}


class _Closure:
    """a function value: a lambda / def node, the environment it was created in and (for a method reached through `self`) the receiver."""

    def __init__(self, node, env, recv=None):
        self.node, self.env, self.recv = node, env, recv


class _Member(Record):
    """an enum member: compared by identity, truthiness of its value (SampleType.Warmup == 0 is falsy)."""

    def __bool__(self):
        return bool(self.fields.get("value"))


class _Stub(Record):
    """an object the rule stands in for (e.g. the metrics store seen from the calculator): attribute reads from `fields`, calls answered by `calls[name](args, kwargs, call node)`."""

    def __init__(self, calls=None, **fields):
        super().__init__(**fields)
        self.calls = calls or {}


_M_CMP = {ast.Eq: operator.eq, ast.NotEq: operator.ne, ast.Lt: operator.lt, ast.LtE: operator.le, ast.Gt: operator.gt, ast.GtE: operator.ge, ast.Is: operator.is_, ast.IsNot: operator.is_not,
          ast.In: lambda a, b: a in b, ast.NotIn: lambda a, b: a not in b}
_M_BIN = {ast.Add: operator.add, ast.Sub: operator.sub, ast.Mult: operator.mul, ast.Div: operator.truediv, ast.FloorDiv: operator.floordiv, ast.Mod: operator.mod, ast.Pow: operator.pow}
_NUM = (int, float)


class _Gen(list):
    """the value of a generator expression: its elements, computed eagerly (an element the machine cannot evaluate makes the whole expression 'not evaluable', never a verdict);
    `next` consumes it from the front, everything else reads it like the list of what is left."""


def _next(*a):
    if len(a) not in (1, 2) or not isinstance(a[0], _Gen):
        raise TypeError("next() of something that is not a generator value of the machine")
    if a[0]:
        return a[0].pop(0)
    if len(a) == 2:
        return a[1]
    raise _Raised("next() of an exhausted generator (StopIteration)", etype="StopIteration")


def _bounded_range(*a):
    r = range(*a)
    if len(r) > 100000:
        raise _Unsup("range too large for the machine")
    return list(r)


_M_PURE = {
    "len": len, "sorted": sorted, "list": list, "tuple": tuple, "set": set, "frozenset": frozenset, "dict": dict, "sum": sum, "min": min, "max": max, "any": any, "all": all, "abs": abs,
    "round": round, "float": float, "int": int, "str": str, "bool": bool, "divmod": divmod, "pow": pow, "repr": repr,
    "enumerate": lambda *a, **k: list(enumerate(*a, **k)), "zip": lambda *a: list(zip(*a)), "range": _bounded_range, "reversed": lambda x: list(reversed(x)),
    "map": lambda f, *xs: list(map(f, *xs)), "filter": lambda f, xs: list(filter(f, xs)),
    "math.floor": math.floor, "math.ceil": math.ceil, "math.trunc": math.trunc, "math.fsum": math.fsum, "math.isclose": math.isclose, "math.sqrt": math.sqrt, "math.fabs": math.fabs,
    "statistics.mean": statistics.mean, "statistics.fmean": statistics.fmean, "statistics.median": statistics.median, "statistics.median_low": statistics.median_low,
    "statistics.median_high": statistics.median_high, "collections.OrderedDict": dict, "OrderedDict": dict,
    "bisect.bisect": bisect.bisect, "bisect.bisect_right": bisect.bisect_right, "bisect.bisect_left": bisect.bisect_left, "bisect_right": bisect.bisect_right, "bisect_left": bisect.bisect_left,
    "operator.itemgetter": operator.itemgetter, "next": _next, "iter": lambda x: x if isinstance(x, _Gen) else _Gen(x) if isinstance(x, (list, tuple, dict, str)) else _next(),
}
_M_VALUE_METHODS = {
    list: {"append", "extend", "insert", "sort", "reverse", "count", "index", "copy", "pop"},
    tuple: {"count", "index"},
    dict: {"get", "items", "keys", "values", "update", "setdefault", "pop", "copy"},
    set: {"add", "update", "discard", "union", "intersection", "difference", "issubset", "issuperset", "copy"},
    frozenset: {"union", "intersection", "difference", "issubset", "issuperset"},
    str: {"lower", "upper", "casefold", "title", "capitalize", "strip", "lstrip", "rstrip", "replace", "split", "rsplit", "partition", "startswith", "endswith", "join", "format", "zfill", "isdigit"},
    float: {"is_integer"},
    int: {"bit_length"},
}
_M_TYPES = {"dict": dict, "list": list, "str": str, "bytes": bytes, "int": int, "float": float, "tuple": tuple, "set": set, "bool": bool}


class _Machine:
    """Runs EXTRACTED statements and expressions on representative values: assignments, if / for / while, return / raise, comprehensions, lambdas, calls of the methods of the analysed
    class (through `self`), of module-level functions and of a fixed table of pure builtins (len, sorted, math.floor, statistics.mean, ...). The machine walks the AST itself: nothing of
    the repository is imported or called. Whatever it does not interpret raises _Unsup / CannotEval (the rule then reports 'not recognised'); an exception the analysed code would raise on
    the representative input is reported as _Raised. Because whole methods are run, a helper extracted from them, a hoisted local, a guard clause, a loop turned into a comprehension or
    a table scanned in a loop are all the same computation to the rules that use it."""

    def __init__(self, methods=None, functions=None, names=None, hooks=None, fuel=400000):
        self.methods = methods or {}      # name -> def, resolved on `self` / `cls`
        self.functions = functions or {}  # module-level functions
        self.names = names or {}          # module-level values (enum classes, literal constants)
        self.hooks = hooks or {}          # method name -> callable(bound parameters) answering INSTEAD of the method (a query the rule stands in for)
        self.fuel = fuel
        self.depth = 0

    def tick(self):
        self.fuel -= 1
        if self.fuel < 0:
            raise _Unsup("evaluation budget exhausted")

    @staticmethod
    def truth(v):
        return bool(v)

    def pyfunc(self, v):
        return (lambda *a, **k: self.apply(v, list(a), dict(k))) if isinstance(v, _Closure) else v

    # -- expressions ---------------------------------------------------------------------------------------------------------------------------------------------------------
    def expr(self, e, env):
        self.tick()
        t = type(e)
        if t is ast.Constant:
            return e.value
        if t is ast.Name:
            if e.id in env:
                return env[e.id]
            if e.id in self.names:
                return self.names[e.id]
            if e.id in self.functions:
                return _Closure(self.functions[e.id], {})
            raise CannotEval(f"unbound name {e.id}")
        if t is ast.Attribute:
            v = self.expr(e.value, env)
            if isinstance(v, Record) and e.attr in v.fields:
                return v.fields[e.attr]
            if isinstance(v, Record) and e.attr == "__dict__":
                return v.fields  # the live attribute dictionary, as in Python
            raise CannotEval(f"attribute {short(e, 60)}")
        if t is ast.Subscript:
            v = self.expr(e.value, env)
            if isinstance(e.slice, ast.Slice):
                lo, hi, st = (self.expr(x, env) if x is not None else None for x in (e.slice.lower, e.slice.upper, e.slice.step))
                if not isinstance(v, (list, tuple, str)):
                    raise CannotEval(f"{short(e, 60)}: slice of a non-sequence")
                try:
                    return v[lo:hi:st]
                except (TypeError, ValueError) as x:
                    raise CannotEval(f"{short(e, 60)}: {type(x).__name__}")
            return self.index(v, self.expr(e.slice, env), e)
        if t is ast.Compare:
            left = self.expr(e.left, env)
            for op, c in zip(e.ops, e.comparators):
                right = self.expr(c, env)
                try:
                    r = _M_CMP[type(op)](left, right)
                except TypeError as x:
                    raise CannotEval(f"{short(e, 60)}: {x}")
                if not r:
                    return False
                left = right
            return True
        if t is ast.BoolOp:
            r = None
            for v in e.values:
                r = self.expr(v, env)
                if self.truth(r) != isinstance(e.op, ast.And):
                    return r
            return r
        if t is ast.UnaryOp:
            v = self.expr(e.operand, env)
            if isinstance(e.op, ast.Not):
                return not self.truth(v)
            if isinstance(v, _NUM) and not isinstance(v, bool):
                return -v if isinstance(e.op, ast.USub) else v if isinstance(e.op, ast.UAdd) else self._no(e)
            raise CannotEval(f"{short(e, 60)}: operand")
        if t is ast.BinOp:
            a, b = self.expr(e.left, env), self.expr(e.right, env)
            if isinstance(e.op, ast.Div) and (isinstance(a, _PathV) or isinstance(b, _PathV)):
                return a.join(b) if isinstance(a, _PathV) else b.rjoin(a)
            num = all(isinstance(x, _NUM) and not isinstance(x, bool) for x in (a, b))
            same_seq = any(isinstance(a, k) and isinstance(b, k) for k in (list, tuple, str)) and isinstance(e.op, ast.Add)
            rep = isinstance(e.op, ast.Mult) and ((isinstance(a, (list, tuple, str)) and type(b) is int) or (isinstance(b, (list, tuple, str)) and type(a) is int))
            if type(e.op) not in _M_BIN or not (num or same_seq or rep):
                raise CannotEval(f"{short(e, 60)}: operands")
            if num and isinstance(e.op, (ast.Div, ast.FloorDiv, ast.Mod)) and b == 0:
                raise _Raised(f"`{short(e, 60)}` divides by zero (ZeroDivisionError)")
            try:
                return _M_BIN[type(e.op)](a, b)
            except (OverflowError, ValueError, TypeError, ZeroDivisionError) as x:
                raise CannotEval(f"{short(e, 60)}: {type(x).__name__}")
        if t is ast.IfExp:
            return self.expr(e.body if self.truth(self.expr(e.test, env)) else e.orelse, env)
        if t in (ast.List, ast.Tuple, ast.Set):
            vals = []
            for x in e.elts:
                if isinstance(x, ast.Starred):
                    vals += list(self.iterate(self.expr(x.value, env), x))
                else:
                    vals.append(self.expr(x, env))
            try:
                return vals if t is ast.List else tuple(vals) if t is ast.Tuple else set(vals)
            except TypeError:
                raise CannotEval(f"{short(e, 60)}: unhashable element")
        if t is ast.Dict:
            out = {}
            for k, v in zip(e.keys, e.values):
                if k is None:
                    d = self.expr(v, env)
                    if not isinstance(d, dict):
                        raise CannotEval(f"{short(e, 60)}: ** of a non-dict")
                    out.update(d)
                else:
                    try:
                        out[self.expr(k, env)] = self.expr(v, env)
                    except TypeError:
                        raise CannotEval(f"{short(e, 60)}: unhashable key")
            return out
        if t is ast.Call:
            return self.call(e, env)
        if t is ast.Lambda:
            return _Closure(e, env)
        if t in (ast.ListComp, ast.SetComp, ast.GeneratorExp, ast.DictComp):
            return self.comp(e, env)
        if t is ast.NamedExpr and isinstance(e.target, ast.Name):
            env[e.target.id] = self.expr(e.value, env)
            return env[e.target.id]
        if t is ast.JoinedStr:
            tmp = {}

            def lift(x):
                if isinstance(x, ast.FormattedValue):
                    tmp[f"__t{len(tmp)}"] = self.expr(x.value, env)
                    return ast.FormattedValue(value=ast.Name(id=f"__t{len(tmp) - 1}", ctx=ast.Load()), conversion=x.conversion,
                                              format_spec=ast.JoinedStr(values=[lift(y) for y in x.format_spec.values]) if x.format_spec is not None else None)
                return x

            return ev(ast.JoinedStr(values=[lift(x) for x in e.values]), tmp)
        return self._no(e)

    @staticmethod
    def _no(e):
        raise CannotEval(f"{type(e).__name__}: {short(e, 60)}")

    def index(self, v, k, e):
        if isinstance(v, (list, tuple, str)):
            if isinstance(k, bool) or not isinstance(k, int):
                raise CannotEval(f"{short(e, 60)}: index is not an integer")
            if not -len(v) <= k < len(v):
                raise _Raised(f"`{short(e, 60)}` indexes a sequence of length {len(v)} (IndexError)")
            return v[k]
        if isinstance(v, dict):
            try:
                if k in v:
                    return v[k]
            except TypeError:
                pass
            # a representative record may lack a key the real records carry: not decided (never reported as the KeyError it would be)
            raise CannotEval(f"{short(e, 60)}: key {k!r} not in the representative value")
        raise CannotEval(f"{short(e, 60)}: subscript of {type(v).__name__}")

    def iterate(self, v, node):
        if isinstance(v, (list, tuple, str, range)):
            return list(v)
        if isinstance(v, dict):
            return list(v.keys())
        if isinstance(v, (set, frozenset)):
            try:
                return sorted(v)
            except TypeError:
                return list(v)
        raise CannotEval(f"{short(node, 60)}: not iterable in the machine ({type(v).__name__})")

    def comp(self, e, env):
        out = []

        def rec(i, env_):
            if i == len(e.generators):
                out.append((self.expr(e.key, env_), self.expr(e.value, env_)) if isinstance(e, ast.DictComp) else self.expr(e.elt, env_))
                return
            g = e.generators[i]
            if g.is_async:
                raise _Unsup("asynchronous comprehension")
            for v in self.iterate(self.expr(g.iter, env_), g.iter):
                env2 = dict(env_)
                self.assign(g.target, v, env2)
                if all(self.truth(self.expr(c, env2)) for c in g.ifs):
                    rec(i + 1, env2)

        rec(0, env)
        try:
            return dict(out) if isinstance(e, ast.DictComp) else set(out) if isinstance(e, ast.SetComp) else _Gen(out) if isinstance(e, ast.GeneratorExp) else out
        except TypeError:
            raise CannotEval(f"{short(e, 60)}: unhashable element")

    # -- calls -------------------------------------------------------------------------------------------------------------------------------------------------------------------
    def call(self, e, env):
        if is_logging_call(e):
            return None
        f = e.func
        d = dotted(f)
        if d == "logging.getLogger":
            return None  # a logger: what is called on it is a logging call (never interpreted)
        if d == "isinstance" and len(e.args) == 2 and not e.keywords:
            ts = e.args[1].elts if isinstance(e.args[1], ast.Tuple) else [e.args[1]]
            if all(dotted(x) in _M_TYPES for x in ts):
                v = self.expr(e.args[0], env)
                return isinstance(v, tuple(_M_TYPES[dotted(x)] for x in ts)) and not (isinstance(v, bool) and not any(dotted(x) in ("bool", "int") for x in ts))
            raise CannotEval(f"call {short(e, 60)}")
        args, kwargs = [], {}
        for a in e.args:
            if isinstance(a, ast.Starred):
                args += list(self.iterate(self.expr(a.value, env), a))
            else:
                args.append(self.expr(a, env))
        for k in e.keywords:
            if k.arg is None:
                kv = self.expr(k.value, env)
                if not isinstance(kv, dict) or not all(isinstance(x, str) for x in kv):
                    raise CannotEval(f"call {short(e, 60)}: ** of a non-dict")
                kwargs.update(kv)
            else:
                kwargs[k.arg] = self.expr(k.value, env)
        # a method of the analysed class, reached through self / cls
        if isinstance(f, ast.Attribute) and isinstance(f.value, ast.Name) and f.value.id in ("self", "cls") and f.value.id in env and (f.attr in self.methods or f.attr in self.hooks):
            return self.invoke(f.attr, args, kwargs, env[f.value.id])
        if isinstance(f, ast.Name):
            if f.id in env:
                if isinstance(env[f.id], _Closure):
                    return self.apply(env[f.id], args, kwargs)
                raise CannotEval(f"call {short(e, 60)}: `{f.id}` is not a function value")
            if f.id in self.hooks:
                fd = self.functions.get(f.id)
                return self.hooks[f.id](self.bind(fd, args, kwargs) if fd is not None else {"args": args, "kwargs": kwargs})
            if f.id in self.functions:
                return self.apply(_Closure(self.functions[f.id], {}), args, kwargs)
            if isinstance(self.names.get(f.id), _Stub) and not isinstance(self.names[f.id].calls, _LazyCalls) and "__call__" in self.names[f.id].calls:
                return self.names[f.id].calls["__call__"](args, kwargs, e)  # a modelled library class imported by name (from pathlib import Path)
        if d == "vars" and len(args) == 1 and not kwargs and isinstance(args[0], Record):
            return args[0].fields
        if d in _M_PURE and (not isinstance(f, ast.Attribute) or d.split(".")[0] not in env):
            return self.lib(_M_PURE[d], args, kwargs, e)
        if isinstance(f, ast.Attribute):
            recv = self.expr(f.value, env)
            if isinstance(recv, _Stub) and f.attr in recv.calls:
                return recv.calls[f.attr](args, kwargs, e)
            if isinstance(recv, Record) and isinstance(recv.fields.get(f.attr), _Closure):
                return self.apply(recv.fields[f.attr], args, kwargs)
            for ty, names in _M_VALUE_METHODS.items():
                if type(recv) is ty and f.attr in names:
                    r = self.lib(getattr(recv, f.attr), args, kwargs, e)
                    return list(r) if ty is dict and f.attr in ("items", "keys", "values") else r
        raise CannotEval(f"call {short(e, 60)}")

    def lib(self, fn, args, kwargs, e):
        try:
            r = fn(*[self.pyfunc(a) for a in args], **{k: self.pyfunc(v) for k, v in kwargs.items()})
        except (ValueError, ZeroDivisionError, IndexError, statistics.StatisticsError) as x:
            raise _Raised(f"`{short(e, 70)}` raises {type(x).__name__} ({x})")
        except (TypeError, KeyError, OverflowError, AttributeError) as x:
            raise CannotEval(f"call {short(e, 60)}: {type(x).__name__}")
        if isinstance(r, (map, filter, zip, enumerate, range)) or type(r).__name__ in ("dict_items", "dict_keys", "dict_values", "generator"):
            r = list(r)
        return r

    def invoke(self, name, args, kwargs, recv):
        fd = self.methods.get(name)
        if name in self.hooks:
            if fd is None:
                return self.hooks[name]({"args": args, "kwargs": kwargs})
            return self.hooks[name](self.bind(fd, args, kwargs, recv=None if self.is_static(fd) else recv))
        return self.apply(_Closure(fd, {}, recv), args, kwargs)

    @staticmethod
    def is_static(fd):
        if getattr(fd, "_c08_static", None) is None and isinstance(fd, source.FUNC_TYPES):
            fd._c08_static = "staticmethod" in decorator_names(fd)
        return bool(getattr(fd, "_c08_static", False))

    def bind(self, node, args, kwargs, recv=None):
        """parameter name -> value for this call, as Python binds them (defaults are evaluated on the module-level names only)."""
        a = node.args
        names = [x.arg for x in a.posonlyargs + a.args]
        out = {}
        if recv is not None:
            if not names:
                raise _Raised("TypeError: method without a receiver parameter")
            out[names[0]] = recv
            names = names[1:]
        if len(args) > len(names) and a.vararg is None:
            raise _Raised(f"TypeError: {getattr(node, 'name', '<lambda>')}() takes {len(names)} positional argument(s) but {len(args)} were given")
        out.update(zip(names, args))
        if a.vararg is not None:
            out[a.vararg.arg] = tuple(args[len(names):])
        kwonly = [x.arg for x in a.kwonlyargs]
        extra = {}
        for k, v in kwargs.items():
            if k in out and (k in names or k in kwonly):
                raise _Raised(f"TypeError: {getattr(node, 'name', '<lambda>')}() got multiple values for argument '{k}'")
            if k in names or k in kwonly:
                out[k] = v
            elif a.kwarg is not None:
                extra[k] = v
            else:
                raise _Raised(f"TypeError: {getattr(node, 'name', '<lambda>')}() got an unexpected keyword argument '{k}'")
        if a.kwarg is not None:
            out[a.kwarg.arg] = extra
        allpos = [x.arg for x in a.posonlyargs + a.args]
        for nm, dflt in zip(allpos[len(allpos) - len(a.defaults):], a.defaults):
            if nm not in out:
                out[nm] = self.expr(dflt, {})
        for nm, dflt in zip(kwonly, a.kw_defaults):
            if nm not in out and dflt is not None:
                out[nm] = self.expr(dflt, {})
        missing = [nm for nm in allpos + kwonly if nm not in out]
        if missing:
            raise _Raised(f"TypeError: {getattr(node, 'name', '<lambda>')}() missing argument(s) {missing}")
        return out

    def apply(self, c, args, kwargs):
        self.depth += 1
        try:
            if self.depth > 30:
                raise _Unsup("call depth (recursion?)")
            node = c.node
            env = dict(c.env)
            if isinstance(node, ast.Lambda):
                env.update(self.bind(node, args, kwargs))
                return self.expr(node.body, env)
            if getattr(node, "_c08_plain", None) is None:
                node._c08_plain = not (isinstance(node, ast.AsyncFunctionDef) or any(isinstance(x, (ast.Yield, ast.YieldFrom, ast.Await)) for x in source.walk_body(node)))
            if not node._c08_plain:
                raise _Unsup(f"{node.name} is a generator / coroutine")
            env.update(self.bind(node, args, kwargs, recv=None if c.recv is None or self.is_static(node) else c.recv))
            r = self.block(node.body, env)
            return r[1] if r is not None and r[0] == "return" else None
        finally:
            self.depth -= 1

    # -- statements ----------------------------------------------------------------------------------------------------------------------------------------------------------
    def assign(self, target, v, env):
        if isinstance(target, ast.Name):
            env[target.id] = v
        elif isinstance(target, (ast.Tuple, ast.List)) and not any(isinstance(x, ast.Starred) for x in target.elts):
            vals = self.iterate(v, target)
            if len(vals) != len(target.elts):
                raise _Raised(f"ValueError: cannot unpack {len(vals)} value(s) into `{short(target, 40)}`")
            for x, y in zip(target.elts, vals):
                self.assign(x, y, env)
        elif isinstance(target, ast.Subscript) and not isinstance(target.slice, ast.Slice):
            box, k = self.expr(target.value, env), self.expr(target.slice, env)
            if isinstance(box, dict):
                try:
                    box[k] = v
                except TypeError:
                    raise CannotEval(f"{short(target, 60)}: unhashable key")
            elif isinstance(box, list) and type(k) is int:
                if not -len(box) <= k < len(box):
                    raise _Raised(f"`{short(target, 60)}` assigns past the end of a list of length {len(box)} (IndexError)")
                box[k] = v
            else:
                raise CannotEval(f"{short(target, 60)}: item assignment")
        elif isinstance(target, ast.Attribute):
            box = self.expr(target.value, env)
            if not isinstance(box, Record):
                raise CannotEval(f"{short(target, 60)}: attribute assignment")
            box.fields[target.attr] = v
        else:
            raise _Unsup(f"assignment target `{short(target, 60)}`")

    def block(self, stmts, env):
        """None (completed) | ('return', value) | ('break',) | ('continue',)."""
        for s in stmts:
            self.tick()
            if isinstance(s, ast.Expr):
                if not isinstance(s.value, ast.Constant) and not is_logging_stmt(s):
                    self.expr(s.value, env)
            elif isinstance(s, ast.Assign):
                v = self.expr(s.value, env)
                for t in s.targets:
                    self.assign(t, v, env)
            elif isinstance(s, ast.AnnAssign):
                if s.value is not None:
                    self.assign(s.target, self.expr(s.value, env), env)
            elif isinstance(s, ast.AugAssign):
                # the target read as an expression
                cur = self.expr(s.target if isinstance(s.target, ast.Name) else ast.parse(u(s.target), mode="eval").body, env)
                val = self.expr(s.value, env)
                if isinstance(cur, list) and isinstance(s.op, ast.Add):
                    cur.extend(self.iterate(val, s.value))  # in place, as Python does
                    continue
                tmp = {"__a": cur, "__b": val}
                self.assign(s.target, self.expr(ast.BinOp(left=ast.Name(id="__a", ctx=ast.Load()), op=s.op, right=ast.Name(id="__b", ctx=ast.Load())), tmp), env)
            elif isinstance(s, ast.If):
                r = self.block(s.body if self.truth(self.expr(s.test, env)) else s.orelse, env)
                if r is not None:
                    return r
            elif isinstance(s, ast.For):
                broke = False
                for v in self.iterate(self.expr(s.iter, env), s.iter):
                    self.assign(s.target, v, env)
                    r = self.block(s.body, env)
                    if r is not None and r[0] == "return":
                        return r
                    if r is not None and r[0] == "break":
                        broke = True
                        break
                if not broke and s.orelse:
                    r = self.block(s.orelse, env)
                    if r is not None:
                        return r
            elif isinstance(s, ast.While):
                broke = False
                while self.truth(self.expr(s.test, env)):
                    r = self.block(s.body, env)
                    if r is not None and r[0] == "return":
                        return r
                    if r is not None and r[0] == "break":
                        broke = True
                        break
                if not broke and s.orelse:
                    r = self.block(s.orelse, env)
                    if r is not None:
                        return r
            elif isinstance(s, ast.Return):
                return ("return", self.expr(s.value, env) if s.value is not None else None)
            elif isinstance(s, ast.Raise):
                raise _Raised(f"raise {short(s.exc, 80) if s.exc is not None else ''}".strip(),
                              etype=last_attr(s.exc.func if isinstance(s.exc, ast.Call) else s.exc) if s.exc is not None else None)
            elif isinstance(s, ast.With):
                r = self.with_(s, env)
                if r is not None:
                    return r
            elif isinstance(s, ast.Try):
                r = self.try_(s, env)
                if r is not None:
                    return r
            elif isinstance(s, ast.Break):
                return ("break",)
            elif isinstance(s, ast.Continue):
                return ("continue",)
            elif isinstance(s, ast.Assert):
                try:
                    good = self.truth(self.expr(s.test, env))
                except CannotEval:
                    good = True  # an assertion the machine cannot evaluate is not taken as failing
                if not good:
                    raise _Raised(f"assert {short(s.test, 80)} fails (AssertionError)")
            elif isinstance(s, (ast.Pass, ast.Import, ast.ImportFrom)):
                pass
            elif isinstance(s, ast.FunctionDef):
                env[s.name] = _Closure(s, env)
            else:
                raise _Unsup(f"statement kind {type(s).__name__} at line {getattr(s, 'lineno', '?')}")
        return None

    def with_(self, s, env):
        """`with <expr> [as <name>]: body` for the context managers of the modelled environment (a _Stub that declares itself one, e.g. a file of the model file system: entering gives the
        object itself, leaving has no effect the model does not already show); any other context manager is not interpreted."""
        for item in s.items:
            v = self.expr(item.context_expr, env)
            if not (isinstance(v, _Stub) and v.fields.get("__context__") is True):
                raise _Unsup(f"context manager `{short(item.context_expr, 60)}` at line {getattr(s, 'lineno', '?')}")
            if item.optional_vars is not None:
                self.assign(item.optional_vars, v, env)
        return self.block(s.body, env)

    def catches(self, handler, x):
        """does `except <type>` catch the exception the analysed code raised? Decided where the exception class is known; bare / Exception / BaseException catch everything the
        machine models as raised."""
        if handler.type is None:
            return True
        names = [last_attr(t_) for t_ in (handler.type.elts if isinstance(handler.type, ast.Tuple) else [handler.type])]
        if any(n_ in ("Exception", "BaseException") for n_ in names):
            return True
        if x.etype is None or any(n_ is None for n_ in names):
            raise _Unsup(f"whether `except {short(handler.type, 40)}` catches `{str(x)[:60]}` is not decided")
        return any(n_ == x.etype or n_ in _EXC_BASES.get(x.etype, ()) for n_ in names)

    def try_(self, s, env):
        """try / except / else / finally over the exceptions the machine models (_Raised); what it cannot evaluate (CannotEval / _Unsup) is never caught by the analysed code's handlers."""
        r, pending = None, None
        try:
            r = self.block(s.body, env)
        except _Raised as x:
            h = next((h_ for h_ in s.handlers if self.catches(h_, x)), None)
            if h is None:
                pending = x
            else:
                if h.name:
                    env[h.name] = Record(args=(str(x),))
                try:
                    r = self.block(h.body, env)
                except _Raised as x2:
                    pending = x if (str(x2) == "raise" and x2.etype is None) else x2  # a bare `raise` re-raises what was caught
        else:
            if r is None and s.orelse:
                try:
                    r = self.block(s.orelse, env)
                except _Raised as x2:
                    pending = x2
        if s.finalbody:
            rf = self.block(s.finalbody, env)
            if rf is not None:
                return rf  # (as in Python: a jump out of `finally` wins)
        if pending is not None:
            raise pending
        return r

    def run(self, func, args=(), kwargs=None, recv=None):
        """('return', value) | ('raise', text) for one call of func on representative arguments."""
        try:
            return ("return", self.apply(_Closure(func, {}, recv), list(args), dict(kwargs or {})))
        except _WouldRaise as x:
            return ("raise", str(x))
        except (TypeError, ValueError, KeyError, AttributeError, IndexError, ZeroDivisionError, RecursionError, OverflowError) as x:
            # an operation on representative values the machine did not anticipate: the shape is 'not recognised' (never an exception inside the checker, never a verdict)
            raise CannotEval(f"machine: {type(x).__name__}: {x}"[:160])


def _selector_reads(mod, func, mfuncs, seen=None):
    """(constants, state, undecided) for the free names func reads, followed into the module-level functions it calls: `constants` maps module-level names bound ONCE to a literal
    to their values, `state` lists names that are re-bound / declared global somewhere in the module (mutable module state) or non-pure library modules, `undecided` names bound
    once to something that is not a literal (the value cannot be decided here)."""
    seen = seen if seen is not None else set()
    seen.add(func.name)
    a = func.args
    bound = {x.arg for x in a.posonlyargs + a.args + a.kwonlyargs + ([a.vararg] if a.vararg else []) + ([a.kwarg] if a.kwarg else [])}
    bound |= {x.id for x in ast.walk(func) if isinstance(x, ast.Name) and isinstance(x.ctx, (ast.Store, ast.Del))}
    bound |= {y.arg for x in ast.walk(func) if isinstance(x, ast.Lambda) for y in x.args.args}
    logging_nodes = {id(y) for st in ast.walk(func) if isinstance(st, ast.stmt) and is_logging_stmt(st) for y in ast.walk(st)}
    free = {x.id for x in ast.walk(func) if isinstance(x, ast.Name) and isinstance(x.ctx, ast.Load) and id(x) not in logging_nodes} - bound
    if getattr(mod, "_c08_stores", None) is None:
        declared_global = {nm for x in ast.walk(mod.tree) if isinstance(x, (ast.Global, ast.Nonlocal)) for nm in x.names}
        stores = {}
        for x in ast.walk(mod.tree):
            if isinstance(x, ast.Name) and isinstance(x.ctx, (ast.Store, ast.Del)) and source.enclosing_func(x) is None:
                stores[x.id] = stores.get(x.id, 0) + 1
        mod._c08_stores = (declared_global, stores)
    declared_global, stores = mod._c08_stores
    consts, state, undecided = {}, set(), set()
    for nm in sorted(free):
        if hasattr(builtins, nm):
            continue
        if nm in mfuncs:
            if nm not in seen:
                c2, s2, u2 = _selector_reads(mod, mfuncs[nm], mfuncs, seen)
                consts.update(c2)
                state |= s2
                undecided |= u2
            continue
        if nm in mod.imports:
            if mod.imports[nm].split(".")[0] not in ("math", "bisect", "statistics", "collections", "operator", "itertools", "functools", "typing", "fractions", "decimal"):
                state.add(f"{nm} (module {mod.imports[nm]})")
            continue
        v = mod.module_constant(nm)
        if nm in declared_global or stores.get(nm, 0) > 1:
            state.add(nm)
        elif v is not None and stores.get(nm, 0) == 1 and source._pure_literal(v):
            try:
                consts[nm] = _Machine().expr(v, {})
            except CannotEval:
                undecided.add(nm)
        else:
            undecided.add(nm)
    return consts, state, undecided


def _record(name, task, operation_type, sample_type, ok=True, value=1.0, unit="ms"):
    """a representative metrics record as MetricsStore._put_metric builds it."""
    return {"@timestamp": 1, "relative-time": 1, "race-id": "r", "race-timestamp": "t", "environment": "e", "track": "tr", "challenge": "ch", "car": "c", "name": name, "value": value,
            "unit": unit, "sample-type": sample_type, "meta": {"success": ok}, "task": task, "operation": "op-" + task, "operation-type": operation_type}


def _ref_match(rec, name, task, operation_type, sample_type):
    """the documented record filter of the store queries: None means 'no restriction' (docs/metrics.rst; MetricsStore.get docstring)."""
    return rec["name"] == name and (task is None or rec["task"] == task) and (operation_type is None or rec["operation-type"] == operation_type) \
        and (sample_type is None or rec["sample-type"] == sample_type)


_KINDS = [(n_, t_, o_, s_) for n_ in ("service_time", "latency") for t_ in ("A", "B") for o_ in ("X", "Y") for s_ in ("normal", "warmup")]
# (metric name, task, operation type, sample type): None = no restriction; the last but one selects nothing
_VALUE_REQUESTS = [("service_time", "A", "X", "normal"), ("service_time", "A", None, "normal"), ("service_time", None, None, None), ("latency", "B", "Y", "normal"),
                   ("service_time", "A", "X", None), ("service_time", "Z", None, "normal"), ("latency", None, "X", "normal")]


def _value_docs():
    """one record per (metric name, task, operation type, sample type) with distinct values in no particular order, and four more (a 0.0 among them) for the normal samples of
    service_time / task A / operation type X: every difference in the record filter, a missing sort and a dropped zero show in the statistics."""
    docs = []
    more = {3: 0.0, 7: 9.5, 11: 2.0, 15: 7.25}
    for i, k_ in enumerate(_KINDS):
        docs.append(_record(*k_, value=50.0 + ((i * 7) % 16) * 2.5 + 0.125 * i))
        if i in more:
            docs.append(_record("service_time", "A", "X", "normal", value=more[i]))
    return docs


def _ref_percentile(sorted_values, p):
    """(rank is integral, value) by the documented definition (docs/metrics.rst / onlinestatbook): rank = p/100 * (n - 1) taken exactly; the value interpolates linearly between
    the two neighbouring order statistics."""
    rank = Fraction(str(float(p))) / 100 * (len(sorted_values) - 1)
    lo, hi = math.floor(rank), math.ceil(rank)
    return rank == lo, sorted_values[lo] + (sorted_values[hi] - sorted_values[lo]) * float(rank - lo)


class _StoreRuns:
    """runs methods of the in-memory store (its own and the inherited ones) on representative records: `self.docs` is the record list, SampleType the enum read off the module."""

    def __init__(self, mod, cls, mfuncs):
        self.methods = _mro_methods(mod, cls)
        self.mfuncs = mfuncs
        self.enum = _enum_members(mod, "SampleType")
        self.by_name = {m.fields["name"].lower(): m for m in self.enum.fields.values()}
        if not {"normal", "warmup"} <= set(self.by_name):
            raise AnchorMissing("SampleType.Normal / SampleType.Warmup")
        # by role: the attribute holding the records is the one the store's own methods iterate over / append to
        votes = {}
        for f in mod.methods(cls).values():
            for n in ast.walk(f):
                srcs = [n.iter] if isinstance(n, (ast.For, ast.comprehension)) else [n.func.value] if isinstance(n, ast.Call) and isinstance(n.func, ast.Attribute) and n.func.attr == "append" else []
                for x in srcs:
                    if is_self_attr(x):
                        votes[x.attr] = votes.get(x.attr, 0) + 1
        if not votes:
            raise AnchorMissing(f"attribute of {cls.name} holding the records (self.<attr> iterated by the queries)")
        self.docs_attr = max(votes, key=votes.get)

    def sample_type(self, lower_name):
        return None if lower_name is None else self.by_name[lower_name]

    def run(self, func, docs, args, kwargs=None, hooks=None):
        m = _Machine(methods=self.methods, functions=self.mfuncs, names={"SampleType": self.enum}, hooks=hooks)
        return m.run(func, args, kwargs, recv=Record(**{self.docs_attr: [dict(d, meta=dict(d["meta"])) for d in docs]}))


_QUERY_ROLES = {"get_error_rate": ("task", "operation_type", "sample_type"), "get_one": ("name", "sample_type", "node_name", "task", "mapper"), "get_unit": ("name", "task", "operation_type", "node_name"),
                "get_percentiles": ("name", "task", "operation_type", "sample_type", "percentiles")}
_NORMAL_COUNT, _OTHER_COUNT = 150, 1500  # sample counts the stand-in store reports for a Normal-filtered / any other query: they select different percentile sets


class _CalcRuns:
    """runs methods of the results calculator (machine) against a stand-in metrics store that RECORDS every query (bound to the parameters of the MetricsStore method of that name, so
    keyword / positional / **-passing are all the same) and answers it with values that depend on what was asked for."""

    def __init__(self, mod, calc_cls, store_cls, mfuncs, enum):
        self.mod, self.cls, self.mfuncs, self.enum = mod, calc_cls, mfuncs, enum
        self.methods = _mro_methods(mod, calc_cls)
        self.api = mod.methods(store_cls)
        self.normal = [m for m in enum.fields.values() if m.fields["name"].lower() == "normal"][0]
        # by role: the attribute holding the store is the one the MetricsStore-only queries are called on
        votes = {}
        for f in self.methods.values():
            for c in source.calls_in(f):
                if isinstance(c.func, ast.Attribute) and is_self_attr(c.func.value) and c.func.attr in self.api and c.func.attr.startswith("get_"):
                    votes[c.func.value.attr] = votes.get(c.func.value.attr, 0) + 1
        if not votes:
            raise AnchorMissing("attribute of GlobalStatsCalculator holding the metrics store (self.<attr>.get_stats / get_mean / ...)")
        self.store_attr = max(votes, key=votes.get)

    def roles(self, q, bound):
        """role -> value for one query: the roles of the MetricsStore parameters by position (name, task, operation_type, sample_type unless the API says otherwise)."""
        ps_ = [p_ for p_ in params_of(self.api[q]) if p_ not in ("self", "cls")]
        return {r: bound.get(p_) for r, p_ in zip(_QUERY_ROLES.get(q, ("name", "task", "operation_type", "sample_type", "node_name", "mapper")), ps_)}

    def _machine(self, answer):
        """(machine, receiver standing in for the calculator, list the queries are recorded in)."""
        calls = []
        m = _Machine(methods=self.methods, functions=self.mfuncs, names={"SampleType": self.enum})

        def make(q):
            def f(a, k, node):
                r = self.roles(q, m.bind(self.api[q], a, k, recv=True))
                calls.append((q, r, node))
                return answer(q, {k_: m.pyfunc(v_) for k_, v_ in r.items()})  # a function value (record mapper) is handed to the answer as a callable
            return f

        stub = _Stub(calls={q: make(q) for q in self.api if q.startswith("get")})
        recv = Record(**{self.store_attr: stub, "logger": None, "track": Record(meta_data=None), "challenge": Record(meta_data=None, schedule=[])})
        return m, recv, calls

    def run(self, func, args, kwargs=None, answer=None):
        """(kind, value, recorded queries [(query name, roles, call node)])."""
        m, recv, calls = self._machine(answer)
        kind, val = m.run(func, args, kwargs, recv=recv)
        return kind, val, calls

    def eval(self, expr, env, answer=None):
        """the same for an EXPRESSION of a calculator method (e.g. the argument that feeds a key of the per-task record), evaluated with `self` standing for the calculator and the
        given values for its other free names."""
        m, recv, calls = self._machine(answer)
        try:
            return "return", m.expr(expr, dict(env, self=recv)), calls
        except _WouldRaise as x:
            return "raise", str(x), calls
        except (TypeError, ValueError, KeyError, AttributeError, IndexError, ZeroDivisionError, RecursionError, OverflowError) as x:
            raise CannotEval(f"machine: {type(x).__name__}: {x}"[:160])

    def standard_answer(self, empty=False, zero=False):
        """answers that encode the request: sample counts differ between a Normal-filtered and any other query, every percentile p is answered with 1000 + p."""
        def answer(q, r):
            n = 0 if empty else (_NORMAL_COUNT if r.get("sample_type") is self.normal else _OTHER_COUNT)
            if q == "get_stats":
                return None if empty else {"count": n, "min": 0.0 if zero else 1.0, "max": 0.0 if zero else 9.0, "avg": 0.0 if zero else 4.0, "sum": 4.0 * n}
            if q == "get":
                return [float(i % 9 + 1) for i in range(n)]
            if q == "get_raw":
                return [_record("m", "t", "o", "normal", value=float(i % 9 + 1)) for i in range(min(n, 50))]
            if q == "get_percentiles":
                if empty:
                    return {}
                try:
                    return {p_: 1000.0 + float(p_) for p_ in (r.get("percentiles") if r.get("percentiles") is not None else [99, 99.9, 100])}
                except (TypeError, ValueError):
                    raise CannotEval(f"percentiles requested: {r.get('percentiles')!r}")
            if q == "get_mean":
                return None if empty else (0.0 if zero else 4.0)
            if q == "get_median":
                return None if empty else (0.0 if zero else 3.0)
            if q == "get_unit":
                return None if empty else "ms"
            if q == "get_error_rate":
                return 0.0 if empty else 0.25
            if q == "get_one":
                return None if empty else 7.0
            raise CannotEval(f"store query {q} has no stand-in answer")
        return answer


OP_KEYS = ("task", "operation", "throughput", "latency", "service_time", "processing_time", "error_rate", "duration")  # documented keys of a per-task record (race.json / results index)
# record key -> (canonical role label of the calculator method that computes it, store queries of which at least one must be issued for it, metric the value is computed for)
OP_FEEDS = {"throughput": ("summary_stats", ("get_stats", "get_mean", "get_median"), "throughput"), "latency": ("single_latency", ("get_percentiles",), "latency"),
            "service_time": ("single_latency", ("get_percentiles",), "service_time"), "processing_time": ("single_latency", ("get_percentiles",), "processing_time"),
            "error_rate": ("error_rate", ("get_error_rate",), None), "duration": ("duration", ("get_one",), None)}


def _op_record_params(gs_methods, mfuncs, ginit, ao):
    """add_op_metrics is RUN with a distinct marker per parameter on a freshly constructed results object: ('ok', {record key: parameter whose marker the key holds | None}, record,
    parameters) | ('unknown', message). No obligation is recorded here (O8.3 reports on the outcome; the mapping is also what the per-task roles are derived from)."""
    try:
        obj = Record()
        mm = _Machine(methods=gs_methods, functions=mfuncs)
        k0, v0 = mm.run(ginit, [None], recv=obj)
        before = {a: list(v) for a, v in obj.fields.items() if isinstance(v, list)}
        aparams = params_of(ao)[1:]
        amark = {p_: f"<{p_}>" for p_ in aparams}
        k1, v1 = mm.run(ao, [], {p_: ({"m": amark[p_]} if i == len(aparams) - 1 and p_ not in OP_KEYS else amark[p_]) for i, p_ in enumerate(aparams)}, recv=obj)
        new_recs = [r_ for a, v in obj.fields.items() if isinstance(v, list) for r_ in v[len(before.get(a, [])):] if isinstance(r_, dict)]
        if k0 != "return" or k1 != "return" or len(new_recs) != 1:
            return ("unknown", f"add_op_metrics does not store exactly one record on a freshly constructed results object ({k1} {v1!r}; {len(new_recs)} record(s))"[:240])
        rec = new_recs[0]
        inv = {mk: p_ for p_, mk in amark.items()}
        return ("ok", {k: inv.get(rec.get(k)) if isinstance(rec.get(k), str) else None for k in OP_KEYS}, rec, aparams)
    except (CannotEval, _Unsup) as x:
        return ("unknown", f"add_op_metrics is not evaluable with markers: {x}")


def _per_task_scope(gm, ao, key_param, call):
    """(function, call node, single-assignment locals of the function, task variable) for the place where the calculator stores the per-task record: the call <results>.add_op_metrics(...)
    wherever it sits (the main routine or a helper extracted from its loop body). By data flow: the task variable is the name X whose `X.name` reaches the record's `task` key (followed
    through the locals that hold it); if that cannot be read off, the variable of the enclosing loop. (None, None, {}, None) when the call is not located."""
    sites = [(f, c) for f in [call] + [f_ for f_ in gm.values() if f_ is not call] for c in source.calls_in(f)
             if isinstance(c.func, ast.Attribute) and c.func.attr == ao.name and not (is_self_attr(c.func) and ao.name in gm)]
    if not sites:
        return None, None, {}, None
    f, c = sites[0]
    defs = local_defs(f)
    tv = None
    if key_param and key_param.get("task"):
        # follow the argument through the locals that hold it until it reads `X.name` of a plain name X ...
        e = bind_args(c, ao).get(key_param["task"])
        for _ in range(8):
            if isinstance(e, ast.Name) and e.id in defs:
                e = defs[e.id]
            else:
                break
        if isinstance(e, ast.Attribute) and e.attr == "name" and isinstance(e.value, ast.Name):
            x = e.value.id
            # ... accepted only when X is bound once per task: the variable of an enclosing loop, a parameter of the function, or a local assigned inside a loop body
            per_task = {y.id for lp in source.ancestors(c) if isinstance(lp, (ast.For, ast.comprehension)) for y in ast.walk(lp.target) if isinstance(y, ast.Name)} | set(params_of(f)[1:])
            in_loop = x in defs and any(isinstance(lp, (ast.For, ast.While)) and lp is not f for lp in source.ancestors(defs[x]))
            if x in per_task or in_loop:
                tv = x
                defs = {k: v for k, v in defs.items() if k != x}  # the task variable stays a variable
    return f, c, defs, tv or _loop_var(c)


def _feeding_method(e, gm):
    """the calculator method whose result an (inlined) argument expression is: self.<method>(...) -> def; None for anything else."""
    return gm[e.func.attr] if isinstance(e, ast.Call) and isinstance(e.func, ast.Attribute) and is_self_attr(e.func) and e.func.attr in gm else None


def _reachable(methods, f):
    """f and the methods of the same class it reaches through self.<m>(...) / cls.<m>(...) calls (an extracted helper belongs to its caller)."""
    seen, work = [], [f]
    while work:
        g = work.pop()
        if any(g is x for x in seen):
            continue
        seen.append(g)
        for c in source.calls_in(g):
            if isinstance(c.func, ast.Attribute) and isinstance(c.func.value, ast.Name) and c.func.value.id in ("self", "cls") and c.func.attr in methods:
                work.append(methods[c.func.attr])
    return seen


def _selector_and_encoder(met, mfuncs, methods, pct_method, run0):
    """(percentile selector, percentile key encoder) BY ROLE, decided on values: among the one-parameter module-level functions the percentile method (with the helpers it calls)
    uses, the selector is the one whose result for some sample count is the percentile list that reached the store's percentile query in the recorded run, the encoder the one that
    maps each of those percentiles to a key of the method's result. Either is None when no function or more than one qualifies (the caller then takes the conventional name)."""
    asked = [list(r.get("percentiles")) for q, r, _n in run0[2] if q == "get_percentiles" and isinstance(r.get("percentiles"), (list, tuple))]
    result = run0[1] if run0[0] == "return" and isinstance(run0[1], dict) else None
    cands = []
    for g in _reachable(methods, pct_method):
        for c in source.calls_in(g):
            f_ = mfuncs.get(c.func.id) if isinstance(c.func, ast.Name) else None
            if f_ is not None and len(params_of(f_)) == 1 and not f_.args.kwonlyargs and not any(f_ is x for x in cands):
                cands.append(f_)
    selectors, encoders = [], []
    for f_ in cands:
        try:
            consts = _selector_reads(met, f_, mfuncs)[0]
            if asked and any(_Machine(functions=mfuncs, names=consts).run(f_, [n_]) == ("return", asked[0]) for n_ in (_NORMAL_COUNT, _OTHER_COUNT, 1, 5, 50, 5000, 10**6)):
                selectors.append(f_)
            elif asked and result is not None and all(kv[0] == "return" and isinstance(kv[1], str) and kv[1] in result for kv in (_Machine(functions=mfuncs, names=consts).run(f_, [p_]) for p_ in asked[0])):
                encoders.append(f_)
        except (CannotEval, _Unsup):
            continue
    return (selectors[0] if len(selectors) == 1 else None), (encoders[0] if len(encoders) == 1 else None)


def _percentile_function(store, gp):
    """the in-memory store's percentile function BY ROLE: the method get_percentiles reaches (self.<m>(sorted values, percentile)) that takes two values and, run on the sorted
    values [1.0, 3.0] and the percentile 50, returns a number between them. None unless exactly one method qualifies."""
    out = []
    for g in _reachable(store.methods, gp)[1:]:
        own = [p_ for p_ in params_of(g) if p_ not in ("self", "cls")]
        if len(own) != 2 or g.args.kwonlyargs:
            continue
        try:
            kind, val = store.run(g, [], [[1.0, 3.0], 50])
        except (CannotEval, _Unsup):
            continue
        if kind == "return" and isinstance(val, _NUM) and not isinstance(val, bool) and 1.0 <= val <= 3.0:
            out.append(g)
    return out[0] if len(out) == 1 else None


def _param_roles(caller, method, cdefs, tv=None):
    """role of each parameter of a per-task calculator method, derived from what the calculator's main loop passes: `<task>.name` -> task, `<task>.operation.type` -> operation type,
    a string literal -> metric name (<task> = the task variable `tv` of the per-task scope; without one, the variable of the loop the call sits in). {} when no call site is found."""
    roles = {}
    for c in source.calls_in(caller):
        if isinstance(c.func, ast.Attribute) and is_self_attr(c.func, method.name):
            lv = tv or _loop_var(c)
            for p_, a in bind_args(c, method).items():
                t = _il(a, cdefs)
                r = "task" if lv and t == f"{lv}.name" else "operation_type" if lv and t == f"{lv}.operation.type" else "metric" if isinstance(a, ast.Constant) and isinstance(a.value, str) else None
                if r is not None and roles.get(p_, r) == r:
                    roles[p_] = r
                elif r is not None:
                    roles[p_] = "?"
    return roles


def _enum_members(mod, cname):
    """the members of an Enum class as a namespace of _Member values (name, value), read off its class body."""
    c = mod.get(cname, required=False)
    if not isinstance(c, ast.ClassDef):
        raise AnchorMissing(f"enum class {cname}")
    ms = {}
    for st in c.body:
        if isinstance(st, ast.Assign) and len(st.targets) == 1 and isinstance(st.targets[0], ast.Name) and isinstance(st.value, ast.Constant):
            ms[st.targets[0].id] = _Member(name=st.targets[0].id, value=st.value.value)
    if not ms:
        raise AnchorMissing(f"members of enum class {cname}")
    return Record(**ms)


def _mro_methods(mod, cls, seen=None):
    """name -> def over the class and its bases defined in the same module (the class's own definitions win)."""
    seen = seen or set()
    out = {}
    for b in cls.bases:
        bc = mod.get(last_attr(b) or "", required=False)
        if isinstance(bc, ast.ClassDef) and bc.name not in seen:
            out.update(_mro_methods(mod, bc, seen | {cls.name}))
    out.update(mod.methods(cls))
    return out


def _module_functions(mod):
    return {n.name: n for n in mod.tree.body if isinstance(n, ast.FunctionDef)}


def _close(a, b):
    """numbers agree up to floating-point rounding (the property does not decide floating-point behaviour); None only equals None."""
    if a is None or b is None or isinstance(a, bool) or isinstance(b, bool) or not isinstance(a, _NUM) or not isinstance(b, _NUM):
        return a is b or (type(a) is type(b) and a == b)
    return math.isclose(a, b, rel_tol=1e-9, abs_tol=1e-12)


# per-shard arrays of the records of one index-time metric (docs/metrics.rst: "per-shard contains the times across primary shards in an array"; telemetry.IndexStats stores
# `[]` when the shard level of the index-stats response cannot be walked)
SHARD_CASES = [
    ("no-record", []),
    ("one-empty-array", [[]]),
    ("two-empty-arrays", [[], []]),
    ("one-shard", [[3]]),
    ("two-records", [[1], [2, 3]]),
    ("three-records", [[5, 9], [2], [4]]),
    ("empty-and-filled", [[], [7, 5]]),
    ("even-count", [[4, 4, 9, 1]]),
]


def per_shard_statistics(chk, rid, met, calc, call):
    """Every calculator method that queries the `per-shard` arrays of a metric is RUN (machine) against the stand-in store on representative record sets (the record mapper the method
    passes is applied to the records, nothing of the repository is called): it returns for every record set, with min/median/max of ALL per-shard values when there are any and
    without numbers when there are none. Flattening in a comprehension, a loop or a helper, guard clause or if/else: the same computation."""
    sites = []
    for f in calc.methods.values():
        for c in source.calls_in(f):
            if isinstance(c.func, ast.Attribute) and is_self_attr(c.func.value, calc.store_attr) and c.func.attr in calc.api:
                for mp in [a_ for a_ in list(c.args) + [k_.value for k_ in c.keywords]]:
                    mp = local_defs(f).get(mp.id, mp) if isinstance(mp, ast.Name) else mp
                    if isinstance(mp, ast.Lambda) and any(isinstance(x, ast.Subscript) and source.is_const(x.slice, "per-shard") for x in ast.walk(mp.body)) and f not in sites:
                        sites.append(f)
    if not sites:
        raise AnchorMissing("GlobalStatsCalculator method querying the `per-shard` arrays (self.<store>.get_raw(..., mapper=lambda doc: doc['per-shard']))")
    cdefs = local_defs(call)
    for f in sites:
        # entry point: the method the calculator's main routine calls with the metric name (the querying method itself, or the method that reaches it)
        proles = _param_roles(call, f, cdefs)
        if sorted(proles.values()) != ["metric"] or len(params_of(f)) - len(f.args.defaults) != 2:
            chk.unknown(rid, f"{f.name}: not called from __call__ with just a metric name (parameters {params_of(f)[1:]})", f)
            continue
        kwargs = {p_: "indexing_total_time" for p_ in proles}
        for label, arrays in SHARD_CASES:
            recs = [dict(_record("indexing_total_time", "t", "o", "normal", value=sum(a)), **{"per-shard": list(a)}) for a in arrays]
            flat = [w for a in arrays for w in a]
            want = {"min": min(flat), "median": statistics.median(flat), "max": max(flat)} if flat else {"min": None, "median": None, "max": None}
            key = f"{_M}:GlobalStatsCalculator.{f.name}:per-shard:{label}"
            inst = f"{f.name}: per-shard arrays {arrays} -> {'min/median/max of ' + str(sorted(flat)) if flat else 'no per-shard statistics (and no exception)'}"
            base = calc.standard_answer()

            def answer(q, r):
                if q in ("get_raw", "get"):
                    mapper = r.get("mapper") if q == "get_raw" else (lambda d: d["value"])
                    return [mapper(d) if mapper is not None else d for d in recs]
                return base(q, r)

            try:
                kind, got, _calls = calc.run(f, [], kwargs, answer=answer)
            except (CannotEval, _Unsup) as x:
                chk.unknown(rid, f"{f.name} is not evaluable on the per-shard arrays {arrays}: {x}", f)
                continue
            if kind == "raise":
                ok, detail = False, f"{got}: the exception aborts the whole result calculation"
            elif got is None or isinstance(got, dict):
                got = {k: (got or {}).get(k) for k in want}
                ok = all(_close(got[k], want[k]) for k in want)
                detail = "" if ok else f"result {got}, expected {want}"
            else:
                ok, detail = False, f"result {got!r} is not a statistics record"
            chk.ob(rid, inst, ok, f, detail, key=key)


# ---- the Elasticsearch-backed metrics store, run against a stand-in for Elasticsearch ---------------------------------------------------------------------------------------------
_ES_RACE, _ES_OTHER_RACE = "r", "another-race"  # (_record() stores the race id "r")


def _mro_classes(mod, cls, seen=None):
    """the class and its bases defined in the same module (nearest first)."""
    seen = seen or set()
    out = [cls]
    for b in cls.bases:
        bc = mod.get(last_attr(b) or "", required=False)
        if isinstance(bc, ast.ClassDef) and bc.name not in seen:
            out += _mro_classes(mod, bc, seen | {cls.name})
    return out


def _es_field(doc, path):
    """the value of a (possibly dotted) field of a stored record, as a term filter / an aggregation of Elasticsearch reads it."""
    if path in doc:
        return doc[path]
    cur = doc
    for part in path.split("."):
        if not isinstance(cur, dict) or part not in cur:
            return None
        cur = cur[part]
    return cur


def _es_same(have, want):
    """a term clause on a keyword / boolean / numeric field matches the exact value (a value that is not a JSON scalar matches nothing)."""
    if isinstance(want, bool) or isinstance(have, bool):
        return isinstance(want, bool) and isinstance(have, bool) and have == want
    if isinstance(want, str) or isinstance(have, str):
        return isinstance(want, str) and isinstance(have, str) and have == want
    return isinstance(want, _NUM) and isinstance(have, _NUM) and have == want


def _es_matches(doc, clause):
    """does the stored record match the query clause? The fragment of the query DSL that has an exact reading on keyword fields is interpreted: bool (filter / must / must_not),
    term, terms, match_all. Anything else (range, wildcard, prefix, match, should, scripts ...) is not interpreted: the verdict is then 'not recognised'."""
    if not isinstance(clause, dict) or len(clause) != 1:
        raise CannotEval(f"query clause {clause!r} is not interpreted by the stand-in for Elasticsearch"[:160])
    ((kind, body),) = clause.items()
    if kind == "match_all":
        return True
    if kind in ("term", "terms") and isinstance(body, dict) and len(body) == 1:
        ((fld, want),) = body.items()
        if not isinstance(fld, str):
            raise CannotEval(f"query clause {clause!r}: field name"[:160])
        have = _es_field(doc, fld)
        if kind == "terms":
            if not isinstance(want, (list, tuple)):
                raise CannotEval(f"query clause {clause!r}: terms expects a list"[:160])
            return any(_es_same(have, w_) for w_ in want)
        if isinstance(want, dict):
            if set(want) - {"value", "boost"} or "value" not in want:
                raise CannotEval(f"query clause {clause!r} is not interpreted by the stand-in for Elasticsearch"[:160])
            want = want["value"]
        return _es_same(have, want)
    if kind == "bool" and isinstance(body, dict) and set(body) <= {"filter", "must", "must_not"}:
        as_list = lambda v: v if isinstance(v, list) else [v]
        return all(_es_matches(doc, c_) for k_ in ("filter", "must") for c_ in as_list(body.get(k_, []))) and not any(_es_matches(doc, c_) for c_ in as_list(body.get("must_not", [])))
    raise CannotEval(f"query clause `{kind}` ({short_repr(body)}) is not interpreted by the stand-in for Elasticsearch")


def short_repr(v, n=80):
    t = repr(v)
    return t if len(t) <= n else t[: n - 3] + "..."


def _es_agg(spec, sel):
    """the answer of Elasticsearch to one aggregation over the selected records: terms (buckets of a boolean / keyword field), stats, percentiles (answered with the documented
    linear interpolation: what matters to the rule is which value is handed back for which percentile, not how Elasticsearch approximates it)."""
    if not isinstance(spec, dict) or len(spec) != 1:
        raise CannotEval(f"aggregation {short_repr(spec)} is not interpreted by the stand-in for Elasticsearch")
    ((kind, body),) = spec.items()
    fld = body.get("field") if isinstance(body, dict) else None
    if not isinstance(fld, str):
        raise CannotEval(f"aggregation {short_repr(spec)}: no field")
    vals = [v for v in (_es_field(d, fld) for d in sel) if v is not None]
    if kind == "terms" and set(body) <= {"field", "size"}:
        counts = {}
        for v in vals:
            counts[v] = counts.get(v, 0) + 1
        buckets = [dict({"key": (1 if v else 0), "key_as_string": "true" if v else "false"} if isinstance(v, bool) else {"key": v}, doc_count=c_) for v, c_ in counts.items()]
        return {"doc_count_error_upper_bound": 0, "sum_other_doc_count": 0, "buckets": sorted(buckets, key=lambda b_: -b_["doc_count"])}
    if kind == "stats" and set(body) <= {"field"}:
        if not all(isinstance(v, _NUM) and not isinstance(v, bool) for v in vals):
            raise CannotEval(f"stats aggregation over the non-numeric field {fld!r}")
        return {"count": len(vals), "min": min(vals) if vals else None, "max": max(vals) if vals else None, "avg": (sum(vals) / len(vals)) if vals else None, "sum": float(sum(vals))}
    if kind == "percentiles" and set(body) <= {"field", "percents"}:
        try:
            ps_ = [float(p_) for p_ in body.get("percents", [1, 5, 25, 50, 75, 95, 99])]
        except (TypeError, ValueError):
            raise CannotEval(f"percentiles aggregation: percents {short_repr(body.get('percents'))}")
        ordered = sorted(vals)
        return {"values": {str(p_): (_ref_percentile(ordered, p_)[1] if ordered else None) for p_ in ps_}}
    raise CannotEval(f"aggregation `{kind}` ({short_repr(body)}) is not interpreted by the stand-in for Elasticsearch")


def _es_response(body, sel):
    """the search response for the selected records: total, the first `size` hits in the requested order, the aggregations."""
    unknown = set(body) - {"query", "size", "sort", "aggs", "aggregations", "track_total_hits"}
    if unknown:
        raise CannotEval(f"search request member(s) {sorted(unknown)} are not interpreted by the stand-in for Elasticsearch")
    hits = list(sel)
    for s_ in reversed(body.get("sort") or []):
        if isinstance(s_, str):
            fld, order = s_, "asc"
        elif isinstance(s_, dict) and len(s_) == 1:
            ((fld, spec),) = s_.items()
            order = spec if isinstance(spec, str) else spec.get("order", "asc") if isinstance(spec, dict) and set(spec) <= {"order"} else None
        else:
            fld = order = None
        if not isinstance(fld, str) or order not in ("asc", "desc"):
            raise CannotEval(f"sort clause {short_repr(s_)} is not interpreted by the stand-in for Elasticsearch")
        try:
            hits = sorted(hits, key=lambda d: _es_field(d, fld), reverse=order == "desc")
        except TypeError:
            raise CannotEval(f"sort clause {short_repr(s_)}: the field is not ordered in the representative records")
    size = body.get("size", 10)
    if isinstance(size, bool) or not isinstance(size, int) or size < 0:
        raise CannotEval(f"search request size {size!r}")
    copy_ = lambda d: {k_: (dict(v_) if isinstance(v_, dict) else list(v_) if isinstance(v_, list) else v_) for k_, v_ in d.items()}
    res = {"took": 1, "timed_out": False,
           "hits": {"total": {"value": len(sel), "relation": "eq"}, "max_score": None, "hits": [{"_index": "rally-metrics", "_id": str(i_), "_score": None, "_source": copy_(d)} for i_, d in enumerate(hits[:size])]}}
    aggs = body.get("aggs", body.get("aggregations"))
    if aggs is not None:
        if not isinstance(aggs, dict):
            raise CannotEval("aggregations of the search request are not a mapping")
        res["aggregations"] = {nm: _es_agg(spec, sel) for nm, spec in aggs.items()}
    return res


class _EsRuns:
    """runs query methods of the Elasticsearch metrics store (its own and the inherited ones, machine) against a stand-in for the Elasticsearch client: every search request the method
    sends is EVALUATED on representative stored records (term filters, sort, size, terms / stats / percentiles aggregations) and recorded together with the records it selects."""

    def __init__(self, mod, cls, mfuncs, enum):
        self.cls, self.mfuncs, self.enum = cls, mfuncs, enum
        self.methods = _mro_methods(mod, cls)
        # by role: the attribute holding the client is the one the store's methods call .search(...) on
        votes = {}
        for f in mod.methods(cls).values():
            for c in source.calls_in(f):
                if isinstance(c.func, ast.Attribute) and c.func.attr == "search" and is_self_attr(c.func.value):
                    votes[c.func.value.attr] = votes.get(c.func.value.attr, 0) + 1
        if not votes:
            raise AnchorMissing(f"attribute of {cls.name} holding the Elasticsearch client (self.<attr>.search(...))")
        self.client_attr = max(votes, key=votes.get)
        # by data flow: the attribute holding the race id is the one `open` assigns from its race id parameter (or the race id of the open context); every other attribute the
        # constructors / open assign holds a marker
        self.attrs, self.race_attr = set(), None
        for k in _mro_classes(mod, cls):
            for nm in ("__init__", "open"):
                f = mod.methods(k).get(nm)
                for n in walk_body(f) if f is not None else []:
                    if isinstance(n, ast.Assign) and is_self_attr(n.targets[0]):
                        self.attrs.add(n.targets[0].attr)
                        if nm == "open" and ((isinstance(n.value, ast.Name) and n.value.id == "race_id") or (isinstance(n.value, ast.Subscript) and source.is_const(n.value.slice, "race-id"))):
                            self.race_attr = self.race_attr or n.targets[0].attr
        # by data flow: an attribute the store copies into every record it writes (`"environment": self._environment_name` in the record literal of _put_metric) holds what the
        # representative records carry under that key, so a search that also filters by such a field selects the same records
        self.stored_as = {}
        pm = self.methods.get("_put_metric")
        for n in ast.walk(pm) if pm is not None else []:
            if isinstance(n, ast.Dict):
                for k_, v_ in zip(n.keys, n.values):
                    if isinstance(k_, ast.Constant) and isinstance(k_.value, str) and is_self_attr(v_):
                        self.stored_as.setdefault(v_.attr, k_.value)
        self.race_attr = self.race_attr or next((a for a, k_ in self.stored_as.items() if k_ == "race-id"), None)
        if self.race_attr is None:
            raise AnchorMissing("attribute of the metrics store holding the race id (self.<attr> = race_id in MetricsStore.open / \"race-id\": self.<attr> in _put_metric)")

    def kwargs(self, q, **roles):
        """arguments for one query by the ROLE of the parameters of the MetricsStore API (by position: name, task, operation_type, sample_type unless the API says otherwise)."""
        ps_ = [p_ for p_ in params_of(self.methods[q]) if p_ not in ("self", "cls")]
        order = _QUERY_ROLES.get(q, ("name", "task", "operation_type", "sample_type", "node_name", "mapper"))
        missing = [r_ for r_ in roles if r_ not in order[: len(ps_)]]
        if missing:
            raise CannotEval(f"{q}: no parameter for {missing} (parameters {ps_})")
        return {p_: roles[r_] for r_, p_ in zip(order, ps_) if r_ in roles}

    def run(self, q, docs, **roles):
        """(kind, value, [(search body, records it selects)]) for one query on the representative records."""
        log = []

        def search(a, k, node):
            b = dict(zip(("index", "body"), a))
            b.update(k)
            body = b.get("body")
            if not isinstance(body, dict) or not isinstance(body.get("query"), dict):
                raise CannotEval(f"search request without a query: {short_repr(body)}")
            sel = [d for d in docs if _es_matches(d, body["query"])]
            log.append((body, sel))
            return _es_response(body, sel)

        fields = {a: f"<{a}>" for a in self.attrs}
        sample = _record("m", "t", "o", "normal")
        fields.update({a: sample[k_] for a, k_ in self.stored_as.items() if k_ in sample})
        fields.update({self.race_attr: _ES_RACE, self.client_attr: _Stub(calls={"search": search}), "logger": None})
        m = _Machine(methods=self.methods, functions=self.mfuncs, names={"SampleType": self.enum})
        kind, val = m.run(self.methods[q], [], self.kwargs(q, **roles), recv=Record(**fields))
        return kind, val, log


def _es_docs():
    """representative stored records: several per (metric name, task, operation type, sample type) with distinct values and mixed success flags, and for every kind one failed record
    of ANOTHER race in the same index."""
    docs = []
    for i, k_ in enumerate(_KINDS):
        for j in range(1 + i % 4):
            docs.append(_record(*k_, ok=(i + j) % 3 != 0, value=20.0 + ((i * 7) % 16) * 2.5 + 0.125 * i + 11.0 * j))
        docs.append(dict(_record(*k_, ok=False, value=-1.0), **{"race-id": _ES_OTHER_RACE}))
    return docs


def es_store_queries(chk, rid, met, mfuncs, enum):
    """The Elasticsearch metrics store answers the same requests as the in-memory store. Every query method of the MetricsStore API the results calculator uses is RUN (machine) against
    a stand-in for the Elasticsearch client; the search request it sends is evaluated on representative stored records: it must select exactly the records of THIS race the request
    asks for (metric name; task / operation type / sample type when given), and what the method hands back must be the statistic of the records the search selected."""
    ES = met.cls("EsMetricsStore")
    es = _EsRuns(met, ES, mfuncs, enum)
    normal = [m for m in enum.fields.values() if m.fields["name"].lower() == "normal"]
    if not normal:
        raise AnchorMissing("SampleType.Normal")
    st_of = lambda s_: None if s_ is None else normal[0]
    docs = _es_docs()
    # (a request for Warmup samples is not asked: `if sample_type:` drops that filter because SampleType.Warmup == 0 - advisory O8.5, the results only ever ask for Normal samples)
    dedupe = lambda rs: [r_ for i_, r_ in enumerate(rs) if r_ not in rs[:i_]]
    per_query = {
        "get_error_rate": [("service_time", t_, o_, s_) for t_ in ("A", "B") for o_ in (None, "X") for s_ in (None, "normal")],
        "get_one": dedupe([(n_, t_, None, s_) for n_, t_, _o, s_ in _VALUE_REQUESTS]),
        "get_unit": dedupe([(n_, t_, o_, None) for n_, t_, o_, _s in _VALUE_REQUESTS]),
    }
    wanted_p = [50, 99.9, 100]
    described = lambda d: f"{d['name']} / task {d['task']} / operation type {d['operation-type']} / {d['sample-type']} sample / race {d['race-id']!r}"
    for q in ("get_error_rate", "get_stats", "get_percentiles", "get_mean", "get_median", "get", "get_raw", "get_unit", "get_one"):
        fd = es.methods.get(q)
        if fd is None:
            raise AnchorMissing(f"EsMetricsStore.{q}")
        sel_ok, sel_detail, val_ok, val_detail, searched = True, "", True, "", 0
        try:
            for rq in per_query.get(q, _VALUE_REQUESTS):
                name, task, ot, st = rq
                roles = {"task": task, "operation_type": ot, "sample_type": st_of(st), "name": name}
                if q == "get_error_rate":
                    roles.pop("name")
                if q == "get_one":
                    roles.pop("operation_type")
                if q == "get_unit":
                    roles.pop("sample_type")
                if q == "get_percentiles":
                    roles["percentiles"] = list(wanted_p)
                kind, got, log = es.run(q, docs, **roles)
                rq_txt = f"request {name} / task {task!r} / operation type {ot!r} / sample type {st}"
                want_sel = [d for d in docs if d["race-id"] == _ES_RACE and _ref_match(d, name, task, ot, st)]
                searched += len(log)
                for body, sel in log:
                    extra, lost = [d for d in sel if not any(d is w_ for w_ in want_sel)], [d for d in want_sel if not any(d is s_ for s_ in sel)]
                    if (extra or lost) and sel_ok:
                        sel_ok = False
                        sel_detail = (f"{rq_txt}: the search selects {len(sel)} record(s), the request {len(want_sel)}; " +
                                      (f"e.g. it also selects a record of {described(extra[0])}" if extra else f"e.g. it misses a record of {described(lost[0])}") +
                                      f" (filter sent: {short_repr(body.get('query'), 200)})")
                if kind == "raise":
                    if val_ok:
                        val_ok, val_detail = False, f"{rq_txt}: {got}"
                    continue
                if not log:
                    continue
                sel = log[-1][1]  # the statistic is compared with that of the records the search SELECTED (which records it should select is the obligation above)
                F = [d["value"] for d in sel]
                bad = None
                if q == "get_error_rate":
                    want = (sum(1 for d in sel if d["meta"]["success"] is False) / len(sel)) if sel else 0.0
                    bad = None if isinstance(got, _NUM) and not isinstance(got, bool) and _close(float(got), want) else f"error rate {got!r}, expected {want!r} ({len(sel)} selected records)"
                elif q == "get_stats" and F:
                    want = {"count": len(F), "min": min(F), "max": max(F), "avg": sum(F) / len(F)}
                    bad = None if isinstance(got, dict) and all(_close(got.get(k_), w_) for k_, w_ in want.items()) else f"statistics {short_repr(got, 120)}, expected {want}"
                elif q == "get_mean":
                    want = (sum(F) / len(F)) if F else None
                    bad = None if _close(got, want) else f"mean {got!r}, expected {want!r}"
                elif q == "get_median":
                    want = _ref_percentile(sorted(F), 50)[1] if F else None
                    bad = None if _close(got, want) else f"median {got!r}, expected the 50th percentile {want!r} of the selected values"
                elif q == "get":
                    bad = None if isinstance(got, list) and sorted(got, key=repr) == sorted(F, key=repr) else f"values {short_repr(got, 100)}, expected those of the {len(F)} selected records"
                elif q == "get_percentiles" and F:
                    if not isinstance(got, dict):
                        bad = f"percentiles {got!r} for {len(F)} selected records"
                    else:
                        try:
                            by_p = {float(k_): v_ for k_, v_ in got.items()}
                        except (TypeError, ValueError):
                            by_p = {}
                        for p_ in wanted_p:
                            want = _ref_percentile(sorted(F), p_)[1]
                            if float(p_) not in by_p or not _close(by_p[float(p_)], want):
                                bad = f"percentile {p_} is {by_p.get(float(p_))!r}, Elasticsearch answered {want!r} for the selected records"
                                break
                elif q in ("get_percentiles", "get_stats") and not F:
                    bad = None if not got or (isinstance(got, dict) and got.get("count") == 0) else f"no record selected but the result is {short_repr(got, 100)}"
                if bad and val_ok:
                    val_ok, val_detail = False, f"{rq_txt}: {bad}"
        except (CannotEval, _Unsup) as x:
            chk.unknown(rid, f"EsMetricsStore.{q} is not evaluable against the stand-in for Elasticsearch: {x}"[:300], fd)
            continue
        if not searched:
            chk.unknown(rid, f"EsMetricsStore.{q}: no search request reaches the Elasticsearch client", fd)
            continue
        chk.ob(rid, f"EsMetricsStore.{q}: the search selects exactly the records of the request (this race, metric name, task, operation type, sample type)", sel_ok, fd, sel_detail[:420],
               key=f"{_M}:EsMetricsStore.{q}:filter")
        if q in ("get_error_rate", "get_stats", "get_percentiles", "get_mean", "get_median", "get"):
            chk.ob(rid, f"EsMetricsStore.{q}: " + ("error rate == failed / all of the selected records" if q == "get_error_rate" else "hands back the statistic Elasticsearch computed over the selected records"),
                   val_ok, fd, val_detail[:300], key=f"{_M}:EsMetricsStore.{q}:values")


# ---- the race file store, run on a model file system --------------------------------------------------------------------------------------------------------------------------------
class _LazyCalls(dict):
    """name -> callable, filled on first use (a module of the package is only parsed when the analysed code calls into it)."""

    def __init__(self, loader):
        super().__init__()
        self.loader, self.loaded = loader, False

    def __bool__(self):
        return True  # (not yet loaded is not empty)

    def _load(self):
        if not self.loaded:
            self.loaded = True
            self.update(self.loader())

    def __contains__(self, k):
        self._load()
        return dict.__contains__(self, k)

    def __getitem__(self, k):
        self._load()
        return dict.__getitem__(self, k)


class _PathFields(dict):
    """the attributes of a path value, computed when read (`parent` of a path is again a path)."""

    _PURE = ("name", "stem", "suffix", "suffixes", "parts", "anchor", "root", "drive")

    def __init__(self, owner):
        super().__init__()
        self.owner = owner

    def __contains__(self, k):
        return k in self._PURE or k == "parent"

    def __getitem__(self, k):
        if k == "parent":
            return _PathV(self.owner.fs, self.owner.pp.parent)
        if k in self._PURE:
            v = getattr(self.owner.pp, k)
            return list(v) if k == "suffixes" else v
        raise KeyError(k)

    def get(self, k, default=None):
        return self[k] if k in self else default


class _PathV(_Stub):
    """a pathlib path over the model file system: the pure part (joining, name / parent / suffix, str) is that of PurePosixPath, the methods that touch the file system (exists, is_file,
    is_dir, read_text, write_text, open, mkdir, glob, iterdir) act on the model."""

    def __init__(self, fs, pp):
        self.fs, self.pp = fs, pp
        Record.__init__(self)
        self.fields = _PathFields(self)
        wrap = lambda x: _PathV(fs, x)
        text = lambda x: x.path if isinstance(x, _PathV) else x if isinstance(x, str) else _Machine._no(ast.Constant(value="path argument that is neither text nor a path"))

        def g(fn, ok_kw=()):
            def f(a, k, n):
                if set(k) - set(ok_kw):
                    raise CannotEval(f"call {short(n, 60)}: keyword(s) {sorted(set(k) - set(ok_kw))} of a path method are not modelled")
                try:
                    return fn(*a, **k)
                except (TypeError, ValueError, AttributeError) as x:
                    raise CannotEval(f"call {short(n, 60)}: {type(x).__name__}")
            return f

        def write_text(data, encoding=None, errors=None, newline=None):
            if not isinstance(data, str):
                raise CannotEval("write_text() of something that is not text")
            return fs.open(self.path, "w").calls["write"]([data], {}, None)

        def read_text(encoding=None, errors=None):
            return fs.open(self.path, "r").calls["read"]([], {}, None)

        def mkdir(mode=0o777, parents=False, exist_ok=False):
            p_ = fs.norm(self.path)
            if not parents and posixpath.dirname(p_) not in fs.dirs:
                raise _Raised(f"Path({p_!r}).mkdir(): the parent directory does not exist (FileNotFoundError)", etype="FileNotFoundError")
            fs.makedirs(p_, exist_ok)

        def glob_(pattern):
            if not isinstance(pattern, str) or "**" in pattern or pattern.startswith("/"):
                raise CannotEval(f"Path.glob({pattern!r}) is not modelled")
            return [_PathV(fs, PurePosixPath(x)) for x in fs.glob(posixpath.join(self.path, pattern))]

        self.calls = {
            "exists": g(lambda: fs.exists(self.path)), "is_file": g(lambda: fs.norm(self.path) in fs.files), "is_dir": g(lambda: fs.norm(self.path) in fs.dirs),
            "read_text": g(read_text, ("encoding", "errors")), "write_text": g(write_text, ("encoding", "errors", "newline")),
            "open": g(lambda mode="r", buffering=-1, encoding=None, errors=None, newline=None: fs.open(self.path, mode), ("mode", "encoding", "errors", "newline")),
            "mkdir": g(mkdir, ("mode", "parents", "exist_ok")), "glob": g(glob_), "iterdir": g(lambda: [wrap(self.pp / x) for x in fs.listdir(self.path)]),
            "joinpath": g(lambda *xs: wrap(self.pp.joinpath(*[text(x) for x in xs]))), "with_name": g(lambda x: wrap(self.pp.with_name(x))), "with_suffix": g(lambda x: wrap(self.pp.with_suffix(x))),
            "as_posix": g(lambda: self.path), "__fspath__": g(lambda: self.path), "is_absolute": g(self.pp.is_absolute), "match": g(lambda x: self.pp.match(x)),
        }

    @property
    def path(self):
        return str(self.pp)

    def join(self, other):
        if isinstance(other, _PathV):
            return _PathV(self.fs, self.pp / other.pp)
        if isinstance(other, str):
            return _PathV(self.fs, self.pp / other)
        raise CannotEval(f"path / {type(other).__name__}")

    def rjoin(self, other):
        if isinstance(other, str):
            return _PathV(self.fs, other / self.pp)
        raise CannotEval(f"{type(other).__name__} / path")

    def __fspath__(self):
        return self.path

    def __str__(self):
        return self.path

    def __repr__(self):
        return f"Path({self.path!r})"

    def __eq__(self, other):
        return isinstance(other, _PathV) and self.pp == other.pp

    def __ne__(self, other):
        return not self == other

    def __hash__(self):
        return hash(self.pp)

    def __lt__(self, other):
        if not isinstance(other, _PathV):
            raise TypeError("order of a path and something else")
        return self.pp < other.pp


class _FsModel:
    """A model of the part of the environment the race file store touches: a file system (POSIX paths; files with text content, directories), `open`, os / os.path / glob / fnmatch /
    json functions over it. glob follows the documented semantics (the pattern is matched segment by segment with fnmatch; a pattern without wildcard characters names the path
    itself). Modules of the package the analysed code calls into (esrally.paths, esrally.utils.io) are NOT modelled: their functions are run by the machine over this model."""

    def __init__(self, repo):
        self.repo = repo
        self.files, self.dirs = {}, {"/"}
        self.consulted = set()  # package modules whose functions were run

    @staticmethod
    def norm(p):
        if isinstance(p, _PathV):
            p = p.path
        if not isinstance(p, str) or not p:
            raise CannotEval(f"path {p!r} in the model file system")
        return posixpath.normpath(p)

    def exists(self, p):
        return self.norm(p) in self.files or self.norm(p) in self.dirs

    def makedirs(self, p, exist_ok=False):
        p = self.norm(p)
        if p in self.files or (p in self.dirs and not exist_ok):
            raise _Raised(f"os.makedirs({p!r}): the path exists (FileExistsError)", etype="FileExistsError")
        while p not in self.dirs:
            self.dirs.add(p)
            p = posixpath.dirname(p) or "/"

    def listdir(self, p):
        p = self.norm(p)
        if p not in self.dirs:
            raise _Raised(f"os.listdir({p!r}): no such directory (FileNotFoundError)", etype="FileNotFoundError")
        return sorted(posixpath.basename(x) for x in list(self.files) + list(self.dirs) if x != p and posixpath.dirname(x) == p)

    def glob(self, pattern):
        pat = self.norm(pattern).split("/")
        out = []
        for x in sorted(list(self.files) + list(self.dirs)):
            segs = x.split("/")
            if len(segs) == len(pat) and all((fnmatch.fnmatchcase(s_, p_) and not (s_.startswith(".") and not p_.startswith("."))) if re.search(r"[*?\[]", p_) else s_ == p_ for s_, p_ in zip(segs, pat)):
                out.append(x)
        return out

    def open(self, path, mode="r"):
        path = self.norm(path)
        if mode in ("w", "wt"):
            if posixpath.dirname(path) not in self.dirs or path in self.dirs:
                raise _Raised(f"open({path!r}, 'w'): the directory does not exist (FileNotFoundError)", etype="FileNotFoundError")
            self.files[path] = ""

            def write(a, k, node):
                if len(a) != 1 or not isinstance(a[0], str):
                    raise CannotEval("write() of something that is not text")
                self.files[path] += a[0]
                return len(a[0])

            return _Stub(calls={"write": write, "close": lambda a, k, n: None, "flush": lambda a, k, n: None}, __context__=True, name=path)
        if mode in ("r", "rt"):
            if path not in self.files:
                raise _Raised(f"open({path!r}): no such file (FileNotFoundError)", etype="FileNotFoundError")
            return _Stub(calls={"read": lambda a, k, n: self.files[path] if not a and not k else _Machine._no(n), "close": lambda a, k, n: None}, __context__=True, name=path)
        raise CannotEval(f"open(..., mode={mode!r}) is not modelled")

    # -- what the analysed code sees ----------------------------------------------------------------------------------------------------------------------------------------
    def hooks(self):
        def open_(b):
            a, k = list(b.get("args", [])), dict(b.get("kwargs", {}))
            if not a and "file" in k:
                a.append(k.pop("file"))
            mode = a[1] if len(a) > 1 else k.get("mode", "r")
            if not a or len(a) > 2 or set(k) - {"mode", "encoding", "newline", "errors"}:
                raise CannotEval("open(...) arguments")
            return self.open(a[0], mode)

        return {"open": open_}

    def names(self, mod, depth=0):
        """module-level names of `mod` bound (by its imports) to a modelled library module or to a module of the package."""
        one = lambda fn: (lambda a, k, n: fn(*a, **k))

        def guarded(fn):
            def f(a, k, n):
                try:
                    return fn(*a, **k)
                except (TypeError, ValueError, AttributeError) as x:
                    raise CannotEval(f"call {short(n, 60)}: {type(x).__name__}")
            return f

        def dumps(a, k, n):
            if len(a) != 1 or set(k) - {"indent", "ensure_ascii", "sort_keys", "separators"}:
                raise CannotEval(f"call {short(n, 60)}")
            try:
                return json.dumps(a[0], **k)
            except (TypeError, ValueError) as x:
                raise CannotEval(f"call {short(n, 60)}: {type(x).__name__}: the representative value is not plain JSON")

        def loads(a, k, n):
            if len(a) != 1 or k or not isinstance(a[0], str):
                raise CannotEval(f"call {short(n, 60)}")
            try:
                return json.loads(a[0])
            except ValueError as x:
                raise _Raised(f"`{short(n, 60)}` raises JSONDecodeError ({x})", etype="JSONDecodeError")

        def via(f_obj, meth, *args):
            if not isinstance(f_obj, _Stub) or meth not in f_obj.calls:
                raise CannotEval(f"json: not a file of the model ({meth})")
            return f_obj.calls[meth](list(args), {}, None)

        def path_ctor(a, k, n):
            if k or not all(isinstance(x, (str, _PathV)) for x in a):
                raise CannotEval(f"call {short(n, 60)}: path from something that is neither text nor a path")
            return _PathV(self, PurePosixPath(*[x.pp if isinstance(x, _PathV) else x for x in a]))

        path_calls = {"join": guarded(posixpath.join), "dirname": guarded(posixpath.dirname), "basename": guarded(posixpath.basename), "normpath": guarded(posixpath.normpath),
                      "split": guarded(posixpath.split), "splitext": guarded(posixpath.splitext), "exists": guarded(self.exists), "lexists": guarded(self.exists),
                      "isfile": guarded(lambda p_: self.norm(p_) in self.files), "isdir": guarded(lambda p_: self.norm(p_) in self.dirs)}
        library = {
            "os.path": lambda: _Stub(calls=path_calls),
            "os": lambda: _Stub(calls={"makedirs": guarded(lambda p_, mode=0o777, exist_ok=False: self.makedirs(p_, exist_ok)), "listdir": guarded(self.listdir)}, path=_Stub(calls=path_calls), sep="/"),
            "glob": lambda: _Stub(calls={"glob": guarded(lambda p_, recursive=False: self.glob(p_) if not recursive else _Machine._no(ast.Constant(value="glob(recursive=True)"))),
                                         "iglob": guarded(lambda p_: self.glob(p_)), "escape": guarded(_glob.escape), "has_magic": guarded(_glob.has_magic)}),
            "pathlib": lambda: _Stub(calls={c_: path_ctor for c_ in ("Path", "PurePath", "PosixPath", "PurePosixPath")}),
            "fnmatch": lambda: _Stub(calls={"fnmatch": guarded(fnmatch.fnmatchcase), "fnmatchcase": guarded(fnmatch.fnmatchcase), "filter": guarded(lambda xs, p_: [x for x in xs if fnmatch.fnmatchcase(x, p_)])}),
            "json": lambda: _Stub(calls={"dumps": dumps, "loads": loads, "dump": lambda a, k, n: via(a[1], "write", dumps(a[:1], k, n)) if len(a) == 2 else _Machine._no(n),
                                         "load": lambda a, k, n: loads([via(a[0], "read")], {}, n) if len(a) == 1 and not k else _Machine._no(n)}),
        }
        out = {}
        for nm, target in mod.imports.items():
            if target in library:
                out[nm] = library[target]()
            elif target in ("pathlib.Path", "pathlib.PurePath", "pathlib.PosixPath", "pathlib.PurePosixPath"):
                out[nm] = _Stub(calls={"__call__": path_ctor})
            elif target.startswith("esrally.") and depth < 2 and self.repo.exists(target.replace(".", "/") + ".py"):
                out[nm] = _Stub(calls=_LazyCalls(lambda rel=target.replace(".", "/") + ".py": self.package_module(rel, depth + 1)))
        return out

    def package_module(self, rel, depth):
        """name -> callable for the module-level functions of a module of the package: each call is RUN by a machine over the same model."""
        pm = self.repo.module(rel)
        fns = _module_functions(pm)
        names = self.names(pm, depth)

        def runner(fn):
            def f(a, k, n):
                self.consulted.add(rel)
                kind, val = _Machine(functions=fns, names=names, hooks=self.hooks()).run(fn, a, k)
                if kind == "raise":
                    raise _Raised(val)
                return val
            return f

        return {nm: runner(fn) for nm, fn in fns.items()}


# race ids: free text chosen by the user (--race-id). Ids that differ only in case or in a character that is special to glob / fnmatch / regular expressions are DIFFERENT races
_RACE_IDS = ["5f0e7d7a-6d1c-4f0c-8a53-2f3d1c1f7b42", "shards[1]", "shards[2]", "shards1", "shards2", "what-if?", "what-if2", "run*", "run-2024", "Nightly", "nightly", "a.b+c", "aXb+c", "(x|y)", "x"]
_ABSENT_RACE_IDS = ["never-stored", "shards[12]", "what-if*", "?", "Nightl[xy]", "run", "shards"]


def race_file_round_trip(chk, rid, repo, met, mfuncs):
    """The file race store is RUN (machine) on a model file system: races with representative user-chosen ids (wildcard characters among them) are stored one after the other, then
    every one of them is looked up by its id and all of them are listed. What is read back for an id must be the document that was written for exactly that id; an id that was never
    stored is reported as missing. How the path is built, where existence is tested and which helper reads the files is all the same to the rule."""
    FS = met.cls("FileRaceStore")
    methods = _mro_methods(met, FS)
    store_m, find_m, list_m, init_m = (methods.get(n_) for n_ in ("store_race", "find_by_race_id", "list", "__init__"))
    if store_m is None or find_m is None or list_m is None or init_m is None or len(params_of(store_m)) != 2 or len(params_of(find_m)) != 2 or len(params_of(list_m)) != 1:
        raise AnchorMissing("FileRaceStore.__init__ / store_race(self, race) / find_by_race_id(self, race_id) / list(self)")
    RC = met.cls("Race")
    if "from_dict" not in met.methods(RC) or "as_dict" not in met.methods(RC):
        raise AnchorMissing("Race.as_dict / Race.from_dict")
    fs = _FsModel(repo)
    settings = {("node", "root.dir"): "/rally", ("system", "env.name"): "env", ("system", "list.max_results"): 1000, ("system", "race.id"): None}

    def opts(a, k, node):
        b = dict(zip(("section", "key", "default_value", "mandatory"), a))
        b.update(k)
        if set(b) - {"section", "key", "default_value", "mandatory"} or "section" not in b or "key" not in b:
            raise CannotEval(f"call {short(node, 60)}: configuration lookup")
        v = settings.get((b["section"], b["key"]))
        if v is not None:
            return v
        if b.get("mandatory", True):
            raise _Raised(f"no value for the mandatory configuration {b['section']}/{b['key']} (ConfigError)", etype="ConfigError")
        return b.get("default_value")

    cfg = _Stub(calls={"opts": opts})
    # what Race.from_dict gives for a stored document (the agreement of as_dict / from_dict is O8.4): an object that carries the document and the attributes list filters / sorts by
    from_dict = lambda a, k, n: (Record(doc=a[0], race_id=a[0]["race-id"], results=a[0].get("results"), track=a[0].get("track"), challenge=a[0].get("challenge"), user_tags=a[0].get("user-tags", {}),
                                        race_timestamp=a[0]["race-timestamp"], environment_name=a[0].get("environment"), rally_version=a[0].get("rally-version"), pipeline=a[0].get("pipeline"),
                                        car=a[0].get("car")) if len(a) == 1 and not k and isinstance(a[0], dict) and "race-id" in a[0] and "race-timestamp" in a[0]
                                 else _Machine._no(n))
    names = dict(fs.names(met))
    names[RC.name] = _Stub(calls={"from_dict": from_dict})
    machine = lambda: _Machine(methods=methods, functions=mfuncs, names=names, hooks=fs.hooks())

    def doc_of(n, race_id):
        return {"rally-version": "2.11.0", "environment": "env", "race-id": race_id, "race-timestamp": f"20240517T10{n:02d}00Z", "pipeline": "benchmark-only", "user-tags": {}, "track": "tr",
                "car": ["c"], "results": {"op_metrics": [{"task": "t", "operation": "o", "throughput": {"mean": 100.0 * n, "unit": "ops/s"}, "latency": {"50_0": 1.5 * n, "100_0": 9.0 * n},
                                                          "error_rate": 0.125 / n}], "total_time": 5000 * n, "segment_count": n}}

    store = Record()
    stored = {}
    try:
        k0, v0 = machine().run(init_m, [cfg], recv=store)
        if k0 != "return":
            chk.unknown(rid, f"FileRaceStore.__init__ does not complete with a representative configuration: {v0}"[:300], init_m)
            return
        for n, race_id in enumerate(_RACE_IDS, start=1):
            settings[("system", "race.id")] = race_id  # the store writes the race file of the current race (as `esrally race` does: race.race_id is the configured race id)
            doc = doc_of(n, race_id)
            before = dict(fs.files)
            k1, v1 = machine().run(store_m, [_Stub(calls={"as_dict": lambda a, k, n_, doc=doc: json.loads(json.dumps(doc))}, race_id=race_id, race_timestamp=doc["race-timestamp"])], recv=store)
            if k1 != "return":
                chk.unknown(rid, f"FileRaceStore.store_race does not complete on the model file system for the race id {race_id!r}: {v1}"[:300], store_m)
                return
            stored[race_id] = doc
            changed = [p_ for p_ in fs.files if fs.files[p_] != before.get(p_)]
            if len(changed) != 1:
                chk.unknown(rid, f"FileRaceStore.store_race({race_id!r}) writes {len(changed)} file(s) of the model file system (expected the one race file)", store_m)
                return
        settings[("system", "race.id")] = "the-invocation-that-reads"  # compare / list run as a later invocation with a race id of its own
        found = {r_: machine().run(find_m, [r_], recv=store) for r_ in _RACE_IDS + _ABSENT_RACE_IDS}
        kl, listed = machine().run(list_m, [], recv=store)
    except (CannotEval, _Unsup) as x:
        chk.unknown(rid, f"the file race store is not evaluable on the model file system: {x}"[:300], find_m)
        return
    finally:
        chk.use(*sorted(fs.consulted))
    held = lambda v: v.fields.get("doc") if isinstance(v, Record) and isinstance(v.fields.get("doc"), dict) else None
    wrong = []
    for r_ in _RACE_IDS:
        kind, val = found[r_]
        if kind != "return":
            wrong.append(f"find_by_race_id({r_!r}) -> {val} although a race was stored under that id")
        elif held(val) != stored[r_]:
            wrong.append(f"find_by_race_id({r_!r}) returns " + (f"the race stored under {held(val).get('race-id')!r} (its results, not those of {r_!r})" if held(val) is not None else f"{short_repr(val)}"))
    chk.ob(rid, "FileRaceStore.find_by_race_id(id) reads back the race (and the results) stored under exactly that id, for every user-chosen id", not wrong, find_m,
           (f"{len(wrong)} of {len(_RACE_IDS)} stored races: " + "; ".join(wrong[:3]))[:420] if wrong else "", key=f"{_M}:FileRaceStore.find_by_race_id:own-race")
    ghosts = [f"find_by_race_id({r_!r}) returns the race stored under {(held(found[r_][1]) or {}).get('race-id')!r}" for r_ in _ABSENT_RACE_IDS if found[r_][0] == "return"]
    chk.ob(rid, "FileRaceStore.find_by_race_id(id) reports an id that was never stored as missing (no other race is returned for it)", not ghosts, find_m,
           (f"stored ids {_RACE_IDS[1:8]}...: " + "; ".join(ghosts[:3]))[:420] if ghosts else "", key=f"{_M}:FileRaceStore.find_by_race_id:missing")
    if kl != "return" or not isinstance(listed, (list, tuple)):
        chk.ob(rid, "FileRaceStore.list() reads back every stored race with its own results", False, list_m, f"{kl} {short_repr(listed, 200)}", key=f"{_M}:FileRaceStore.list:all-races")
    else:
        got = [held(v) for v in listed]
        missing = [r_ for r_ in _RACE_IDS if stored[r_] not in got]
        alien = [d for d in got if d is None or d not in stored.values()]
        ok = not missing and not alien and len(got) == len(stored)
        chk.ob(rid, "FileRaceStore.list() reads back every stored race with its own results", ok, list_m,
               "" if ok else f"{len(got)} race(s) listed of {len(stored)} stored; not listed (or with other results): {missing[:4]}" + (f"; listed but never stored: {short_repr(alien[0], 100)}" if alien else ""),
               key=f"{_M}:FileRaceStore.list:all-races")


class _Opaque(_Stub):
    """a value of the environment that has no bearing on the property (a stop watch, the console, the reporter): a call on it gives another such value; a DECISION on it or one of its
    attributes is not evaluable (the verdict is then 'not recognised')."""

    class _Any(dict):
        def __contains__(self, k):
            return True

        def __getitem__(self, k):
            return lambda a, k_, n: _Opaque()

        def get(self, k, default=None):
            return self[k]

    def __init__(self):
        super().__init__()
        self.calls = _Opaque._Any()

    def __bool__(self):
        raise CannotEval("a decision on a value of the environment the model does not follow")


def _literal_attrs(mod, classes, method_names):
    """attribute -> initial value over the named methods of the classes (farthest base first, in statement order): a literal initialiser gives its value, anything else a marker."""
    out = {}
    for k in reversed(classes):
        for nm in method_names:
            f = mod.methods(k).get(nm)
            for n in walk_body(f) if f is not None else []:
                if isinstance(n, ast.Assign) and is_self_attr(n.targets[0]):
                    try:
                        out[n.targets[0].attr] = ast.literal_eval(n.value)
                    except (ValueError, TypeError, SyntaxError, MemoryError, RecursionError):
                        out[n.targets[0].attr] = f"<{n.targets[0].attr}>"
    return out


def coordinator_results(chk, rid, repo, met, mfuncs):
    """The coordinator's end-of-benchmark routine is RUN (machine) against an Elasticsearch metrics store whose methods are run over a stand-in client that models VISIBILITY (a record is
    searchable once it was bulk-indexed AND the index was refreshed afterwards), a race object that runs Race.add_results, and stand-ins for the race store / results store that note
    what the race carries when it is handed to them. The load driver's samples are in the index (the last ones not yet refreshed: the driver flushes with refresh=False), the
    coordinator receives the final samples as a memento. Observed: what is searchable when the results are calculated, and which results the race carries when it is stored last."""
    rel = "esrally/racecontrol.py"
    if not repo.exists(rel):
        raise AnchorMissing(rel)
    rc = repo.module(rel)
    chk.use(rc)
    es_cls = met.get("EsMetricsStore", required=False)
    race_cls = met.get("Race", required=False)
    if not isinstance(es_cls, ast.ClassDef) or not isinstance(race_cls, ast.ClassDef) or "add_results" not in met.methods(race_cls):
        raise AnchorMissing("EsMetricsStore / Race.add_results")
    by_new = lambda pred: {n for n, f in mfuncs.items() if any(isinstance(c.func, ast.Name) and pred(c.func.id) for c in source.calls_in(f))}
    has_method = lambda cname, m: isinstance(met.get(cname, required=False), ast.ClassDef) and m in _mro_methods(met, met.get(cname, required=False))
    calc_fns = by_new(lambda c: c == "GlobalStatsCalculator")                    # role: the functions that run the results calculator
    rstore_fns = by_new(lambda c: has_method(c, "store_results"))               # role: factories of a results store
    racestore_fns = by_new(lambda c: has_method(c, "store_race")) - rstore_fns  # role: factories of a race store
    if not calc_fns:
        raise AnchorMissing("the function of esrally/metrics.py that runs GlobalStatsCalculator (calculate_results)")
    aliases = {nm for nm, t in rc.imports.items() if t == "esrally.metrics"}
    direct = {nm: t.rsplit(".", 1)[1] for nm, t in rc.imports.items() if t.startswith("esrally.metrics.")}

    def metrics_fn(c):
        """name of the function of esrally.metrics this call of racecontrol.py invokes (None: something else)."""
        if isinstance(c.func, ast.Attribute) and isinstance(c.func.value, ast.Name) and c.func.value.id in aliases:
            return c.func.attr
        if isinstance(c.func, ast.Name) and c.func.id in direct:
            return direct[c.func.id]
        return None

    sites = []
    for cls in [n for n in rc.tree.body if isinstance(n, ast.ClassDef)]:
        ms = rc.methods(cls)
        for nm, f in ms.items():
            for c in source.calls_in(f):
                if metrics_fn(c) in calc_fns:
                    sites.append((cls, ms, nm, c))
    if not sites:
        raise AnchorMissing("the method of esrally/racecontrol.py that calculates the results of the race (metrics.calculate_results(...))")
    for cls, ms, holder, site in sites:
        where = f"{cls.name}.{holder}"
        a0 = site.args[0] if site.args else None
        a1 = site.args[1] if len(site.args) > 1 else None
        # by role: the attributes of the coordinator holding the metrics store / the race / the race store are the ones handed to the calculation, else the ones assigned from the
        # factory functions of esrally.metrics (a function that instantiates a class with bulk_add / the Race class / a class with store_race)
        from_factory = lambda fns: {n.targets[0].attr for f in ms.values() for n in walk_body(f) if isinstance(n, ast.Assign) and is_self_attr(n.targets[0]) and isinstance(n.value, ast.Call)
                                    and metrics_fn(n.value) in fns}
        store_attrs = {a0.attr} if is_self_attr(a0) else (from_factory(by_new(lambda c: has_method(c, "bulk_add"))) or
                                                          {c.func.value.attr for f in ms.values() for c in source.calls_in(f) if isinstance(c.func, ast.Attribute) and c.func.attr == "bulk_add"
                                                           and is_self_attr(c.func.value)})  # (else: the attribute the coordinator bulk-adds the samples to)
        race_attrs = {a1.attr} if is_self_attr(a1) else from_factory(by_new(lambda c: c == race_cls.name))
        racestore_attrs = from_factory(racestore_fns)
        if len(store_attrs) != 1 or len(race_attrs) != 1 or len(racestore_attrs) != 1:
            chk.unknown(rid, f"{where}: the attributes of {cls.name} holding the metrics store / the race / the race store are not located ({sorted(store_attrs)} / {sorted(race_attrs)} / "
                        f"{sorted(racestore_attrs)}; `{short(site, 80)}`)", site)
            continue
        store_attr, race_attr = next(iter(store_attrs)), next(iter(race_attrs))
        # entry points: the methods of the class that reach the calculation and that no other method of the class calls (a helper extracted from the routine belongs to its caller)
        reach = {nm: [g.name for g in _reachable(ms, f)] for nm, f in ms.items()}
        reaching = [nm for nm in ms if holder in reach[nm]]
        roots = [nm for nm in reaching if not any(nm in reach[o] for o in reaching if o != nm)]
        for root in roots:
            _coordinator_run(chk, rid, rc, met, mfuncs, cls, ms, root, store_attr, race_attr, next(iter(racestore_attrs)), calc_fns, rstore_fns, aliases, direct, es_cls, race_cls, site)


def _coordinator_run(chk, rid, rc, met, mfuncs, cls, ms, root, store_attr, race_attr, racestore_attr, calc_fns, rstore_fns, aliases, direct, es_cls, race_cls, site):
    where = f"{cls.name}.{root}"
    fd = ms[root]
    key = f"esrally/racecontrol.py:{cls.name}.{root}"
    d_seen, d_unseen, d_new = ({"name": "service_time", "value": v_, "n": i_} for i_, v_ in enumerate((1.0, 2.0, 3.0)))
    written = [d_seen, d_unseen, d_new]
    index = {"indexed": [d_seen, d_unseen], "visible": [d_seen]}  # the driver's last samples are indexed but not yet refreshed (it flushes with refresh=False)
    memento, raw = b"<memento>", b"<pickled records>"

    def bulk_index(a, k, n):
        b = dict(zip(("index", "items"), a))
        b.update(k)
        if set(b) - {"index", "items"} or not isinstance(b.get("items"), list):
            raise CannotEval(f"call {short(n, 60)}: bulk request of the stand-in client")
        index["indexed"] = index["indexed"] + list(b["items"])

    def refresh(a, k, n):
        index["visible"] = list(index["indexed"])

    # the Elasticsearch metrics store: its own methods, run over the stand-in client
    es_methods = _mro_methods(met, es_cls)
    client_attr = _EsRuns(met, es_cls, mfuncs, None).client_attr
    es_fields = _literal_attrs(met, _mro_classes(met, es_cls), ("__init__", "open"))
    es_fields.update({client_attr: _Stub(calls={"bulk_index": bulk_index, "refresh": refresh}), "logger": None})
    es_obj = Record(**es_fields)
    es_names = {}
    for nm, t in met.imports.items():
        es_names[nm] = (_Stub(calls={"loads": lambda a, k, n: [d_new] if len(a) == 1 and not k and a[0] is raw else _Machine._no(n)}) if t == "pickle" else
                        _Stub(calls={"decompress": lambda a, k, n: raw if len(a) == 1 and not k and a[0] is memento else _Machine._no(n)}) if t == "zlib" else _Opaque())
    for c_ in met.tree.body:
        if isinstance(c_, ast.ClassDef) and any((last_attr(b) or "").endswith("Enum") for b in c_.bases):
            try:
                es_names[c_.name] = _enum_members(met, c_.name)
            except AnchorMissing:
                pass

    def es_call(fn):
        def f(a, k, n):
            kind, val = _Machine(methods=es_methods, functions=mfuncs, names=es_names).run(fn, a, k, recv=es_obj)
            if kind == "raise":
                raise _Raised(val)
            return val
        return f

    store = _Stub(calls={nm: es_call(fn) for nm, fn in es_methods.items()})
    race = Record(**_literal_attrs(met, _mro_classes(met, race_cls), ("__init__",)))
    race.fields["results"] = {}
    race.fields["add_results"] = _Closure(met.methods(race_cls)["add_results"], {}, recv=race)
    results = Record(marker="the results calculated for this race")
    calcs, stored, flat = [], [], []

    def calc(fn):
        def f(a, k, n):
            b = _Machine().bind(mfuncs[fn], a, k)
            ps_ = params_of(mfuncs[fn])
            calcs.append({"own_store": bool(ps_) and b.get(ps_[0]) is store, "missing": [d for d in written if not any(d is v for v in index["visible"])]})
            return results
        return f

    note = lambda log: (lambda a, k, n: log.append(a[0].fields.get("results") if len(a) == 1 and not k and a[0] is race else _Machine._no(n)))
    mcalls = {fn: calc(fn) for fn in calc_fns}
    mcalls.update({fn: (lambda a, k, n: _Stub(calls={"store_results": note(flat)})) for fn in rstore_fns})
    names = {nm: _Opaque() for nm in rc.imports}
    names.update({nm: _Stub(calls=mcalls) for nm in aliases})
    names.update({nm: _Stub(calls={"__call__": mcalls[fn]}) for nm, fn in direct.items() if fn in mcalls})
    fields = _literal_attrs(rc, [cls], ("__init__",))
    fields.update({store_attr: store, race_attr: race, racestore_attr: _Stub(calls={"store_race": note(stored)}), "logger": None})
    coord = Record(**fields)
    params = [p_ for p_ in params_of(fd) if p_ not in ("self", "cls")]
    try:
        kind, val = _Machine(methods=ms, functions=_module_functions(rc), names=names).run(fd, [memento] * len(params), recv=coord)
    except (CannotEval, _Unsup) as x:
        chk.unknown(rid, f"{where} is not evaluable against the model of the metrics store / race store: {x}"[:300], fd)
        return
    if kind != "return" or not calcs:
        chk.unknown(rid, f"{where} does not reach the results calculation on a completed (not cancelled, no error) benchmark: {kind} {short_repr(val)}"[:300], fd)
        return
    if not all(c_["own_store"] for c_ in calcs):
        chk.unknown(rid, f"{where}: the results are calculated from something other than the coordinator's metrics store", site)
        return
    miss = [d for c_ in calcs for d in c_["missing"]]
    what = {0: "a sample the load driver indexed without a refresh", 1: "a sample the load driver indexed without a refresh", 2: "a sample of the final bulk the coordinator added"}
    chk.ob(rid, f"{where}: every sample written to the Elasticsearch metrics store (by the load driver without a refresh, by the coordinator's final bulk) is indexed and refreshed - "
           "searchable - when the results are calculated", not miss, site,
           "" if not miss else f"when `{short(site, 70)}` runs, {len({d['n'] for d in miss})} of {len(written)} written samples are not searchable ({'; '.join(sorted({what[d['n']] for d in miss}))}): "
           "the statistics describe a subset of the samples", key=f"{key}:searchable-before-results")
    ok = bool(stored) and stored[-1] is results
    chk.ob(rid, f"{where}: the race handed to the race store last (race.json, read back by compare / list) carries the results calculated for it", ok, site,
           "" if ok else ("the race is not stored after its results were calculated" if not stored else
                          f"store_race receives a race whose results are {short_repr(stored[-1], 60)} (the calculated results are attached later or never)"), key=f"{key}:race-stored-with-results")
    if flat:
        ok2 = all(r_ is results for r_ in flat)
        chk.ob(rid, f"{where}: the race handed to the results store carries the results calculated for it", ok2, site,
               "" if ok2 else f"store_results receives a race whose results are {short_repr(next(r_ for r_ in flat if r_ is not results), 60)}", key=f"{key}:results-stored-with-results")


def run(chk):
    repo = chk.repo
    met = repo.module(_M)
    chk.use(met, "docs/summary_report.rst", "docs/metrics.rst")
    chk.explanation = (
        "Decides result assembly mostly ON VALUES: a small abstract machine (rules/C08.py: _Machine) walks the AST of the anchored methods and runs them on representative inputs (no "
        "repository code is imported or called), so helper extraction, hoisted locals, guard clauses, comprehension / loop / table forms are the same computation. WHAT computes each key "
        "of the per-task record is taken by role, not by name: add_op_metrics run with markers maps record key -> parameter, the argument bound to it at the calculator's call (in the main "
        "routine or a helper extracted from its loop; locals replaced by their definitions) is the key's feed, and each feed is evaluated for a representative task against a stand-in "
        "store that records every query bound to the MetricsStore API: each request-metric query passes the Normal sample type, the task and the operation type, asks for the metric of "
        "the key's name and for the statistic the key stands for, and the percentile set requested is the one the NORMAL sample count selects (selector, key encoder and the in-memory "
        "percentile function are likewise located by the values that flow through them); the percentile selector run on 15 boundary counts is a total, monotone function "
        "of the count only (ends with 100, contains 50 for counts > 1), the key encoder is injective over the percentile table; the in-memory store's get_error_rate / get_stats / "
        "get_percentiles / get_mean / get_median run on representative records (all combinations of metric / task / operation type / sample type, a 0.0 among the values) equal failed/all, "
        "count/min/max/mean, the documented linear interpolation (also proven as a formula identity where the shape is recognised) and the 50th percentile of exactly the records the request "
        "selects; the results class round-trips a dictionary of markers through __init__ / as_dict, add_op_metrics stores each parameter under its key and the calculator feeds each key "
        "from the method and metric of that meaning; tasks() / metrics() agree on the record key; Race.as_dict / from_dict key and parameter agreement; a statistic of 0 survives the "
        "summary (known finding F11); per-shard statistics on 8 representative sets of per-shard arrays return, with min/median/max of all values or without numbers (F34). A role that "
        "cannot be located or a shape the machine does not interpret is reported as 'not recognised', never as a falsified obligation."
    )
    chk.explanation += (
        " The Elasticsearch metrics store is RUN against a stand-in for the Elasticsearch client that evaluates every search request it receives (bool / term filters, sort, size, terms / "
        "stats / percentiles aggregations) on representative stored records of two races: each query of the MetricsStore API selects exactly the records of the request and hands back "
        "the statistic of the selected records (O8.11). The race file store is RUN on a model file system (open / os / os.path / glob / fnmatch / json modelled, esrally.paths and "
        "esrally.utils.io interpreted over the model): races stored under representative user-chosen ids (wildcard characters, upper / lower case) are each read back by find_by_race_id "
        "and by list with the document written for exactly that id (O8.12)."
    )
    chk.not_decided = ("floating-point behaviour of the interpolation, how Elasticsearch approximates percentiles (and any query clause other than bool / term / terms), loss-freeness of JSON "
                       "number round-trips, file systems that fold case.")
    GC = met.cls("GlobalStatsCalculator")
    gm = met.methods(GC)
    GS = met.cls("GlobalStats")
    gsm = met.methods(GS)
    IM = met.cls("InMemoryMetricsStore")
    im = met.methods(IM)

    # ---- O8.1 normal-only -----------------------------------------------------------------------------------------------------------------
    chk.rule("O8.1", "every statistics query issued by the results calculator for request metrics passes the Normal sample type and filters by task and operation type; the sample size that "
             "selects the percentile set comes from a Normal-filtered query", 9,
             "any task with warm-up (warm-up samples enter the results / the percentile set) or a composite task (sub-request records of another operation type enter the error rate)")
    # decided on values: each per-task method is RUN (machine) against a stand-in store that records every query bound to the parameters of the MetricsStore API; what matters is what
    # REACHES the store (sample type, task, operation type), not how the call is spelt, which local holds the value or which helper issues the query
    mfuncs = _module_functions(met)
    enum = _enum_members(met, "SampleType")
    calc = _CalcRuns(met, GC, met.cls("MetricsStore"), mfuncs, enum)
    call = gm.get("__call__")
    if call is None:
        raise AnchorMissing("GlobalStatsCalculator.__call__")
    T_, OT_, T2_, OT2_ = "task-T", "optype-OT", "task-U", "optype-OU"

    def task_rec(n, t):
        """a representative task of the schedule as the calculator reads it."""
        return Record(name=n, operation=Record(type=t, name="op-of-" + n, meta_data=None, include_in_reporting=True), meta_data=None)

    # by role AND on values: WHAT computes the per-task statistics is read off the data flow into the per-task record. add_op_metrics is run with markers (record key -> parameter);
    # the argument bound to that parameter at the calculator's call, with the locals that hold it replaced by their definitions, is the FEED of the key: an expression over `self` and
    # the task at hand (self.<method>(task.name, ...), whatever the method is called, whatever it is passed - names, the task object -, or a store query written in place). Each feed
    # is EVALUATED (machine) for a representative task against the stand-in store that records every query bound to the MetricsStore API; what matters is what REACHES the store
    # (metric, sample type, task, operation type). The feed of `throughput` has the summary role, those of `latency` / `service_time` / `processing_time` the percentile role, that of
    # `error_rate` the error-rate role; keys of findings carry the ROLE label, the texts the actual method name. Only where a feed cannot be read / evaluated the method of the
    # conventional name is run with arguments derived from the roles of its parameters at its call sites.
    ginit, ao = gsm.get("__init__"), gsm.get("add_op_metrics")
    if ginit is None or ao is None or len(params_of(ginit)) != 2:
        raise AnchorMissing("GlobalStats.__init__(self, d) / GlobalStats.add_op_metrics")
    gs_methods = _mro_methods(met, GS)
    oprec = _op_record_params(gs_methods, mfuncs, ginit, ao)
    ptf, aoc0, cdefs, tv = _per_task_scope(gm, ao, oprec[1] if oprec[0] == "ok" else None, call)
    if ptf is None:
        ptf, cdefs = call, local_defs(call)
    feeds = {}
    if aoc0 is not None and oprec[0] == "ok":
        b0 = bind_args(aoc0, ao)
        feeds = {k: source.inline_node(b0[oprec[1][k]], cdefs) for k in OP_KEYS if oprec[1].get(k) is not None and b0.get(oprec[1][k]) is not None}
    # a call that spreads its arguments (*args / **kwargs) does not show which argument reaches which parameter
    opaque_call = aoc0 is not None and (any(isinstance(a_, ast.Starred) for a_ in aoc0.args) or any(k_.arg is None for k_ in aoc0.keywords))
    located = lambda n_: n_ if getattr(n_, "_module", None) is not None else (aoc0 if aoc0 is not None else ptf)  # a node of an inlined feed has no position of its own

    def per_task_kwargs(f, metric, need_operation_type=True):
        """arguments for one per-task method by the roles of its parameters (what its call sites pass) | a message why they are not derivable."""
        proles = _param_roles(ptf, f, cdefs, tv)
        dflt = set(params_of(f)[len(params_of(f)) - len(f.args.defaults):]) if f.args.defaults else set()
        kwargs, unresolved = {}, []
        for p_ in params_of(f)[1:]:
            r = proles.get(p_)
            if r in ("task", "operation_type", "metric"):
                kwargs[p_] = {"task": T_, "operation_type": OT_, "metric": metric or "service_time"}[r]
            elif p_ not in dflt:
                unresolved.append(p_)
        if unresolved or "task" not in proles.values() or (need_operation_type and "operation_type" not in proles.values()):
            return f"{f.name}: which parameter takes the task name / the operation type is not derivable from the calls in {ptf.name} (parameters {unresolved or params_of(f)[1:]})"
        return kwargs

    def evaluate(g):
        """runs every feed of the group with and without samples; a shape the machine does not interpret is recorded as the group's `error` (not recognised)."""
        try:
            g["std"] = {k: r_(calc.standard_answer()) for k, r_ in g["runners"].items()}
            g["empty"] = {k: r_(calc.standard_answer(empty=True)) for k, r_ in g["runners"].items()}
        except (CannotEval, _Unsup) as x:
            g.pop("std", None)
            g["error"] = f"{g['name']} is not evaluable against the stand-in store: {x}"
        return g

    def by_name_group(role, metric):
        """the method of the conventional name, run with arguments by parameter role."""
        f_ = gm.get(role)
        if f_ is None:
            return None
        g = {"id": (role, f_.name), "role": role, "f": f_, "name": f_.name, "label": role, "runners": {}}
        kw = per_task_kwargs(f_, metric)
        if isinstance(kw, str):
            g["error"] = kw
            return g
        g["runners"][metric or role] = lambda answer, alt=False, f_=f_, kw=kw: calc.run(f_, [], {p_: ({T_: T2_, OT_: OT2_}.get(v, v) if alt and isinstance(v, str) else v) for p_, v in kw.items()}, answer=answer)
        return evaluate(g)

    groups, by_key = [], {}
    for k, (role, _q, _metric) in OP_FEEDS.items():
        if k not in feeds or tv is None:
            continue
        f_ = _feeding_method(feeds[k], gm)
        gid = (role, f_.name if f_ is not None else None)
        g = next((g_ for g_ in groups if g_["id"] == gid), None)
        if g is None:
            first = not any(g_["role"] == role for g_ in groups)
            g = {"id": gid, "role": role, "f": f_, "name": f_.name if f_ is not None else f"{ptf.name} (the value stored under '{k}')", "label": role if first else f"{role}[{gid[1] or k}]", "runners": {}}
            groups.append(g)
        g["runners"][k] = lambda answer, alt=False, e=feeds[k]: calc.eval(e, {tv: task_rec(T2_, OT2_) if alt else task_rec(T_, OT_)}, answer)
        by_key[k] = g
    for g in groups:
        evaluate(g)
    for role, metric in (("summary_stats", "throughput"), ("single_latency", "service_time"), ("error_rate", None)):
        mine = [g for g in groups if g["role"] == role]
        if not any("std" in g for g in mine):
            g = by_name_group(role, metric)
            if g is None and not mine:
                raise AnchorMissing(f"GlobalStatsCalculator.{role} (nothing readable feeds the per-task record key(s) of that role, and there is no method of that name)")
            if g is not None and ("std" in g or not mine):
                groups = [g_ for g_ in groups if g_["role"] != role] + [g]  # (the keys of the unreadable feeds stay 'not recognised' in O8.3)
    label_of = {}
    for g in groups:
        if g["f"] is not None:
            label_of.setdefault(g["f"].name, g["label"])
    role_groups = lambda role: [g for g in groups if g["role"] == role]

    for g in [g_ for role in ("summary_stats", "single_latency", "error_rate") for g_ in role_groups(role)]:
        mname, label, gsite = g["name"], g["label"], g["f"] if g["f"] is not None else located(None)
        if "error" in g:
            chk.unknown("O8.1", g["error"], gsite)
            continue
        raising = [r_ for r_ in g["std"].values() if r_[0] == "raise"]
        if raising:
            chk.unknown("O8.1", f"{mname} raises against the stand-in store: {raising[0][1]}", gsite)
            g["error"] = f"{mname} raises against the stand-in store: {raising[0][1]}"
            continue
        seen_q = {}
        for kind, val, calls in list(g["std"].values()) + list(g["empty"].values()):
            for q, r, node in calls:
                if q in REQUEST_QUERIES:
                    seen_q.setdefault(q, []).append((r, located(node)))
        if not seen_q:
            chk.unknown("O8.1", f"{mname}: no request-metric query reaches the store", gsite)
        for q, lst in seen_q.items():
            bad = [(r, n_) for r, n_ in lst if r.get("sample_type") is not calc.normal]
            st_txt = lambda v: "not passed / None (all sample types)" if v is None else f"SampleType.{v.fields['name']}" if isinstance(v, _Member) else repr(v)
            chk.ob("O8.1", f"{mname}: {q}(...) passes the Normal sample type", not bad, (bad or lst)[0][1], f"sample_type={st_txt((bad or lst)[0][0].get('sample_type'))}",
                   key=f"{_M}:GlobalStatsCalculator.{label}:{q}:normal")
            bad = [(r, n_) for r, n_ in lst if r.get("task") != T_ or r.get("operation_type") != OT_]
            r0 = (bad or lst)[0][0]
            chk.ob("O8.1", f"{mname}: {q}(...) filters by task and operation type", not bad, (bad or lst)[0][1],
                   f"task={'the task' if r0.get('task') == T_ else repr(r0.get('task'))} operation_type={'the operation type' if r0.get('operation_type') == OT_ else repr(r0.get('operation_type')) + ' (not passed?)'}",
                   key=f"{_M}:GlobalStatsCalculator.{label}:{q}:filters")
    # by role: the percentile selector / the percentile key encoder are the module-level functions whose values reach the store's percentile query / the keys of the per-task
    # percentile record (decided on the recorded run); the functions of the conventional names only where that is not readable
    ps = enc = None
    pct_groups = [g for g in role_groups("single_latency") if "std" in g and "error" not in g]
    for g in pct_groups:
        if ps is None or enc is None:
            ps_r, enc_r = _selector_and_encoder(met, mfuncs, calc.methods, g["f"] if g["f"] is not None else ptf, list(g["std"].values())[0])
            ps, enc = ps or ps_r, enc or enc_r
    ps = ps or met.func("percentiles_for_sample_size")
    enc = enc or met.func("encode_float_key")
    sel = None
    if pct_groups:
        try:
            sel = {n_: _Machine(functions=mfuncs, names=_selector_reads(met, ps, mfuncs)[0]).run(ps, [n_]) for n_ in (_NORMAL_COUNT, _OTHER_COUNT)}
        except (CannotEval, _Unsup) as x:
            chk.unknown("O8.1", f"percentile selector not evaluable: {x}", ps)
    for g in pct_groups if sel is not None else []:
        gsite = g["f"] if g["f"] is not None else located(None)
        asked = [(r.get("percentiles"), located(n_)) for run_ in g["std"].values() for q, r, n_ in run_[2] if q == "get_percentiles"]
        if not asked or sel[_NORMAL_COUNT][0] != "return":
            chk.unknown("O8.1", f"{g['name']}: no percentile query reaches the store for a task with normal samples (the percentile set cannot be compared)", gsite)
        else:
            want = list(sel[_NORMAL_COUNT][1])
            bad = [(pl, n_) for pl, n_ in asked if pl is None or list(pl) != want]
            no_samples = [r_ for r_ in g["empty"].values() if r_[0] != "return"]
            ok = not bad and not no_samples
            detail = f"{_NORMAL_COUNT} normal samples (of {_OTHER_COUNT} samples of all types): percentiles requested {list(asked[0][0]) if asked[0][0] is not None else None}"
            if bad:
                detail = (f"the store reports {_NORMAL_COUNT} normal samples and {_OTHER_COUNT} samples of all types: requested {list(bad[0][0]) if bad[0][0] is not None else 'the default set'}, "
                          f"the normal count selects {want}")
            elif no_samples:
                detail = f"a task without normal samples: {no_samples[0][1]}"
            chk.ob("O8.1", "percentile set selected by the NORMAL sample count", ok, (bad or asked)[0][1], detail, key=f"{_M}:GlobalStatsCalculator.{g['label']}:percentile-set")
    # the error rate is requested for the task AT HAND, decided on values: evaluated for a second task the query follows that task's name and operation type
    eg = [g for g in role_groups("error_rate") if "std" in g and "error" not in g]
    if not eg:
        chk.unknown("O8.1", "how the error rate of the per-task record is computed is not evaluable (see above): whether it is requested for the task at hand is not decided", ptf)
    else:
        g = eg[0]
        erc = [c for c in source.calls_in(ptf) if g["f"] is not None and isinstance(c.func, ast.Attribute) and is_self_attr(c.func, g["f"].name)]
        try:
            alt = [r_(calc.standard_answer(), True) for r_ in g["runners"].values()]
            qs = [r for _k, _v, calls in alt for q, r, _n in calls if q == "get_error_rate"]
            if not qs:
                chk.unknown("O8.1", f"{g['name']}: no error-rate query reaches the store for a second task", erc[0] if erc else located(None))
            else:
                bad = [r for r in qs if r.get("task") != T2_ or r.get("operation_type") != OT2_]
                txt = short(feeds["error_rate"], 90) if "error_rate" in feeds else f"self.{g['name']}(...)"
                chk.ob("O8.1", "error rate requested for (task name, operation type)", not bad, erc[0] if erc else located(None),
                       f"{txt}: for a task named {T2_!r} of operation type {OT2_!r} the store is asked for task={(bad or qs)[0].get('task')!r}, operation_type={(bad or qs)[0].get('operation_type')!r}",
                       key=f"{_M}:GlobalStatsCalculator.__call__:error_rate-arguments")
        except (CannotEval, _Unsup) as x:
            chk.unknown("O8.1", f"{g['name']} is not evaluable for a second task: {x}", erc[0] if erc else located(None))

    # ---- O8.2 percentile selector ------------------------------------------------------------------------------------------------------------------
    chk.rule("O8.2", "the percentile set is a function of the count only: total over [1, inf) (15 boundary counts), every list ends with 100 and contains 50 for counts > 1, sets grow monotonically; count < 1 raises", 17,
             "a sample count at a threshold (10, 100, ...) gets no / the wrong percentile set")
    if len(params_of(ps)) != 1:
        raise AnchorMissing("percentiles_for_sample_size(<count>)")
    p0 = params_of(ps)[0]
    mfuncs = _module_functions(met)
    # by data flow: every value the selector (and the module-level helpers it calls) reads is its parameter, a local, a builtin, a pure library function or a module-level literal
    # constant; a read of module state that is re-bound somewhere is a dependence on something other than the count
    consts, state, undecided = _selector_reads(met, ps, mfuncs)
    if undecided:
        chk.unknown("O8.2", f"selector reads module-level name(s) whose value is not a literal: {sorted(undecided)}", ps)
    else:
        chk.ob("O8.2", "reads nothing but its parameter", not state, ps, f"reads mutable module state: {sorted(state)}" if state else "", key=f"{_M}:percentiles_for_sample_size:reads")
    prev = None
    seen_lists = []
    for cnt in [0] + COUNTS:
        # decided on values: the selector is RUN on the count (if-chain, table scanned in a loop, bisect, helper function: all the same to the machine)
        try:
            kind, val = _Machine(functions=mfuncs, names=consts).run(ps, [cnt])
        except (_Unsup, CannotEval, Unsupported, UnknownAtom) as e:
            chk.unknown("O8.2", f"selector is not evaluable on the count {cnt}: {e}", ps)
            break
        if cnt < 1:
            chk.ob("O8.2", "count < 1 raises", kind == "raise", ps, f"{kind} {val!r}"[:160])
            continue
        ok = kind == "return" and isinstance(val, (list, tuple)) and len(val) > 0 and all(isinstance(e_, _NUM) and not isinstance(e_, bool) for e_ in val)
        vals = list(val) if ok else None
        good = ok and vals[-1] == 100 and vals == sorted(vals) and (cnt == 1 or 50 in vals) and (prev is None or set(prev) <= set(vals))
        chk.ob("O8.2", f"count {cnt} -> {vals}", bool(good), ps, "" if good else f"{kind} {val!r}: missing / not ending with 100 / lacks 50 / not monotone"[:200], key=f"{_M}:percentiles_for_sample_size:{cnt}")
        prev = vals if ok else prev
        if ok:
            seen_lists.append(vals)

    # the key under which a percentile is stored and looked up must tell the percentiles apart (writer and both reporters use the same encoder)
    allp = sorted({v for vs in seen_lists for v in vs}) if seen_lists else []
    if len(params_of(enc)) == 1 and allp:
        try:
            econsts, _estate, _eund = _selector_reads(met, enc, mfuncs)
            runs = {p_: _Machine(functions=mfuncs, names=econsts).run(enc, [p_]) for p_ in allp}
            raising = {p_: r[1] for p_, r in runs.items() if r[0] == "raise"}
            keys = {p_: r[1] for p_, r in runs.items() if r[0] == "return"}
            inj = not raising and len(set(keys.values())) == len(allp) and all(isinstance(k_, str) and "." not in k_ for k_ in keys.values())
            clash = sorted(p_ for p_ in keys if list(keys.values()).count(keys[p_]) > 1)
            chk.ob("O8.2", "percentile keys are distinct (and dot-free) over the whole percentile table", inj, enc,
                   f"{keys}" + ("" if inj else (f" — raises for {raising}" if raising else f" — {clash} share a key (or a key is not a dot-free string): the later one overwrites the earlier and a "
                                                                                         "percentile is lost / reported with the wrong value")),
                   key=f"{_M}:encode_float_key:injective")
        except (CannotEval, _Unsup) as e:
            chk.unknown("O8.2", f"percentile key encoder is not evaluable over the percentile table: {e}", enc)
    else:
        chk.unknown("O8.2", "percentile key encoder: no one-parameter function / no percentile table to evaluate it on", enc)
    # the encoder is used where the keys are written (the results calculator) and where they are looked up (at least one site outside the calculator); a side that cannot be located is
    # 'not recognised' (the sites may have been folded into a helper), never a falsified obligation
    uses = [c for c in source.package_calls(repo, enc.name)]
    writers = [c for c in uses if source.enclosing_class(c) is GC]
    readers = [c for c in uses if source.enclosing_class(c) is not GC]
    if writers and readers:
        chk.ob("O8.2", "percentile keys are written and read through the same encoder", True, enc, f"{len(writers)} writing site(s) in the calculator, {len(readers)} reading site(s)")
    else:
        chk.unknown("O8.2", f"call sites of the percentile key encoder not located on both sides (calculator: {len(writers)}, elsewhere: {len(readers)})", enc)

    # ---- O8.3 attribute / key agreement ------------------------------------------------------------------------------------------------------------------
    chk.rule("O8.3", "results class: each attribute is initialised from the key of the same name; as_dict exposes exactly those attributes; every attribute the calculator assigns exists there; "
             "op-metrics records are built from the parameters of the same name and looked up by task name (falling back to the operation only for records without a task)", 55,
             "a metric is written under one name and read back under another (or from another task's record): compare / list show None or the wrong task's numbers")
    ad = gsm.get("as_dict")
    if ad is None:
        raise AnchorMissing("GlobalStats.as_dict")
    # decided on values: the constructor is RUN (machine) once without a dictionary (=> the declared attributes) and once on a dictionary that stores a distinct marker under every
    # attribute name; each attribute must then hold the marker of ITS name, and as_dict of that object must give the dictionary back (the write / read-back round trip of race.json)
    attrs = {}
    try:
        o0 = Record()
        k0, _v0 = _Machine(methods=gs_methods, functions=mfuncs).run(ginit, [None], recv=o0)
        declared = list(o0.fields) if k0 == "return" else []
        o1 = Record()
        markers = {a: f"<{a}>" for a in declared}
        k1, v1 = _Machine(methods=gs_methods, functions=mfuncs).run(ginit, [dict(markers)], recv=o1)
        if k0 != "return" or k1 != "return" or not declared:
            chk.unknown("O8.3", f"GlobalStats.__init__ does not complete on a representative dictionary: {_v0 if k0 != 'return' else v1}", ginit)
        else:
            site = {n.targets[0].attr: n for n in walk_body(ginit) if isinstance(n, ast.Assign) and is_self_attr(n.targets[0])}
            for a in declared:
                attrs[a] = a
                got = o1.fields.get(a)
                other = [k for k, mk in markers.items() if mk == got and k != a] if isinstance(got, str) else []
                chk.ob("O8.3", f"GlobalStats.{a} <- key '{other[0] if other else a}'", got == markers[a], site.get(a, ginit),
                       "" if got == markers[a] else (f"initialised from the key '{other[0]}'" if other else f"holds {got!r} although the dictionary stores a value under '{a}' (read from another key?)"),
                       key=f"{_M}:GlobalStats.__init__:{a}")
            k2, v2 = _Machine(methods=gs_methods, functions=mfuncs).run(ad, [], recv=Record(**markers))
            ok = k2 == "return" and isinstance(v2, dict) and v2 == markers
            chk.ob("O8.3", "as_dict exposes the instance attributes", ok, ad,
                   "" if ok else f"-> {k2}; missing {sorted(set(markers) - set(v2))[:5]}, extra {sorted(set(v2) - set(markers))[:5]}, changed {sorted(k for k in markers if k in v2 and v2[k] != markers[k])[:5]}"
                   if isinstance(v2, dict) else f"-> {k2} {v2!r}"[:200], key=f"{_M}:GlobalStats.as_dict:exposes")
    except (CannotEval, _Unsup) as x:
        chk.unknown("O8.3", f"GlobalStats.__init__ / as_dict are not evaluable on a representative dictionary: {x}", ginit)
    other_attr = [n for m in gsm.values() if m.name != "__init__" for n in walk_body(m) if isinstance(n, ast.Assign) and is_self_attr(n.targets[0])]
    chk.ob("O8.3", "no attribute created outside __init__ (as_dict == the declared set)", not other_attr, other_attr[0] if other_attr else GS, "")
    rv = [n for n in walk_body(call) if isinstance(n, ast.Assign) and isinstance(n.targets[0], ast.Name) and isinstance(n.value, ast.Call) and last_attr(n.value.func) == GS.name]
    if not rv:
        chk.unknown("O8.3", "the results object created by the calculator (<name> = GlobalStats()) is not located in __call__", call)
    for n in walk_body(call) if rv and attrs else []:
        if isinstance(n, ast.Assign) and isinstance(n.targets[0], ast.Attribute) and u(n.targets[0].value) == rv[0].targets[0].id:
            a = n.targets[0].attr
            chk.ob("O8.3", f"calculator assigns result.{a}: declared in the results class", a in attrs, n, "" if a in attrs else "written but never read back (not a declared attribute/key)", key=f"{_M}:GlobalStatsCalculator.__call__:assign:{a}")
    # decided on values: add_op_metrics is RUN with a distinct marker per parameter on a freshly constructed results object (_op_record_params, before O8.1); the record it stores must
    # carry each of the documented keys, each holding the marker of exactly one parameter (which one = `key_param`, used below to follow the calculator's arguments into the record)
    key_param = {}
    if oprec[0] != "ok":
        chk.unknown("O8.3", oprec[1], ao)
    else:
        key_param, rec, aparams = oprec[1], oprec[2], oprec[3]
        wrong = {k: rec.get(k) for k in OP_KEYS if key_param[k] is None}
        dup = sorted(k for k in OP_KEYS if key_param[k] is not None and list(key_param.values()).count(key_param[k]) > 1)
        misnamed = {k: p_ for k, p_ in key_param.items() if p_ is not None and p_ != k and k in aparams}
        ok = not wrong and not dup and not misnamed
        chk.ob("O8.3", "op-metrics record: each key holds the parameter of the same name", ok, ao,
               "" if ok else (f"key(s) {sorted(wrong)} do not hold a parameter: {wrong}" if wrong else f"keys {dup} hold the same parameter `{key_param[dup[0]]}`" if dup
                              else f"key -> parameter: {misnamed} although a parameter of the key's name exists")[:240], key=f"{_M}:GlobalStats.add_op_metrics:record")
        if wrong or dup:
            key_param = None  # already reported: the follow-up below has nothing to follow
    lv = tv
    if key_param is None:
        pass
    elif aoc0 is None or lv is None or not key_param:
        chk.unknown("O8.3", "the call <results>.add_op_metrics(...) for the task at hand is not located in the calculator (or the record keys could not be mapped to parameters)", call)
    else:
        # by data flow and on values: record key -> parameter (run above) -> argument at the call, followed through the locals that hold it (the FEED of the key, see O8.1) -> evaluated
        # for a representative task against the stand-in store: the feed must ask the store for the statistic the key stands for (percentiles for the three time keys, the error rate,
        # ...), of the metric of the key's name, for the task at hand and its operation type - whatever the computing method is called and however it is passed its arguments
        problems, unrecognised = [], []
        for k, (role, kind_queries, metric) in OP_FEEDS.items():
            e, g = feeds.get(k), by_key.get(k)
            if e is None:
                (unrecognised if opaque_call else problems).append(f"'{k}' <- nothing" + (" visible (the call spreads its arguments)" if opaque_call else f" (expected a value computed from the store's {' / '.join(kind_queries)})"))
                continue
            if not any(isinstance(x, (ast.Call, ast.Name, ast.Attribute)) for x in ast.walk(e)):
                problems.append(f"'{k}' <- the literal {short(e, 60)} (expected a value computed from the store's {' / '.join(kind_queries)})")
                continue
            if g is None or "std" not in g or k not in g["std"] or g["std"][k][0] == "raise":
                why_ = (g or {}).get("error") or (f"raises against the stand-in store: {g['std'][k][1]}" if g is not None and "std" in g and k in g["std"] else "not evaluable")
                unrecognised.append(f"'{k}' <- {short(e, 60)}: {why_}")
                continue
            qs = [(q, r_) for run_ in (g["std"][k], g["empty"][k]) for q, r_, _n in run_[2]]
            kq = [(q, r_) for q, r_ in qs if q in kind_queries]
            names = sorted({str(r_.get("name")) for _q, r_ in kq})
            off_task = [(q, r_) for q, r_ in kq if r_.get("task") != T_ or (role != "duration" and r_.get("operation_type") != OT_)]
            if not kq:
                problems.append(f"'{k}' <- {short(e, 60)}, which asks the store for {sorted({q for q, _r in qs}) or 'nothing'} and never for {' / '.join(kind_queries)}")
            elif metric is not None and names != [metric]:
                problems.append(f"'{k}' <- {short(e, 50)} for metric {names[0] if len(names) == 1 else names!r}")
            elif off_task:
                problems.append(f"'{k}' <- {short(e, 50)} for task {off_task[0][1].get('task')!r} / operation type {off_task[0][1].get('operation_type')!r} (the task at hand: {T_!r} / {OT_!r})")
        for k, want in (("task", T_), ("operation", "op-of-" + T_)):
            e = feeds.get(k)
            if e is None:
                (unrecognised if opaque_call else problems).append(f"'{k}' <- nothing")
                continue
            try:
                kind, val, _calls = calc.eval(e, {lv: task_rec(T_, OT_)}, calc.standard_answer())
            except (CannotEval, _Unsup) as x:
                unrecognised.append(f"'{k}' <- {short(e, 60)}: {x}")
                continue
            if kind != "return" or val != want:
                problems.append(f"'{k}' <- {short(e, 60)} (for the task at hand: {val!r}, expected its {'name' if k == 'task' else 'operation name'})")
        if problems or not unrecognised:
            chk.ob("O8.3", "each op-metrics field is computed for the metric of the same name", not problems, aoc0, "; ".join(problems)[:300], key=f"{_M}:GlobalStatsCalculator.__call__:op-metrics-fields")
        else:
            chk.unknown("O8.3", "how the per-task record fields are computed is not recognised: " + "; ".join(unrecognised)[:300], aoc0)
    record_key_agreement(chk, "O8.3", met)

    # ---- O8.4 race file agreement ------------------------------------------------------------------------------------------------------------------------
    chk.rule("O8.4", "every key Race.from_dict subscripts is written unconditionally by as_dict; every optional key it reads is written (possibly conditionally); each key is fed into the constructor "
             "parameter of the attribute it was written from; results are written from results.as_dict() and read back", 18,
             "a stored race cannot be read back (KeyError) or comes back with fields exchanged")
    RC = met.cls("Race")
    rm = met.methods(RC)
    asd, frd, rinit = rm.get("as_dict"), rm.get("from_dict"), rm.get("__init__")
    if asd is None or frd is None or rinit is None or len(params_of(frd)) != 2:
        raise AnchorMissing("Race.as_dict / Race.from_dict(cls, d) / Race.__init__")
    lit = [n for n in walk_body(asd) if isinstance(n, ast.Dict) and isinstance(source.parent(n), ast.Assign)]
    if not lit:
        raise AnchorMissing("dict literal in Race.as_dict")
    D0 = lit[0]
    dname = u(source.parent(D0).targets[0])

    def _is_update(x):
        return isinstance(x, ast.Expr) and isinstance(x.value, ast.Call) and isinstance(x.value.func, ast.Attribute) and x.value.func.attr == "update" and u(x.value.func.value) == dname \
            and all(k_.arg is not None for k_ in x.value.keywords) and all(isinstance(a_, ast.Dict) and all(isinstance(k_, ast.Constant) for k_ in a_.keys) for a_ in x.value.args)

    def _only_writes(stmts):
        return all(_is_update(x) or (isinstance(x, ast.Assign) and isinstance(x.targets[0], ast.Subscript) and u(x.targets[0].value) == dname) or (isinstance(x, ast.If) and _only_writes(x.body) and _only_writes(x.orelse))
                   or (isinstance(x, ast.Expr) and isinstance(x.value, ast.Constant)) or is_logging_stmt(x) or (isinstance(x, ast.Return) and u(x.value) == dname)
                   or (isinstance(x, ast.Assign) and x.value is D0) for x in stmts)

    # as_dict is "fully modelled" when it consists of the literal, conditional item assignments to it and its return: only then is a key that is NOT found known to be unwritten
    modelled = _only_writes(source.flat(asd.body)) and not any(k is None for k in D0.keys)
    uncond = {k.value: v for k, v in zip(D0.keys, D0.values) if isinstance(k, ast.Constant)}
    cond = {}
    for n in walk_body(asd):
        if isinstance(n, ast.Assign) and isinstance(n.targets[0], ast.Subscript) and isinstance(n.targets[0].slice, ast.Constant) and u(n.targets[0].value) == dname:
            cond[n.targets[0].slice.value] = n.value
        elif _is_update(n):  # <dict>.update(key=value, ...) / <dict>.update({"key": value, ...}): item assignments in another spelling
            for k_ in n.value.keywords:
                cond[k_.arg] = k_.value
            for a_ in n.value.args:
                cond.update({k_.value: v_ for k_, v_ in zip(a_.keys, a_.values)})
    cluster_keys = {k.value: v for k, v in zip(uncond["cluster"].keys, uncond["cluster"].values)} if isinstance(uncond.get("cluster"), ast.Dict) else {}
    ctor = [c for c in source.calls_in(frd) if last_attr(c.func) in ("Race", "cls")]
    if not ctor:
        raise AnchorMissing("Race(...) in from_dict")
    b = bind_args(ctor[0], rinit)
    fdefs = local_defs(frd)
    dpar = params_of(frd)[1]
    # by data flow: constructor parameter -> the attribute whose initial value is computed from it (and from no other parameter)
    rpar = set(params_of(rinit)[1:])
    attr_of_param = {}
    for n in walk_body(rinit):
        if isinstance(n, ast.Assign) and is_self_attr(n.targets[0]):
            used = {x.id for x in ast.walk(n.value) if isinstance(x, ast.Name) and x.id in rpar}
            if len(used) == 1:
                attr_of_param.setdefault(used.pop(), n.targets[0].attr)
    props = {m_.name: m_ for m_ in rm.values() if "property" in decorator_names(m_)}

    def written_attr(v):
        """the attribute of self an as_dict value is computed from (a property is followed into the attribute it reads); None if it is not exactly one."""
        read = set()
        for x in ast.walk(v):
            if is_self_attr(x):
                read |= {y.attr for y in ast.walk(props[x.attr]) if is_self_attr(y)} if x.attr in props else {x.attr}
        return read.pop() if len(read) == 1 else None

    adefs_ = {k: v for k, v in local_defs(asd).items() if k != dname}

    def resolved(e):
        """an as_dict value with the locals that hold it replaced by their definitions and a parameterless helper `self.<m>()` of the class replaced by what it returns."""
        e = source.inline_node(e, adefs_)
        for _ in range(3):
            if isinstance(e, ast.Call) and not e.args and not e.keywords and isinstance(e.func, ast.Attribute) and is_self_attr(e.func) and e.func.attr in rm and e.func.attr not in props:
                rets_ = [n for n in walk_body(rm[e.func.attr]) if isinstance(n, ast.Return) and n.value is not None]
                if len(rets_) != 1:
                    break
                e = source.inline_node(rets_[0].value, local_defs(rm[e.func.attr]))
            else:
                break
        return e

    for param, e in b.items():
        e2 = source.inline_node(e, fdefs)
        key = None
        mandatory = False
        container = None
        for x in ast.walk(e2):
            if isinstance(x, ast.Subscript) and isinstance(x.slice, ast.Constant) and isinstance(x.value, ast.Name):
                key, mandatory, container = x.slice.value, True, x.value.id
                break
            elif isinstance(x, ast.Call) and last_attr(x.func) == "get" and x.args and isinstance(x.args[0], ast.Constant):
                key, container = x.args[0].value, u(x.func.value)
                break
        if key is None:
            continue
        in_cluster = container not in (dpar,)
        wsrc = cluster_keys.get(key) if in_cluster and key in cluster_keys else (uncond.get(key) if key in uncond else cond.get(key))
        if key == "meta":
            if wsrc is None:
                chk.adv("O8.4", "from_dict reads 'meta' but as_dict never writes it (race meta data are not part of the results; never persisted in the race file)", frd)
            continue
        found = key in uncond if mandatory else wsrc is not None
        if not found and not modelled and not (mandatory and (key in cond or key in cluster_keys)):
            chk.unknown("O8.4", f"key '{key}' read by from_dict: as_dict builds the dictionary in a way that is not modelled (no literal item / item assignment for the key found)", e)
        elif mandatory:
            chk.ob("O8.4", f"mandatory key '{key}' written unconditionally", found, e, "" if found else ("written only under a condition" if key in cond else "never written"), key=f"{_M}:Race:key:{key}")
        else:
            chk.ob("O8.4", f"optional key '{key}' written by as_dict", found, e, "", key=f"{_M}:Race:key:{key}")
        if wsrc is not None:
            wa = written_attr(resolved(wsrc))
            ra = attr_of_param.get(param)
            if wa is None or ra is None:
                chk.unknown("O8.4", f"key '{key}': the attribute it is written from ({wa}) / the attribute parameter `{param}` initialises ({ra}) is not located", e)
            else:
                chk.ob("O8.4", f"key '{key}' round-trips into the attribute it was written from", wa == ra, e, f"written from self.{wa}, read into self.{ra}", key=f"{_M}:Race:roundtrip:{key}")
    rs = cond.get("results", uncond.get("results"))
    rs = resolved(rs) if rs is not None else None
    rattr = attr_of_param.get([p_ for p_, e_ in b.items() if any(source.is_const(x, "results") for x in ast.walk(e_))][0]) if any(source.is_const(x, "results") for e_ in b.values() for x in ast.walk(e_)) else None
    if rs is None and not modelled:
        chk.unknown("O8.4", "the value written under 'results' is not located in Race.as_dict", asd)
    elif rattr is None:
        chk.unknown("O8.4", "the attribute the 'results' key is read back into is not located", frd)
    else:
        # by role: what is stored is the complete as_dict() of the attribute the key is read back into (nothing filtered, nothing renamed)
        ok = rs is not None and P.is_(rs, f"self.{rattr}.as_dict()")
        if not ok and rs is not None and not any(is_self_attr(x, rattr) for x in ast.walk(rs)):
            # what is written does not visibly read the attribute at all (computed elsewhere): not located, hence not decided
            chk.unknown("O8.4", f"the value written under 'results' ({short(rs, 100)}) is not recognised as computed from self.{rattr}", asd)
        else:
            rs_site = cond.get("results", uncond.get("results"))
            chk.ob("O8.4", "results written from results.as_dict()", ok, rs_site if rs_site is not None else asd, "" if ok else (f"'results' <- {short(rs, 120)}" if rs is not None else "'results' is never written"),
                   key=f"{_M}:Race.as_dict:results")
    # Race.as_dict writes the results under a TRUTHINESS test of the results object: that is a presence test only as long as the results class defines neither __len__ nor
    # __bool__ (a results object without per-task rows would otherwise be dropped from race.json although it carries all global metrics)
    gs_cls = met.cls("GlobalStats")
    truthy_tests = [n for n in walk_body(asd) if isinstance(n, ast.If) and any(is_self_attr(x, "results") for x in [n.test] + (list(n.test.values) if isinstance(n.test, ast.BoolOp) else []))]
    dunder = [m_.name for m_ in gs_cls.body if isinstance(m_, (ast.FunctionDef, ast.AsyncFunctionDef)) and m_.name in ("__len__", "__bool__")]
    chk.ob("O8.4", "the results object is tested for presence only (its class defines no __len__ / __bool__)", not (truthy_tests and dunder), gs_cls,
           "" if not dunder else f"GlobalStats defines {dunder}: `if self.results:` in Race.as_dict is false for a results object without per-task rows, the `results` key is not written and every global metric reads back as None",
           key="esrally/metrics.py:GlobalStats:truthiness-is-presence")
    ts = uncond.get("race-timestamp")
    rt = b.get("race_timestamp")
    tsp = [p_ for p_, e_ in b.items() if any(source.is_const(x, "race-timestamp") for x in ast.walk(source.inline_node(e_, fdefs)))]
    rt = source.inline_node(b[tsp[0]], fdefs) if tsp else None
    if ts is None or rt is None:
        chk.unknown("O8.4", "the write / the read of the 'race-timestamp' key is not located", asd)
    else:
        conv = lambda e_: sorted({last_attr(x.func) for x in ast.walk(e_) if isinstance(x, ast.Call) and last_attr(x.func) not in (None, "get")})
        ts_r = resolved(ts)  # through the local / the helper that holds the converted value
        ok = conv(ts_r) == ["to_iso8601"] and conv(rt) == ["from_iso8601"]
        if not ok and not set(conv(ts_r) + conv(rt)) <= {"to_iso8601", "from_iso8601"}:
            # a conversion this rule does not know (a helper it cannot look into): not decided; no conversion at all / the same direction twice is located and wrong
            chk.unknown("O8.4", f"'race-timestamp' is written through {conv(ts_r)} and read through {conv(rt)}: not recognised as the ISO-8601 conversion pair", ts)
        else:
            chk.ob("O8.4", "timestamp written/read with the inverse ISO-8601 conversions", ok, ts, f"written through {conv(ts_r)}, read through {conv(rt)}", key=f"{_M}:Race:timestamp-conversions")

    # ---- O8.6 error rate -------------------------------------------------------------------------------------------------------------------------------------
    chk.rule("O8.6", "in-memory error rate: counts records with success is False over all matching service_time records (task, operation type, sample type) and divides by their number", 4,
             "error rate is not failed/all of the task's requests")
    ge = _need(im, "get_error_rate", "InMemoryMetricsStore")
    if len(params_of(ge)) != 4:
        raise AnchorMissing("get_error_rate(self, task, operation_type, sample_type)")
    # decided on values: the whole method is RUN (machine) on representative record sets and requests, the returned rate is compared with failed / all of the records the request selects.
    # Counters, filter and quotient are thereby taken by what they compute, whatever they are called and wherever they are computed (hoisted locals, helper methods, comprehensions).
    store = _StoreRuns(met, IM, mfuncs)
    requests = [(q_ot, q_st) for q_ot in (None, "X", "Y") for q_st in (None, "normal", "warmup")]
    kinds = _KINDS

    def rate(docs, q_ot, q_st):
        kind, val = store.run(ge, docs, ["A", q_ot, store.sample_type(q_st)])
        if kind == "raise":
            raise _Raised(val)
        return val

    def ref_rate(docs, q_ot, q_st):
        sel = [d for d in docs if _ref_match(d, "service_time", "A", q_ot, q_st)]
        return (sum(1 for d in sel if d["meta"]["success"] is False) / len(sel)) if sel else 0.0

    def decide_rate(instance, cases, key):
        """one obligation: for every (record set, request) the returned rate equals the reference; a raise is a falsification, a shape outside the machine 'not recognised'."""
        try:
            for label, docs in cases:
                for q_ot, q_st in requests:
                    want = ref_rate(docs, q_ot, q_st)
                    try:
                        got = rate(docs, q_ot, q_st)
                    except _WouldRaise as x:
                        chk.ob("O8.6", instance, False, ge, f"{label}, request task='A' operation_type={q_ot!r} sample_type={q_st}: {x}", key=key)
                        return
                    if not (isinstance(got, _NUM) and not isinstance(got, bool) and _close(float(got), want)):
                        chk.ob("O8.6", instance, False, ge, f"{label}, request task='A' operation_type={q_ot!r} sample_type={q_st}: error rate {got!r}, expected {want!r}", key=key)
                        return
        except (CannotEval, _Unsup) as x:
            chk.unknown("O8.6", f"get_error_rate is not evaluable on the representative records ({instance}): {x}", ge)
            return
        chk.ob("O8.6", instance, True, ge, "", key=key)

    decide_rate("record filter: service_time of the task / operation type / sample type",
                [(f"one failed record {k_}", [_record(*k_, ok=False)]) for k_ in kinds], f"{_M}:InMemoryMetricsStore.get_error_rate:filter")
    mixed = [_record(*k_, ok=(i + j) % 3 != 0) for i, k_ in enumerate(kinds) for j in range(1 + i % 4)]
    decide_rate("every matching record counted once; failed ones counted as errors",
                [("mixed records of all kinds", mixed), ("the same records reversed", list(reversed(mixed))),
                 ("failed records of other kinds only", [_record(*k_, ok=False) for k_ in kinds if k_[:2] != ("service_time", "A")] + [_record("service_time", "A", "X", "normal", ok=True)])],
                f"{_M}:InMemoryMetricsStore.get_error_rate:counting")
    decide_rate("error rate == errors / total (0.0 without records)",
                [("no record", [])] + [(f"{e_v} failed of {t_v} matching records", [_record("service_time", "A", "X", "normal", ok=i >= e_v) for i in range(t_v)])
                                       for e_v, t_v in ((0, 1), (1, 1), (0, 4), (1, 4), (4, 4), (2, 7))], f"{_M}:InMemoryMetricsStore.get_error_rate:quotient")
    decide_rate("counters start at 0",
                [("one failed record", [_record("service_time", "A", "X", "normal", ok=False)]), ("one successful record", [_record("service_time", "A", "X", "normal", ok=True)]),
                 ("one successful and one failed record", [_record("service_time", "A", "X", "normal", ok=True), _record("service_time", "A", "X", "normal", ok=False)])],
                f"{_M}:InMemoryMetricsStore.get_error_rate:start")

    # ---- O8.7 interpolation ----------------------------------------------------------------------------------------------------------------------------------------
    chk.rule("O8.7", "in-memory percentile == documented linear interpolation: rank == p/100 * (n - 1); exact rank -> sorted[int(rank)]; else lo + (hi - lo) * (rank - floor(rank)) with "
             "lo = sorted[floor(rank)], hi = sorted[ceil(rank)]; the list handed in is sorted(values) of the filtered records", 5,
             "any value set with n >= 2: percentiles not between min and max / p100 != max / p50 != median")
    # by role: the percentile function is the two-value method the store's get_percentiles reaches (whatever it is called); the conventional name where that is not readable
    pv = (_percentile_function(store, store.methods["get_percentiles"]) if "get_percentiles" in store.methods else None) or _need(im, "percentile_value", "InMemoryMetricsStore")
    if len(params_of(pv)) < 2:
        raise AnchorMissing("percentile_value(sorted_values, percentile)")
    sv, pc = params_of(pv)[-2:]
    pdefs = local_defs(pv)
    # (1) formula identity (for ALL values) where the shape is recognised. By role: the rank is the local computed from the percentile and the number of values
    rks = [k for k, v in pdefs.items() if any(P.is_(x, f"len({sv})") for x in ast.walk(v)) and any(isinstance(x, ast.Name) and x.id == pc for x in ast.walk(v))]
    rkn = rks[0] if len(rks) == 1 else None
    nork = {k: v for k, v in pdefs.items() if k != rkn}

    def patom(n):
        t = u(n)
        if t in (f"len({sv})",):
            return "N"
        if t in (f"float({pc})", pc):
            return "P"
        if rkn is not None and t in (f"math.floor({rkn})", f"int(math.floor({rkn}))"):
            return "FLOOR"
        if isinstance(n, ast.Subscript) and u(n.value) == sv:
            return f"S[{u(source.inline_node(n.slice, nork))}]"
        return None

    rk = pdefs.get(rkn) if rkn is not None else None
    sym_rank = rk is not None and rat_equal(rk, parse_expr("P / 100 * (N - 1)"), atom=patom)
    rets = [n for n in walk_body(pv) if isinstance(n, ast.Return)]
    exact = [r for r in rets if rkn is not None and P.guarded(r, "V_r == int(V_r)", "V_r.is_integer()", binds={"r": rkn}) is not None]
    sym_exact = len(exact) == 1 and P.is_(exact[0].value, f"{sv}[int(V_r)]", binds={"r": rkn})
    inter = [r for r in rets if r not in exact]
    sym_inter = False
    if len(inter) == 1 and rkn is not None and inter[0].value is not None:
        e = source.inline_node(inter[0].value, nork)
        sym_inter = rat_equal(e, parse_expr(f"LO + (HI - LO) * ({rkn} - FLOOR)"), atom=lambda n: {f"S[math.floor({rkn})]": "LO", f"S[math.ceil({rkn})]": "HI"}.get(patom(n) or "", patom(n)))
    # (2) decided on values: percentile_value is RUN (machine) on representative sorted lists (1 .. 101 values, uneven gaps) and percentiles (integral and fractional ranks) and compared
    # with the documented definition, up to floating-point rounding. A shape the formula matcher does not recognise is thereby still decided; only if neither applies the verdict is
    # 'not recognised'.
    pv_table, pv_err = None, ""
    try:
        pv_table = []
        for n_ in (1, 2, 3, 4, 5, 8, 10, 11, 12, 101):
            vals = [0.5 * i * i + i + 1.0 for i in range(n_)]
            for p_ in (0, 0.1, 10, 25, 33.3, 50, "50.0", 75, 90, 99, 99.9, 99.99, 100):
                is_exact, want = _ref_percentile(vals, p_)
                kind, got = store.run(pv, [], [list(vals), p_])
                pv_table.append((n_, p_, is_exact, kind == "return" and isinstance(got, _NUM) and not isinstance(got, bool) and _close(got, want), f"{kind} {got!r}"[:120], want))
    except (CannotEval, _Unsup) as x:
        pv_table, pv_err = None, str(x)

    def by_values(instance, sym_ok, select, node, sym_text, key):
        rows = [r for r in pv_table if select(r)] if pv_table is not None else None
        bad = [r for r in rows if not r[3]] if rows is not None else []
        if sym_ok or (rows and not bad):
            chk.ob("O8.7", instance, True, node, (sym_text + " (formula identity)" if sym_ok else f"decided on {len(rows)} (values, percentile) pairs"), key=key)
        elif rows:
            n_, p_, _, _, got, want = bad[0]
            chk.ob("O8.7", instance, False, node, f"{sym_text + ': ' if sym_text else ''}{n_} sorted values, percentile {p_!r}: {got}, the definition gives {want!r}", key=key)
        else:
            chk.unknown("O8.7", f"{instance}: neither the formula shape is recognised nor is percentile_value evaluable on representative values ({pv_err})", node)

    by_values("rank == p/100 * (n - 1)", sym_rank, lambda r: True, rk if rk is not None else pv, u(rk) if rk is not None else "", f"{_M}:InMemoryMetricsStore.percentile_value:rank")
    by_values("exact rank -> sorted[int(rank)]", sym_exact, lambda r: r[2], exact[0] if exact else pv, "", f"{_M}:InMemoryMetricsStore.percentile_value:exact")
    by_values("otherwise lo + (hi - lo) * (rank - floor(rank)) over adjacent order statistics", sym_inter, lambda r: not r[2], inter[0] if len(inter) == 1 else pv,
              u(inter[0].value) if len(inter) == 1 and inter[0].value is not None else "", f"{_M}:InMemoryMetricsStore.percentile_value:interpolation")
    # get_percentiles, decided on values: RUN on representative records (all combinations of metric name / task / operation type / sample type, distinct unsorted values, a 0.0 among
    # them) for several requests; each requested percentile must be the documented percentile of the values the request selects — whichever helper fetches, filters and sorts them
    gp = _need(im, "get_percentiles", "InMemoryMetricsStore")
    if len(params_of(gp)) != 6:
        raise AnchorMissing("get_percentiles(self, name, task, operation_type, sample_type, percentiles)")
    vdocs = _value_docs()
    wanted_p = [50, 99.9, 100, "50.0", 0, 37.5]
    pc_rows, pc_err = [], None
    try:
        for rq in _VALUE_REQUESTS:
            F = sorted(d["value"] for d in vdocs if _ref_match(d, *rq))
            kind, got = store.run(gp, vdocs, [rq[0], rq[1], rq[2], store.sample_type(rq[3]), list(wanted_p)])
            pc_rows.append((rq, F, kind, got))
    except (CannotEval, _Unsup) as x:
        pc_err = str(x)
    if pc_err is not None:
        chk.unknown("O8.7", f"get_percentiles is not evaluable on the representative records: {pc_err}", gp)
    else:
        ok, detail = True, ""
        for rq, F, kind, got in pc_rows:
            if kind == "raise":
                ok, detail = False, f"request {rq} ({len(F)} matching values): {got}"
            elif not F:
                if got is not None and (not hasattr(got, "__len__") or len(got) != 0):
                    ok, detail = False, f"request {rq} selects no record but the result is {got!r}"[:240]
            elif not isinstance(got, dict):
                ok, detail = False, f"request {rq}: result {got!r} is not a mapping"[:240]
            else:
                for p_ in wanted_p:
                    want = _ref_percentile(F, p_)[1]
                    if p_ in got and not (isinstance(got[p_], _NUM) and _close(got[p_], want)):
                        ok, detail = False, f"request {rq}: percentile {p_!r} of the {len(F)} matching values {F[:6]}{'...' if len(F) > 6 else ''} is {got[p_]!r}, the definition on the sorted values gives {want!r}"
                        break
            if not ok:
                break
        chk.ob("O8.7", "percentiles computed on sorted(filtered values) for each requested percentile", ok, gp, detail, key=f"{_M}:InMemoryMetricsStore.get_percentiles:values")
        ok, detail = True, ""
        for rq, F, kind, got in pc_rows:
            if F and isinstance(got, dict) and set(got) != set(wanted_p):
                ok, detail = False, f"request {rq}: requested {wanted_p}, result keyed by {list(got)}"
                break
        chk.ob("O8.7", "result keyed by the requested percentile", ok, gp, detail, key=f"{_M}:InMemoryMetricsStore.get_percentiles:keys")

    # ---- O8.8 stats from the raw values ------------------------------------------------------------------------------------------------------------------------------
    chk.rule("O8.8", "count == len, min == first, max == last of the sorted filtered values, avg == mean of the same list; get_mean returns that avg, get_median the 50th percentile; the summary "
             "copies min/mean/median/max under the names of the same meaning", 5, "summary min/max/mean/median disagree with the raw values")
    gst = _need(im, "get_stats", "InMemoryMetricsStore")
    if len(params_of(gst)) != 5:
        raise AnchorMissing("get_stats(self, name, task, operation_type, sample_type)")
    # decided on values: get_stats is RUN on the representative records; every statistic must be that of the values the request selects (a 0.0 among them), however they are fetched
    ok, detail, undecided = True, "", None
    try:
        for rq in _VALUE_REQUESTS:
            F = [d["value"] for d in vdocs if _ref_match(d, *rq)]
            kind, got = store.run(gst, vdocs, [rq[0], rq[1], rq[2], store.sample_type(rq[3])])
            if kind == "raise":
                ok, detail = False, f"request {rq} ({len(F)} matching values): {got}"
            elif not F:
                if got and not (isinstance(got, dict) and got.get("count") == 0):
                    ok, detail = False, f"request {rq} selects no record but the statistics are {got!r}"[:240]
            elif not isinstance(got, dict):
                ok, detail = False, f"request {rq} ({len(F)} matching values): result {got!r} is not a statistics record"[:240]
            else:
                want = {"count": len(F), "min": min(F), "max": max(F), "avg": statistics.mean(F)}
                wrong = {k: (got.get(k), w) for k, w in want.items() if not _close(got.get(k), w)}
                if wrong:
                    ok, detail = False, f"request {rq}, {len(F)} matching values: " + ", ".join(f"{k} is {g!r}, expected {w!r}" for k, (g, w) in wrong.items())
            if not ok:
                break
    except (CannotEval, _Unsup) as x:
        undecided = str(x)
    if undecided is not None:
        chk.unknown("O8.8", f"get_stats is not evaluable on the representative records: {undecided}", gst)
    else:
        chk.ob("O8.8", "get_stats: count/min/max/avg of the sorted filtered values", ok, gst, detail, key=f"{_M}:InMemoryMetricsStore.get_stats:values")
    gme, gmd = store.methods.get("get_mean"), store.methods.get("get_median")
    if gme is None or gmd is None or len(params_of(gme)) != 5 or len(params_of(gmd)) != 5 or "get_stats" not in store.methods or "get_percentiles" not in store.methods:
        raise AnchorMissing("get_mean / get_median(self, name, task, operation_type, sample_type) of the in-memory store")
    NORMAL = store.sample_type("normal")

    def same_request(bound, fd, rq):
        """the query was issued for exactly the request (parameters taken by position in the callee's signature, so neither keyword nor positional passing matters)."""
        ps_ = [p_ for p_ in params_of(fd) if p_ not in ("self", "cls")][:4]
        return len(ps_) == 4 and all(bound.get(p_) is v or (not isinstance(v, Record) and bound.get(p_) == v) for p_, v in zip(ps_, rq))

    # get_mean, decided on values: RUN with the statistics query answered by the rule (a record for exactly the request, a decoy for any other request): the mean is the avg of the
    # statistics of the SAME request, 0.0 stays 0.0 and an absent record gives None
    ok, detail, undecided = True, "", None
    try:
        for rq in (("service_time", "A", "X", NORMAL), ("latency", "B", None, None)):
            for sval, want in (({"count": 3, "min": 1.0, "max": 9.0, "avg": 4.5, "sum": 13.5}, 4.5), ({"count": 1, "min": 0.0, "max": 0.0, "avg": 0.0, "sum": 0.0}, 0.0), (None, None)):
                hook = lambda b, rq=rq, sval=sval: (dict(sval) if sval is not None else None) if same_request(b, store.methods["get_stats"], rq) else {"count": 7, "min": -1.0, "max": -1.0, "avg": -1.0, "sum": -7.0}
                kind, got = store.run(gme, [], list(rq), hooks={"get_stats": hook})
                if kind == "raise" or not _close(got, want):
                    ok, detail = False, f"request {rq[:3] + (getattr(rq[3], 'fields', {}).get('name'),)}, statistics of that request {sval} -> {kind} {got!r}, expected {want!r}"
                    break
            if not ok:
                break
    except (CannotEval, _Unsup) as x:
        undecided = str(x)
    if undecided is not None:
        chk.unknown("O8.8", f"get_mean is not evaluable on a representative statistics record: {undecided}", gme)
    else:
        chk.ob("O8.8", "get_mean == avg of the same filtered values", ok, gme, detail, key=f"{_M}:MetricsStore.get_mean:values")
    # get_median, likewise: the percentile query is answered by the rule with a value that encodes the percentile asked for; the median is the 50th percentile of the SAME request and
    # None when there are no percentiles
    ok, detail, undecided = True, "", None

    def pct_answer(b, rq, empty):
        fd = store.methods["get_percentiles"]
        plist = b.get(params_of(fd)[5]) if len(params_of(fd)) > 5 else None
        try:
            full = {p_: 1000.0 + float(p_) for p_ in (plist or [])}
        except (TypeError, ValueError):
            raise CannotEval(f"percentiles requested by get_median: {plist!r}")
        return ({} if empty else full) if same_request(b, fd, rq) else {p_: -1.0 for p_ in full}

    try:
        for rq in (("service_time", "A", "X", NORMAL), ("latency", "B", None, None)):
            for empty, want in ((False, 1050.0), (True, None)):
                kind, got = store.run(gmd, [], list(rq), hooks={"get_percentiles": lambda b, rq=rq, empty=empty: pct_answer(b, rq, empty)})
                if kind == "raise" or not _close(got, want):
                    ok, detail = False, (f"request {rq[:3] + (getattr(rq[3], 'fields', {}).get('name'),)}, {'no percentiles' if empty else 'percentile p answered with 1000 + p'} -> {kind} {got!r}, "
                                         f"expected {want!r} (the 50th percentile of the same request)")
                    break
            if not ok:
                break
    except (CannotEval, _Unsup) as x:
        undecided = str(x)
    if undecided is not None:
        chk.unknown("O8.8", f"get_median is not evaluable with a representative percentile answer: {undecided}", gmd)
    else:
        chk.ob("O8.8", "get_median == 50th percentile of the same filtered values", ok, gmd, detail, key=f"{_M}:MetricsStore.get_median:values")
    # end to end on the representative records (property text: p50 = median, mean agrees with the raw values): no query answered by the rule
    ok, detail, undecided = True, "", None
    try:
        for rq in _VALUE_REQUESTS:
            F = [d["value"] for d in vdocs if _ref_match(d, *rq)]
            for fn, want in ((gme, statistics.mean(F) if F else None), (gmd, statistics.median(F) if F else None)):
                kind, got = store.run(fn, vdocs, [rq[0], rq[1], rq[2], store.sample_type(rq[3])])
                if kind == "raise" or not _close(got, want):
                    ok, detail = False, f"{fn.name}{rq} over {len(F)} matching values -> {kind} {got!r}, expected {want!r}"
                    break
            if not ok:
                break
    except (CannotEval, _Unsup) as x:
        undecided = str(x)
    if undecided is not None:
        chk.unknown("O8.8", f"get_mean / get_median are not evaluable end to end on the representative records: {undecided}", gme)
    else:
        chk.ob("O8.8", "mean / median of the in-memory store == mean / median of the selected raw values (end to end)", ok, gmd, detail, key=f"{_M}:InMemoryMetricsStore:mean-median:values")
    # decided on values: the FEED of the record's `throughput` key (the summary method called for the task at hand, see O8.1) is evaluated against the stand-in store, whose answers
    # differ per query and per metric asked for; the summary must carry, under each name, the statistic of that meaning of the REQUESTED metric (queries for another metric are
    # answered with decoys)
    sg = ([g for g in role_groups("summary_stats") if "std" in g and "error" not in g] or [None])[0]
    ss = sg["f"] if sg is not None and sg["f"] is not None else (role_groups("summary_stats")[0]["f"] or ptf)
    if sg is None:
        chk.unknown("O8.8", f"{ss.name}: the summary of the per-task record is not evaluable against the stand-in store ({role_groups('summary_stats')[0].get('error', '')})"[:300], ss)
    else:
        s_run = list(sg["runners"].values())[0]

        def summary_answer(q, r):
            right = r.get("name") == "throughput"
            if q == "get_stats":
                return {"count": 12, "min": 1.0, "max": 9.0, "avg": 4.0, "sum": 48.0} if right else {"count": 5, "min": -1.0, "max": -9.0, "avg": -4.0, "sum": -20.0}
            if q in ("get_mean", "get_median", "get_unit"):
                return {"get_mean": 4.0, "get_median": 3.0, "get_unit": "ops/s"}[q] if right else {"get_mean": -4.0, "get_median": -3.0, "get_unit": "??"}[q]
            if q == "get_percentiles":
                # consistent with the median above (the median IS the 50th percentile: a summary that asks for it that way computes the same)
                try:
                    return {p_: ((3.0 if float(p_) == 50 else 3.0 + float(p_) / 100) if right else -3.0) for p_ in (r.get("percentiles") if r.get("percentiles") is not None else [99, 99.9, 100])}
                except (TypeError, ValueError):
                    raise CannotEval(f"percentiles requested: {r.get('percentiles')!r}")
            return calc.standard_answer()(q, r)

        try:
            kind, got, calls = s_run(summary_answer)
            kind2, got2, calls2 = s_run(lambda q, r: summary_answer(q, dict(r, name="throughput")))
        except (CannotEval, _Unsup) as x:
            kind = None
            chk.unknown("O8.8", f"{ss.name} is not evaluable against the stand-in store: {x}", ss)
        if kind is not None:
            want = {"min": 1.0, "mean": 4.0, "median": 3.0, "max": 9.0, "unit": "ops/s"}
            # the second run answers every query as if it were for the requested metric: it isolates "copied under the name of the same meaning" from "asked for the right metric"
            ok = kind2 == "return" and isinstance(got2, dict) and all(k in got2 and _close(got2[k], w) for k, w in want.items())
            chk.ob("O8.8", "summary copies min/mean/median/max from the statistics of the same meaning", ok, ss,
                   "" if ok else f"store answers min 1.0, mean 4.0, median 3.0, max 9.0, unit 'ops/s' -> {kind2} {got2!r}"[:260], key=f"{_M}:GlobalStatsCalculator.summary_stats:copies")
            stat_q = [(q, r, located(n_)) for q, r, n_ in calls if q in ("get_stats", "get_mean", "get_median", "get_percentiles")]
            if {q for q, _, _ in stat_q} >= {"get_stats", "get_mean", "get_median"} or (kind == "return" and isinstance(got, dict) and all(k in got and _close(got[k], w) for k, w in want.items())):
                bad = [(q, r, n_) for q, r, n_ in stat_q if r.get("name") != "throughput"]
                ok = not bad and kind == "return" and isinstance(got, dict) and all(k in got and _close(got[k], w) for k, w in want.items())
                chk.ob("O8.8", "all summary statistics are of the requested metric", ok, bad[0][2] if bad else ss,
                       (f"{bad[0][0]} is asked for metric {bad[0][1].get('name')!r} instead of the requested one" if bad else "" if ok else f"-> {kind} {got!r}"[:260]),
                       key=f"{_M}:GlobalStatsCalculator.summary_stats:requested-metric")
            else:
                chk.unknown("O8.8", f"{ss.name}: the mean / median / statistics queries are not all located (queries seen: " + ", ".join(sorted({q for q, _, _ in calls})) + ")", ss)

    # ---- O8.9 no truthiness on optional numerics ------------------------------------------------------------------------------------------------------------------------
    chk.rule("O8.9", "values returned by the store's mean/median queries (floats or None, 0 is a legitimate statistic) are tested with `is (not) None`, never by truthiness", 1,
             "a task whose normal samples are all 0 (e.g. every request failed under on-error=continue => 0 ops): the summary reports None for min/mean/median/max instead of 0")
    found = 0
    # decided on values for the per-task methods: the method is RUN against the stand-in store with ONE optional statistic answered 0.0 (all others positive); the 0.0 must arrive in
    # the result under that statistic's name, whatever tests it passed on the way (the finding is keyed by the ROLE of the statistic: get_mean -> mean)
    decided = set()
    for g in [g_ for role in ("summary_stats", "single_latency") for g_ in role_groups(role)]:
        if "std" not in g or "error" in g:
            continue
        mname, label = g["name"], g["label"]
        try:
            verdicts = []
            for role, q in (("mean", "get_mean"), ("median", "get_median")):
                base = calc.standard_answer()
                outcomes = []
                for s_run_ in g["runners"].values():  # every feed of the role (e.g. the percentile method for each of the three time metrics)
                    kind, got, calls_ = s_run_(lambda q_, r, q=q, base=base: 0.0 if q_ == q else base(q_, r))
                    if q not in {c_[0] for c_ in calls_}:
                        continue  # this method does not ask for that statistic
                    if kind != "return" or not isinstance(got, dict):
                        raise CannotEval(f"{mname} with {q} answered 0.0 -> {kind} {got!r}"[:160])
                    outcomes.append((got.get(role) is not None and _close(got.get(role), 0.0), got))
                if outcomes:
                    verdicts.append((role, all(o_[0] for o_ in outcomes), ([o_ for o_ in outcomes if not o_[0]] or outcomes)[0][1]))
        except (CannotEval, _Unsup):
            continue  # not evaluable: the structural scan below covers the method
        if g["f"] is not None:
            decided.add(g["f"].name)
        for role, ok, got in verdicts:
            found += 1
            chk.ob("O8.9", f"{mname}: a {role} of 0 is reported as 0 (the optional statistic `{role}` is not tested by truthiness)", ok, g["f"] if g["f"] is not None else located(None),
                   "" if ok else f"the store answers {role} = 0.0 (every other statistic positive) and the summary carries {role} = {got.get(role)!r}: a value of 0 is treated as missing",
                   key=f"{_M}:GlobalStatsCalculator.{label}:truthiness:{role}")
    for mname, f in gm.items():
        if mname in decided:
            continue
        fdefs = local_defs(f)
        # the finding is keyed by the ROLE of the tested local (the query it holds: get_mean -> mean), not by its spelling
        opt = {k: v.func.attr.removeprefix("get_") for k, v in fdefs.items() if isinstance(v, ast.Call) and isinstance(v.func, ast.Attribute) and v.func.attr in ("get_mean", "get_median", "get_one", "median")}
        for n in walk_body(f):
            tests = [n.test] if isinstance(n, (ast.If, ast.IfExp, ast.While)) else []
            for t in tests:
                for a in atoms_of(t):
                    if isinstance(a, ast.Name) and a.id in opt:
                        found += 1
                        chk.ob("O8.9", f"{mname}: optional statistic `{a.id}` tested by truthiness", False, n, f"`{short(t, 60)}`: a value of 0 is treated as missing",
                               key=f"{_M}:GlobalStatsCalculator.{label_of.get(mname, mname)}:truthiness:{opt[a.id]}")
    if found == 0:
        chk.ob("O8.9", "no truthiness test on optional statistics in the calculator", True, GC, "")
    # advisory O8.5 / system stats
    SC = met.cls("SystemStatsCalculator")
    addf = met.methods(SC).get("add")
    adefs = local_defs(addf) if addf is not None else {}
    if addf is not None and any(isinstance(n, ast.If) and isinstance(n.test, ast.Name) and isinstance(adefs.get(n.test.id), ast.Call) and last_attr(adefs[n.test.id].func) == "get_one" for n in walk_body(addf)):
        chk.adv("O8.9", "SystemStatsCalculator.add drops a system metric whose value is 0 (`if metric_value:`) — outside the property (system metrics)", addf)
    EM = met.cls("EsMetricsStore")
    for n in ast.walk(EM):
        if isinstance(n, ast.If) and u(n.test) == "sample_type":
            chk.adv("O8.5", "EsMetricsStore tests `if sample_type:` on an IntEnum whose Warmup member is 0: a Warmup filter is silently dropped (results use Normal, so outside the property)", n)
            break

    # ---- O8.10 per-shard statistics ----------------------------------------------------------------------------------------------------------------------------------
    chk.rule("O8.10", "per-shard statistics are total over the stored records: for every representative set of `per-shard` arrays (none, only empty ones, empty and filled, one / several "
             "records) the method returns; min/median/max are those of ALL per-shard values when there are any, and no number is reported when there are none (the aggregates are "
             "evaluated only when the flattened list is non-empty)", len(SHARD_CASES),
             "a race whose only index-time records carry an empty `per-shard` array (shard level of the index-stats response not available; IndexStats stores [] then): min() of an "
             "empty list raises ValueError in the results calculator, no summary is computed and race.json keeps no results at all (F34)")
    per_shard_statistics(chk, "O8.10", met, calc, call)

    # ---- O8.11 the Elasticsearch metrics store honours the request ---------------------------------------------------------------------------------------------------------
    chk.rule("O8.11", "Elasticsearch metrics store: every query of the MetricsStore API the results are computed from sends a search that selects exactly the records of the request (this race, "
             "the metric name; the task, operation type and sample type when given), and hands back the statistic of the selected records (error rate == failed / all)", 15,
             "results computed from an Elasticsearch metrics store (datastore.type = elasticsearch) with warm-up samples, several operation types per task or several races per index: a "
             "statistic / the error rate includes records the calculator excluded (the in-memory store honours the same request)")
    es_store_queries(chk, "O8.11", met, mfuncs, enum)

    # ---- O8.12 the race file is read back for the id it was written for ---------------------------------------------------------------------------------------------------
    chk.rule("O8.12", "race file store: the race (with its results) read back for a race id - by compare through find_by_race_id, by list races through list - is the document that was "
             "written for exactly that id, for every user-chosen id (characters special to glob / fnmatch / regular expressions, upper and lower case included); an id that was never "
             "stored is reported as missing", 3,
             "a user-chosen race id (--race-id) such as `shards[1]` or `what-if?`: compare shows the per-task and global metrics of ANOTHER race (or reports a stored race as missing)")
    race_file_round_trip(chk, "O8.12", repo, met, mfuncs)

    # ---- O8.13 the coordinator calculates the results from a searchable store and stores the race with them -----------------------------------------------------------------
    chk.rule("O8.13", "end of the benchmark (coordinator): when the results are calculated every sample written to the Elasticsearch metrics store is searchable (bulk-indexed AND the "
             "index refreshed after the last write, by whichever process wrote it), and the race that is stored last - the document compare / list races read back - carries exactly "
             "those results; so does the race handed to the results store", 3,
             "an Elasticsearch metrics store (the driver flushes without refresh) gives statistics of a subset of the samples; or race.json is written without the results, so compare "
             "shows no per-task and no global metrics")
    coordinator_results(chk, "O8.13", repo, met, mfuncs)


from sa.selftest import V  # noqa: E402

# source fragments of the pinned tree the round-2 variants replace
_GET_STATS_HEAD = "        values = self.get(name, task, operation_type, sample_type)\n        sorted_values = sorted(values)\n"
_SELECTOR_CHAIN = ("    elif 1 < sample_size < 10:\n        return [50, 100]\n    elif 10 <= sample_size < 100:\n        return [50, 90, 100]\n    elif 100 <= sample_size < 1000:\n        return [50, 90, 99, 100]\n"
                   "    elif 1000 <= sample_size < 10000:\n        return [50, 90, 99, 99.9, 100]\n    else:\n        return [50, 90, 99, 99.9, 99.99, 100]\n")
_ER_LOOP = ("        error = 0\n        total_count = 0\n        for doc in self.docs:\n            # we can use any request metrics record (i.e. service time or latency)\n            if (\n"
            "                doc[\"name\"] == \"service_time\"\n                and doc[\"task\"] == task\n                and (operation_type is None or doc[\"operation-type\"] == operation_type)\n"
            "                and (sample_type is None or doc[\"sample-type\"] == sample_type.name.lower())\n            ):\n                total_count += 1\n"
            "                if doc[\"meta\"][\"success\"] is False:\n                    error += 1\n")
_ER_TAIL = "        if total_count > 0:\n            return error / total_count\n        else:\n            return 0.0\n"
_PV_BODY = ("        rank = float(percentile) / 100.0 * (len(sorted_values) - 1)\n        if rank == int(rank):\n            return sorted_values[int(rank)]\n        else:\n            lr = math.floor(rank)\n"
            "            lr_next = math.ceil(rank)\n            fr = rank - lr\n            lower_score = sorted_values[lr]\n            higher_score = sorted_values[lr_next]\n"
            "            return lower_score + (higher_score - lower_score) * fr\n")
_SUMMARY_QUERIES = ("        mean = self.store.get_mean(metric_name, task=task_name, operation_type=operation_type, sample_type=SampleType.Normal)\n"
                    "        median = self.store.get_median(metric_name, task=task_name, operation_type=operation_type, sample_type=SampleType.Normal)\n"
                    "        unit = self.store.get_unit(metric_name, task=task_name, operation_type=operation_type)\n"
                    "        stats = self.store.get_stats(metric_name, task=task_name, operation_type=operation_type, sample_type=SampleType.Normal)\n")
_OP_DOC = ("        doc = {\n            \"task\": task,\n            \"operation\": operation,\n            \"throughput\": throughput,\n            \"latency\": latency,\n            \"service_time\": service_time,\n"
           "            \"processing_time\": processing_time,\n            \"error_rate\": error_rate,\n            \"duration\": duration,\n        }\n")
_ADD_CALL = ("                    result.add_op_metrics(\n                        t,\n                        task.operation.name,\n                        self.summary_stats(\"throughput\", t, op_type),\n"
             "                        self.single_latency(t, op_type),\n                        self.single_latency(t, op_type, metric_name=\"service_time\"),\n"
             "                        self.single_latency(t, op_type, metric_name=\"processing_time\"),\n                        error_rate,\n                        duration,\n"
             "                        self.merge(self.track.meta_data, self.challenge.meta_data, task.operation.meta_data, task.meta_data),\n")
_KEY_METHODS = ("        return [v.get(\"task\", v[\"operation\"]) for v in self.op_metrics]\n\n    def metrics(self, task):\n        # ensure we can read race.json files before Rally 0.8.0\n"
                "        for r in self.op_metrics:\n            if r.get(\"task\", r[\"operation\"]) == task:\n                return r\n        return None\n")

_TASK_BODY = ("                t = task.name\n                op_type = task.operation.type\n                error_rate = self.error_rate(t, op_type)\n                duration = self.duration(t)\n"
              "                if task.operation.include_in_reporting or error_rate > 0:\n                    self.logger.debug(\"Gathering request metrics for [%s].\", t)\n" + _ADD_CALL + "                    )\n")
_TASK_HELPER = ("    def _add_task_metrics(self, result, task):\n        t = task.name\n        op_type = task.operation.type\n        error_rate = self.error_rate(t, op_type)\n"
                "        if not task.operation.include_in_reporting and error_rate <= 0:\n            return\n        self.logger.debug(\"Gathering request metrics for [%s].\", t)\n"
                "        result.add_op_metrics(\n            t,\n            task.operation.name,\n            self.summary_stats(\"throughput\", t, op_type),\n            self.single_latency(t, op_type),\n"
                "            self.single_latency(t, op_type, metric_name=\"service_time\"),\n            self.single_latency(t, op_type, metric_name=\"processing_time\"),\n            error_rate,\n"
                "            self.duration(t),\n            self.merge(self.track.meta_data, self.challenge.meta_data, task.operation.meta_data, task.meta_data),\n        )\n\n")

_THREE_CALLS = ("                        self.single_latency(t, op_type),\n                        self.single_latency(t, op_type, metric_name=\"service_time\"),\n"
                "                        self.single_latency(t, op_type, metric_name=\"processing_time\"),\n")
_THREE_CALLS_SPLIT = ("                        self.latency_stats(t, op_type),\n                        self.service_time_stats(t, op_type),\n                        self.processing_time_stats(t, op_type),\n")
_THREE_DEFS = ("    def latency_stats(self, task, operation_type):\n        return self._percentiles_of(task, operation_type, \"latency\")\n\n"
               "    def service_time_stats(self, task, operation_type):\n        return self._percentiles_of(task, operation_type, \"service_time\")\n\n"
               "    def processing_time_stats(self, task, operation_type):\n        return self._percentiles_of(task, operation_type, \"processing_time\")\n\n"
               "    def _percentiles_of(self, task, operation_type, metric_name):")

VARIANTS = [
    V("sample type dropped at one query", "break", _M, "        mean = self.store.get_mean(metric_name, task=task_name, operation_type=operation_type, sample_type=SampleType.Normal)", "        mean = self.store.get_mean(metric_name, task=task_name, operation_type=operation_type)", "O8.1"),
    V("warmup queried", "break", _M, "    def single_latency(self, task, operation_type, metric_name=\"latency\"):\n        sample_type = SampleType.Normal", "    def single_latency(self, task, operation_type, metric_name=\"latency\"):\n        sample_type = SampleType.Warmup", "O8.1"),
    V("seed m1: sample size from all samples", "break", _M, "        sample_size = stats[\"count\"] if stats else 0", "        sample_size = len(self.store.get(metric_name, task=task, operation_type=operation_type))", "O8.1"),
    V("seed m3: error rate ignores the operation type", "break", _M, "        return self.store.get_error_rate(task=task_name, operation_type=operation_type, sample_type=SampleType.Normal)", "        return self.store.get_error_rate(task=task_name, sample_type=SampleType.Normal)", "O8.1"),
    V("gap in the percentile thresholds", "break", _M, "    elif 10 <= sample_size < 100:", "    elif 10 < sample_size < 100:", "O8.2"),
    V("p100 missing for large samples", "break", _M, "        return [50, 90, 99, 99.9, 99.99, 100]", "        return [50, 90, 99, 99.9, 99.99]", "O8.2"),
    V("key typo in one attribute", "break", _M, "        self.merge_count = self.v(d, \"merge_count\")", "        self.merge_count = self.v(d, \"merges_count\")", "O8.3"),
    V("calculator attribute not in the results class", "break", _M, "        result.flush_count = self.sum(\"flush_total_count\")", "        result.flush_total_count = self.sum(\"flush_total_count\")", "O8.3"),
    V("service_time and latency exchanged", "break", _M, "                        self.single_latency(t, op_type),\n                        self.single_latency(t, op_type, metric_name=\"service_time\"),", "                        self.single_latency(t, op_type, metric_name=\"service_time\"),\n                        self.single_latency(t, op_type),", "O8.3"),
    V("seed m2: record lookup by membership", "break", _M, "            if r.get(\"task\", r[\"operation\"]) == task:", "            if task in (r.get(\"task\"), r[\"operation\"]):", "O8.3"),
    V("mandatory key written conditionally", "break", _M, "            \"pipeline\": self.pipeline,\n            \"user-tags\": self.user_tags,", "            \"user-tags\": self.user_tags,", "O8.4"),
    V("car and pipeline exchanged on read", "break", _M, "            d[\"pipeline\"],\n            user_tags,\n            d[\"track\"],\n            d.get(\"track-params\"),\n            d.get(\"challenge\"),\n            d[\"car\"],", "            d[\"car\"],\n            user_tags,\n            d[\"track\"],\n            d.get(\"track-params\"),\n            d.get(\"challenge\"),\n            d[\"pipeline\"],", "O8.4"),
    V("error rate over errors only", "break", _M, "        if total_count > 0:\n            return error / total_count", "        if total_count > 0:\n            return error / max(error, 1)", "O8.6"),
    V("rank with n instead of n - 1", "break", _M, "        rank = float(percentile) / 100.0 * (len(sorted_values) - 1)", "        rank = float(percentile) / 100.0 * len(sorted_values)", "O8.7"),
    V("interpolation weight inverted", "break", _M, "            return lower_score + (higher_score - lower_score) * fr", "            return higher_score + (lower_score - higher_score) * fr", "O8.7"),
    V("max is the first value", "break", _M, "                \"max\": sorted_values[-1],", "                \"max\": sorted_values[0],", "O8.8"),
    # preserving
    V("convex-combination form", "keep", _M, "            return lower_score + (higher_score - lower_score) * fr", "            return lower_score * (1 - fr) + higher_score * fr"),
    V("local alias of the sample type", "keep", _M, "        mean = self.store.get_mean(metric_name, task=task_name, operation_type=operation_type, sample_type=SampleType.Normal)", "        normal = SampleType.Normal\n        mean = self.store.get_mean(metric_name, task=task_name, operation_type=operation_type, sample_type=normal)"),
    V("threshold written the other way", "keep", _M, "    elif 10 <= sample_size < 100:", "    elif sample_size >= 10 and sample_size < 100:"),
    # F34 (repaired in rally 9a08e75): the guard of the per-shard aggregates must be on the flattened values
    V("F34 reverted: per-shard aggregates guarded by the list of arrays", "break", _M,
      "        flat_values = [w for v in values for w in v] if values else []\n        # records with an empty per-shard array (shard level of the stats response not available) contribute nothing\n        if flat_values:\n",
      "        if values:\n            flat_values = [w for v in values for w in v]\n", "O8.10"),
    V("F34 equivalent break: guard on the number of records", "break", _M, "        if flat_values:\n            return {\n                \"min\": min(flat_values),", "        if len(values) > 0:\n            return {\n                \"min\": min(flat_values),", "O8.10"),
    V("per-shard median of the first record only", "break", _M, "                \"median\": statistics.median(flat_values),", "                \"median\": statistics.median(values[0]),", "O8.10"),
    V("F34 respelled: explicit length test", "keep", _M, "        if flat_values:\n            return {\n                \"min\": min(flat_values),", "        if len(flat_values) > 0:\n            return {\n                \"min\": min(flat_values),"),
    V("F34 respelled: flatten without the outer emptiness test", "keep", _M, "        flat_values = [w for v in values for w in v] if values else []", "        flat_values = [w for v in values for w in v]"),
    V("F34 respelled: flattening spelt as a loop", "keep", _M, "        flat_values = [w for v in values for w in v] if values else []", "        flat_values = []\n        for v in values:\n            flat_values.extend(v)"),
    V("per-shard max of the last record only", "break", _M, "                \"max\": max(flat_values),", "                \"max\": max(values[-1]),", "O8.10"),
    V("F34 respelled: guard clause and order statistics of the sorted values", "keep", _M,
      "        if flat_values:\n            return {\n                \"min\": min(flat_values),\n                \"median\": statistics.median(flat_values),\n                \"max\": max(flat_values),",
      "        if not any(True for v in values for w in v):\n            return {}\n        ordered = sorted(flat_values)\n        if ordered:\n            return {\n                \"min\": ordered[0],\n                \"median\": statistics.median(ordered),\n                \"max\": ordered[-1],"),
    # ---- hardening round 2: realistic refactorings of the anchored code (decided by running the extracted code on representative values) and defects placed INSIDE the refactored shape
    [V("sorted-values helper extracted from get_stats / get_percentiles (benign b1 shape)", "keep", _M, _GET_STATS_HEAD, "        sorted_values = self._sorted_values(name, task, operation_type, sample_type)\n"),
     V("", "keep", _M, "    def _get(self, name, task, operation_type, sample_type, node_name, mapper):\n        return [",
       "    def _sorted_values(self, name, task, operation_type, sample_type):\n        return sorted(self.get(name, task, operation_type, sample_type))\n\n"
       "    def _get(self, name, task, operation_type, sample_type, node_name, mapper):\n        return [")],
    [V("extracted sorted-values helper forgets the sample type", "break", _M, _GET_STATS_HEAD, "        sorted_values = self._sorted_values(name, task, operation_type, sample_type)\n", "O8.8"),
     V("", "break", _M, "    def _get(self, name, task, operation_type, sample_type, node_name, mapper):\n        return [",
       "    def _sorted_values(self, name, task, operation_type, sample_type):\n        return sorted(self.get(name, task, operation_type))\n\n"
       "    def _get(self, name, task, operation_type, sample_type, node_name, mapper):\n        return [")],
    V("get_percentiles without the sort", "break", _M, "            sorted_values = sorted(values)\n            for percentile in percentiles:", "            sorted_values = values\n            for percentile in percentiles:", "O8.7"),
    V("get_percentiles as a comprehension over the requested percentiles", "keep", _M,
      "        result = collections.OrderedDict()\n        values = self.get(name, task, operation_type, sample_type)\n        if len(values) > 0:\n            sorted_values = sorted(values)\n"
      "            for percentile in percentiles:\n                result[percentile] = self.percentile_value(sorted_values, percentile)\n        return result\n",
      "        ordered = sorted(self.get(name, task, operation_type, sample_type))\n        if not ordered:\n            return collections.OrderedDict()\n"
      "        return collections.OrderedDict((p, self.percentile_value(ordered, p)) for p in percentiles)\n"),
    V("selector as a table scanned in a loop (benign b2 shape)", "keep", _M, _SELECTOR_CHAIN,
      "    table = ((10, (50, 100)), (100, (50, 90, 100)), (1000, (50, 90, 99, 100)), (10000, (50, 90, 99, 99.9, 100)))\n    for upper_bound, percentiles in table:\n"
      "        if sample_size < upper_bound:\n            return list(percentiles)\n    return [50, 90, 99, 99.9, 99.99, 100]\n"),
    V("selector table: one row lacks p100", "break", _M, _SELECTOR_CHAIN,
      "    table = ((10, (50, 100)), (100, (50, 90)), (1000, (50, 90, 99, 100)), (10000, (50, 90, 99, 99.9, 100)))\n    for upper_bound, percentiles in table:\n"
      "        if sample_size < upper_bound:\n            return list(percentiles)\n    return [50, 90, 99, 99.9, 99.99, 100]\n", "O8.2"),
    V("selector table: nothing selected above the last bound", "break", _M, _SELECTOR_CHAIN,
      "    table = ((10, (50, 100)), (100, (50, 90, 100)), (1000, (50, 90, 99, 100)), (10000, (50, 90, 99, 99.9, 100)))\n    for upper_bound, percentiles in table:\n"
      "        if sample_size < upper_bound:\n            return list(percentiles)\n", "O8.2"),
    V("selector by bisect over the thresholds", "keep", _M, _SELECTOR_CHAIN,
      "    sets = ([50, 100], [50, 90, 100], [50, 90, 99, 100], [50, 90, 99, 99.9, 100], [50, 90, 99, 99.9, 99.99, 100])\n"
      "    return list(sets[sum(1 for bound in (10, 100, 1000, 10000) if sample_size >= bound)])\n"),
    V("sample-type name hoisted out of the error-rate loop (benign b4 shape)", "keep", _M, _ER_LOOP,
      "        wanted = sample_type.name.lower() if sample_type is not None else None\n" + _ER_LOOP.replace("sample_type is None or doc[\"sample-type\"] == sample_type.name.lower()", "wanted is None or doc[\"sample-type\"] == wanted")),
    V("hoisted sample-type name computed under a truthiness test (Warmup == 0 selects all samples)", "break", _M, _ER_LOOP,
      "        wanted = sample_type.name.lower() if sample_type else None\n" + _ER_LOOP.replace("sample_type is None or doc[\"sample-type\"] == sample_type.name.lower()", "wanted is None or doc[\"sample-type\"] == wanted"), "O8.6"),
    V("error rate by comprehension and a filter helper", "keep", _M, _ER_LOOP + _ER_TAIL,
      "        matching = [d for d in self.docs if self._is_request_of(d, task, operation_type, sample_type)]\n        if not matching:\n            return 0.0\n"
      "        return sum(1 for d in matching if d[\"meta\"][\"success\"] is False) / len(matching)\n\n    @staticmethod\n    def _is_request_of(doc, task, operation_type, sample_type):\n"
      "        if doc[\"name\"] != \"service_time\" or doc[\"task\"] != task:\n            return False\n        if operation_type is not None and doc[\"operation-type\"] != operation_type:\n            return False\n"
      "        return sample_type is None or doc[\"sample-type\"] == sample_type.name.lower()\n"),
    V("error rate filter helper does not compare the task", "break", _M, _ER_LOOP + _ER_TAIL,
      "        matching = [d for d in self.docs if self._is_request_of(d, task, operation_type, sample_type)]\n        if not matching:\n            return 0.0\n"
      "        return sum(1 for d in matching if d[\"meta\"][\"success\"] is False) / len(matching)\n\n    @staticmethod\n    def _is_request_of(doc, task, operation_type, sample_type):\n"
      "        if doc[\"name\"] != \"service_time\":\n            return False\n        if operation_type is not None and doc[\"operation-type\"] != operation_type:\n            return False\n"
      "        return sample_type is None or doc[\"sample-type\"] == sample_type.name.lower()\n", "O8.6"),
    V("error rate without the empty guard", "break", _M, _ER_TAIL, "        return error / total_count\n", "O8.6"),
    V("percentile_value restructured (position / weight, convex combination)", "keep", _M, _PV_BODY,
      "        position = (len(sorted_values) - 1) * float(percentile) * 0.01\n        below = int(position)\n        weight = position - below\n        if weight == 0:\n"
      "            return sorted_values[below]\n        return sorted_values[below] * (1.0 - weight) + sorted_values[below + 1] * weight\n"),
    V("restructured percentile_value with the weights exchanged", "break", _M, _PV_BODY,
      "        position = (len(sorted_values) - 1) * float(percentile) * 0.01\n        below = int(position)\n        weight = position - below\n        if weight == 0:\n"
      "            return sorted_values[below]\n        return sorted_values[below] * weight + sorted_values[below + 1] * (1.0 - weight)\n", "O8.7"),
    V("get_mean with keyword arguments and a guard clause", "keep", _M, "        stats = self.get_stats(name, task, operation_type, sample_type)\n        return stats[\"avg\"] if stats else None",
      "        s = self.get_stats(name, sample_type=sample_type, task=task, operation_type=operation_type)\n        if s is None:\n            return None\n        return s[\"avg\"]"),
    V("get_mean treats an average of 0 as missing", "break", _M, "        return stats[\"avg\"] if stats else None", "        return stats[\"avg\"] if stats and stats[\"avg\"] else None", "O8.8"),
    # (asking for the numeric 50 instead is NOT behaviour-preserving: Elasticsearch keys its answer by "50.0", the Elasticsearch store's get_median would raise KeyError)
    V("get_median reads the percentile with .get", "keep", _M, "        return percentiles[median] if percentiles else None", "        return percentiles.get(median) if percentiles else None"),
    V("get_median drops the operation type", "break", _M, "        percentiles = self.get_percentiles(name, task, operation_type, sample_type, percentiles=[median])",
      "        percentiles = self.get_percentiles(name, task, None, sample_type, percentiles=[median])", "O8.8"),
    [V("summary queries through a filter dictionary and a helper", "keep", _M, _SUMMARY_QUERIES,
       "        selector = {\"task\": task_name, \"operation_type\": operation_type}\n        normal = dict(selector, sample_type=SampleType.Normal)\n        mean = self.store.get_mean(metric_name, **normal)\n"
       "        median = self.store.get_median(metric_name, **normal)\n        unit = self.store.get_unit(metric_name, **selector)\n        stats = self._normal_stats(metric_name, normal)\n"),
     V("", "keep", _M, "    def shard_stats(self, metric_name):", "    def _normal_stats(self, metric_name, filters):\n        return self.store.get_stats(metric_name, **filters)\n\n    def shard_stats(self, metric_name):")],
    [V("summary helper receives filters without the operation type", "break", _M, _SUMMARY_QUERIES,
       "        selector = {\"task\": task_name, \"operation_type\": operation_type}\n        normal = dict(selector, sample_type=SampleType.Normal)\n        mean = self.store.get_mean(metric_name, **normal)\n"
       "        median = self.store.get_median(metric_name, **normal)\n        unit = self.store.get_unit(metric_name, **selector)\n"
       "        stats = self._normal_stats(metric_name, {\"task\": task_name, \"sample_type\": SampleType.Normal})\n", "O8.1"),
     V("", "break", _M, "    def shard_stats(self, metric_name):", "    def _normal_stats(self, metric_name, filters):\n        return self.store.get_stats(metric_name, **filters)\n\n    def shard_stats(self, metric_name):")],
    V("sample size from a Normal-filtered value query", "keep", _M, "        sample_size = stats[\"count\"] if stats else 0",
      "        sample_size = len(self.store.get(metric_name, task=task, operation_type=operation_type, sample_type=sample_type))"),
    V("percentiles requested for a task without normal samples", "break", _M, "        if sample_size > 0:\n            percentiles = self.store.get_percentiles(", "        if True:\n            percentiles = self.store.get_percentiles(", "O8.1"),
    V("summary min and max exchanged", "break", _M, "                \"min\": stats[\"min\"],\n                \"mean\": mean,", "                \"min\": stats[\"max\"],\n                \"mean\": mean,", "O8.8"),
    V("latency mean dropped when it is 0", "break", _M, "            stats[\"mean\"] = mean\n", "            if mean:\n                stats[\"mean\"] = mean\n", "O8.9"),
    V("op-metrics record built with dict() / update()", "keep", _M, _OP_DOC,
      "        doc = dict(task=task, operation=operation, throughput=throughput, latency=latency)\n        doc[\"service_time\"] = service_time\n"
      "        doc.update({\"processing_time\": processing_time, \"error_rate\": error_rate, \"duration\": duration})\n"),
    V("op-metrics passed by keyword through locals", "keep", _M, _ADD_CALL,
      "                    tput = self.summary_stats(\"throughput\", t, op_type)\n                    svc = self.single_latency(t, op_type, metric_name=\"service_time\")\n"
      "                    result.add_op_metrics(\n                        task=t,\n                        operation=task.operation.name,\n                        throughput=tput,\n"
      "                        service_time=svc,\n                        latency=self.single_latency(t, op_type),\n"
      "                        processing_time=self.single_latency(t, op_type, metric_name=\"processing_time\"),\n                        error_rate=error_rate,\n                        duration=duration,\n"
      "                        meta=self.merge(self.track.meta_data, self.challenge.meta_data, task.operation.meta_data, task.meta_data),\n"),
    V("op-metrics by keyword: latency and processing time exchanged", "break", _M, _ADD_CALL,
      "                    result.add_op_metrics(\n                        task=t,\n                        operation=task.operation.name,\n                        throughput=self.summary_stats(\"throughput\", t, op_type),\n"
      "                        service_time=self.single_latency(t, op_type, metric_name=\"service_time\"),\n                        processing_time=self.single_latency(t, op_type),\n"
      "                        latency=self.single_latency(t, op_type, metric_name=\"processing_time\"),\n                        error_rate=error_rate,\n                        duration=duration,\n"
      "                        meta=self.merge(self.track.meta_data, self.challenge.meta_data, task.operation.meta_data, task.meta_data),\n", "O8.3"),
    V("record key through a helper and a lookup table", "keep", _M, _KEY_METHODS,
      "        return [self._key(v) for v in self.op_metrics]\n\n    @staticmethod\n    def _key(record):\n        return record[\"task\"] if \"task\" in record else record[\"operation\"]\n\n"
      "    def metrics(self, task):\n        by_key = {}\n        for r in self.op_metrics:\n            by_key.setdefault(self._key(r), r)\n        return by_key.get(task)\n"),
    V("record key helper prefers the operation name", "break", _M, _KEY_METHODS,
      "        return [v.get(\"task\", v[\"operation\"]) for v in self.op_metrics]\n\n    @staticmethod\n    def _key(record):\n        return record.get(\"operation\", record.get(\"task\"))\n\n"
      "    def metrics(self, task):\n        by_key = {}\n        for r in self.op_metrics:\n            by_key.setdefault(self._key(r), r)\n        return by_key.get(task)\n", "O8.3"),
    V("results as_dict as a copy of vars(self)", "keep", _M, "    def as_dict(self):\n        return self.__dict__\n", "    def as_dict(self):\n        return {k: v for k, v in vars(self).items()}\n"),
    V("results as_dict leaves the per-task records out", "break", _M, "    def as_dict(self):\n        return self.__dict__\n",
      "    def as_dict(self):\n        return {k: v for k, v in vars(self).items() if k != \"op_metrics\"}\n", "O8.3"),
    V("race results written with update()", "keep", _M, "            d[\"results\"] = self.results.as_dict()", "            d.update(results=self.results.as_dict())"),
    V("race results written without the empty members", "break", _M, "            d[\"results\"] = self.results.as_dict()", "            d.update(results={k: v for k, v in self.results.as_dict().items() if v})", "O8.4"),
    [V("per-shard flattening in a helper", "keep", _M, "        flat_values = [w for v in values for w in v] if values else []\n", "        flat_values = self._flatten(values)\n"),
     V("", "keep", _M, "    def ml_processing_time_stats(self):", "    @staticmethod\n    def _flatten(arrays):\n        flat = []\n        for a in arrays or []:\n            flat += a\n        return flat\n\n    def ml_processing_time_stats(self):")],
    [V("per-shard flattening helper keeps the last array only", "break", _M, "        flat_values = [w for v in values for w in v] if values else []\n", "        flat_values = self._flatten(values)\n", "O8.10"),
     V("", "break", _M, "    def ml_processing_time_stats(self):", "    @staticmethod\n    def _flatten(arrays):\n        flat = []\n        for a in arrays or []:\n            flat = a\n        return flat\n\n    def ml_processing_time_stats(self):")],    # ---- hardening round 3: the per-task calculator methods are taken by ROLE (what feeds which key of the per-task record), not by name; the per-task scope may be a helper
    V("per-task percentile method renamed (benign b7 shape)", "keep", _M, "single_latency", "percentile_stats", count=4),
    V("percentile_value with float.is_integer() and a guard clause (benign b7 shape)", "keep", _M, _PV_BODY,
      "        rank = float(percentile) / 100.0 * (len(sorted_values) - 1)\n        if rank.is_integer():\n            return sorted_values[int(rank)]\n        lower_rank = math.floor(rank)\n"
      "        upper_rank = math.ceil(rank)\n        fraction = rank - lower_rank\n        lower_score = sorted_values[lower_rank]\n        upper_score = sorted_values[upper_rank]\n"
      "        return lower_score + (upper_score - lower_score) * fraction\n"),
    V("guard-clause percentile_value interpolating from the upper neighbour's rank", "break", _M, _PV_BODY,
      "        rank = float(percentile) / 100.0 * (len(sorted_values) - 1)\n        if rank.is_integer():\n            return sorted_values[int(rank)]\n        lower_rank = math.floor(rank)\n"
      "        upper_rank = math.ceil(rank)\n        fraction = upper_rank - rank\n        lower_score = sorted_values[lower_rank]\n        upper_score = sorted_values[upper_rank]\n"
      "        return lower_score + (upper_score - lower_score) * fraction\n", "O8.7"),
    V("summary method renamed (the known finding stays keyed by its role)", "keep", _M, "summary_stats", "throughput_summary", count=2),
    [V("error-rate method renamed", "keep", _M, "self.error_rate(t, op_type)", "self.task_error_rate(t, op_type)"),
     V("", "keep", _M, "    def error_rate(self, task_name, operation_type):", "    def task_error_rate(self, task_name, operation_type):")],
    [V("renamed percentile method queries the warm-up samples", "break", _M, "single_latency", "percentile_stats", "O8.1", count=4),
     V("", "break", _M, "        sample_type = SampleType.Normal\n", "        sample_type = SampleType.Warmup\n")],
    [V("renamed percentile method takes the sample size from all samples", "break", _M, "single_latency", "percentile_stats", "O8.1", count=4),
     V("", "break", _M, "        sample_size = stats[\"count\"] if stats else 0", "        sample_size = len(self.store.get(metric_name, task=task, operation_type=operation_type))")],
    [V("renamed error-rate method drops the operation type", "break", _M, "self.error_rate(t, op_type)", "self.task_error_rate(t, op_type)", "O8.1"),
     V("", "break", _M, "    def error_rate(self, task_name, operation_type):\n        return self.store.get_error_rate(task=task_name, operation_type=operation_type, sample_type=SampleType.Normal)",
       "    def task_error_rate(self, task_name, operation_type):\n        return self.store.get_error_rate(task=task_name, sample_type=SampleType.Normal)")],
    [V("renamed summary method drops the sample type at one query", "break", _M, "summary_stats", "throughput_summary", "O8.1", count=2),
     V("", "break", _M, "        median = self.store.get_median(metric_name, task=task_name, operation_type=operation_type, sample_type=SampleType.Normal)",
       "        median = self.store.get_median(metric_name, task=task_name, operation_type=operation_type)")],
    V("latency field computed by the summary method (no percentiles)", "break", _M, "                        self.single_latency(t, op_type),\n", "                        self.summary_stats(\"latency\", t, op_type),\n", "O8.3"),
    V("error-rate field fed from the duration query", "break", _M, "                        error_rate,\n                        duration,\n", "                        duration,\n                        duration,\n", "O8.3"),
    [V("per-task record assembled in a helper extracted from the loop body", "keep", _M, _TASK_BODY, "                self._add_task_metrics(result, task)\n"),
     V("", "keep", _M, "    def merge(self, *args):", _TASK_HELPER + "    def merge(self, *args):")],
    [V("extracted per-task helper: service time and latency exchanged", "break", _M, _TASK_BODY, "                self._add_task_metrics(result, task)\n", "O8.3"),
     V("", "break", _M, "    def merge(self, *args):", _TASK_HELPER.replace("self.single_latency(t, op_type),\n", "self.single_latency(t, op_type, metric_name=\"service_time\"),\n", 1)
       .replace("self.single_latency(t, op_type, metric_name=\"service_time\"),\n            self.single_latency(t, op_type, metric_name=\"processing_time\")", "self.single_latency(t, op_type),\n            self.single_latency(t, op_type, metric_name=\"processing_time\")") + "    def merge(self, *args):")],
    [V("extracted per-task helper: error rate requested for the operation name", "break", _M, _TASK_BODY, "                self._add_task_metrics(result, task)\n", "O8.1"),
     V("", "break", _M, "    def merge(self, *args):", _TASK_HELPER.replace("error_rate = self.error_rate(t, op_type)", "error_rate = self.error_rate(t, task.operation.name)") + "    def merge(self, *args):")],
    V("percentile function of the in-memory store renamed", "keep", _M, "percentile_value", "interpolated_percentile", count=2),
    [V("renamed percentile function with the interpolation weight inverted", "break", _M, "percentile_value", "interpolated_percentile", "O8.7", count=2),
     V("", "break", _M, "            return lower_score + (higher_score - lower_score) * fr", "            return higher_score + (lower_score - higher_score) * fr")],
    [V("percentile selector renamed", "keep", _M, "percentiles_for_sample_size", "percentiles_for_count", count=2),
     V("", "keep", "esrally/reporter.py", "percentiles_for_sample_size", "percentiles_for_count", count=2)],
    [V("renamed percentile selector with a gap at a threshold", "break", _M, "percentiles_for_sample_size", "percentiles_for_count", "O8.2", count=2),
     V("", "break", "esrally/reporter.py", "percentiles_for_sample_size", "percentiles_for_count", count=2),
     V("", "break", _M, "    elif 100 <= sample_size < 1000:", "    elif 100 < sample_size < 1000:")],
    [V("percentile key encoder renamed", "keep", _M, "encode_float_key", "percentile_key", count=2),
     V("", "keep", "esrally/reporter.py", "encode_float_key", "percentile_key", count=3)],
    [V("renamed percentile key encoder drops the fraction (99.9 and 99.99 share the key of 99)", "break", _M, "encode_float_key", "percentile_key", "O8.2", count=2),
     V("", "break", "esrally/reporter.py", "encode_float_key", "percentile_key", count=3),
     V("", "break", _M, "    return str(float(k)).replace(\".\", \"_\")", "    return str(int(float(k)))")],
    [V("race timestamp and results written through locals", "keep", _M, "        d = {\n            \"rally-version\": self.rally_version,", "        timestamp = time.to_iso8601(self.race_timestamp)\n        d = {\n            \"rally-version\": self.rally_version,"),
     V("", "keep", _M, "            \"race-timestamp\": time.to_iso8601(self.race_timestamp),\n            \"pipeline\"", "            \"race-timestamp\": timestamp,\n            \"pipeline\""),
     V("", "keep", _M, "            d[\"results\"] = self.results.as_dict()", "            results = self.results.as_dict()\n            d[\"results\"] = results")],
    [V("race results through a helper method", "keep", _M, "            d[\"results\"] = self.results.as_dict()\n", "            d[\"results\"] = self._results_dict()\n"),
     V("", "keep", _M, "    def to_result_dicts(self):", "    def _results_dict(self):\n        return self.results.as_dict()\n\n    def to_result_dicts(self):")],
    [V("race results helper returns the per-task records only", "break", _M, "            d[\"results\"] = self.results.as_dict()\n", "            d[\"results\"] = self._results_dict()\n", "O8.4"),
     V("", "break", _M, "    def to_result_dicts(self):", "    def _results_dict(self):\n        return {\"op_metrics\": self.results.as_dict()[\"op_metrics\"]}\n\n    def to_result_dicts(self):")],
    V("race results through a local that drops the empty members", "break", _M, "            d[\"results\"] = self.results.as_dict()",
      "            results = {k: v for k, v in self.results.as_dict().items() if v}\n            d[\"results\"] = results", "O8.4"),
    [V("race timestamp written through a local without the conversion", "break", _M, "        d = {\n            \"rally-version\": self.rally_version,", "        timestamp = self.race_timestamp\n        d = {\n            \"rally-version\": self.rally_version,", "O8.4"),
     V("", "break", _M, "            \"race-timestamp\": time.to_iso8601(self.race_timestamp),\n            \"pipeline\"", "            \"race-timestamp\": timestamp,\n            \"pipeline\"")],
    # ---- the feeds of the per-task record are evaluated for a representative task: what is passed (names, the task object) and where the query is written is all the same
    [V("error-rate method takes the task object", "keep", _M, "                error_rate = self.error_rate(t, op_type)", "                error_rate = self.error_rate(task)"),
     V("", "keep", _M, "    def error_rate(self, task_name, operation_type):\n        return self.store.get_error_rate(task=task_name, operation_type=operation_type, sample_type=SampleType.Normal)",
       "    def error_rate(self, task):\n        return self.store.get_error_rate(task=task.name, operation_type=task.operation.type, sample_type=SampleType.Normal)")],
    [V("error-rate method takes the task object and filters by the operation NAME", "break", _M, "                error_rate = self.error_rate(t, op_type)", "                error_rate = self.error_rate(task)", "O8.1"),
     V("", "break", _M, "    def error_rate(self, task_name, operation_type):\n        return self.store.get_error_rate(task=task_name, operation_type=operation_type, sample_type=SampleType.Normal)",
       "    def error_rate(self, task):\n        return self.store.get_error_rate(task=task.name, operation_type=task.operation.name, sample_type=SampleType.Normal)")],
    [V("error-rate query written in place (one-line method inlined)", "keep", _M, "                error_rate = self.error_rate(t, op_type)",
       "                error_rate = self.store.get_error_rate(task=t, operation_type=op_type, sample_type=SampleType.Normal)"),
     V("", "keep", _M, "    def error_rate(self, task_name, operation_type):\n        return self.store.get_error_rate(task=task_name, operation_type=operation_type, sample_type=SampleType.Normal)\n\n", "")],
    [V("error-rate query written in place without the sample type", "break", _M, "                error_rate = self.error_rate(t, op_type)",
       "                error_rate = self.store.get_error_rate(task=t, operation_type=op_type)", "O8.1"),
     V("", "break", _M, "    def error_rate(self, task_name, operation_type):\n        return self.store.get_error_rate(task=task_name, operation_type=operation_type, sample_type=SampleType.Normal)\n\n", "")],
    V("task loop over enumerate()", "keep", _M, "            for task in tasks:\n                t = task.name", "            for _position, task in enumerate(tasks):\n                t = task.name"),
    [V("one percentile method per time metric over a shared helper", "keep", _M, _THREE_CALLS, _THREE_CALLS_SPLIT),
     V("", "keep", _M, "    def single_latency(self, task, operation_type, metric_name=\"latency\"):", _THREE_DEFS)],
    [V("one percentile method per time metric: two of them exchanged at the call", "break", _M, _THREE_CALLS,
       _THREE_CALLS_SPLIT.replace("self.latency_stats(", "self.TMP(").replace("self.service_time_stats(", "self.latency_stats(").replace("self.TMP(", "self.service_time_stats("), "O8.3"),
     V("", "break", _M, "    def single_latency(self, task, operation_type, metric_name=\"latency\"):", _THREE_DEFS)],
    [V("one percentile method per time metric: one of them asks for the wrong metric", "break", _M, _THREE_CALLS, _THREE_CALLS_SPLIT, "O8.3"),
     V("", "break", _M, "    def single_latency(self, task, operation_type, metric_name=\"latency\"):", _THREE_DEFS.replace("operation_type, \"processing_time\")", "operation_type, \"service_time\")"))],
    V("tasks taken off a work list in a while loop", "keep", _M, "            for task in tasks:\n                t = task.name",
      "            pending = list(tasks)\n            while pending:\n                task = pending.pop(0)\n                t = task.name"),
    V("summary median asked for as the 50th percentile", "keep", _M, "        median = self.store.get_median(metric_name, task=task_name, operation_type=operation_type, sample_type=SampleType.Normal)",
      "        median = self.store.get_percentiles(metric_name, task=task_name, operation_type=operation_type, sample_type=SampleType.Normal, percentiles=[50]).get(50)"),
    V("summary median asked for as the 90th percentile", "break", _M, "        median = self.store.get_median(metric_name, task=task_name, operation_type=operation_type, sample_type=SampleType.Normal)",
      "        median = self.store.get_percentiles(metric_name, task=task_name, operation_type=operation_type, sample_type=SampleType.Normal, percentiles=[90]).get(90)", "O8.8"),
    V("summary median as the 50th percentile of all sample types", "break", _M, "        median = self.store.get_median(metric_name, task=task_name, operation_type=operation_type, sample_type=SampleType.Normal)",
      "        median = self.store.get_percentiles(metric_name, task=task_name, operation_type=operation_type, percentiles=[50]).get(50)", "O8.1"),
    # ---- strengthening round 5 (seeded m14 / m15): the Elasticsearch metrics store and the race file store are RUN against models of their environment
    [V("seed m15: error-rate search lost the sample-type filter in a call-site clean-up", "break", _M, "    def _query_by_name(self, name, task, operation_type, sample_type, node_name):",
       "    def _query_by_name(self, name, task=None, operation_type=None, sample_type=None, node_name=None):", "O8.11"),
     V("", "break", _M, "            \"query\": self._query_by_name(\"service_time\", task, operation_type, sample_type, None),", "            \"query\": self._query_by_name(\"service_time\", task, operation_type),")],
    V("Elasticsearch statistics search ignores the operation type", "break", _M, "            \"query\": self._query_by_name(name, task, operation_type, sample_type, None),\n            \"size\": 0,\n            \"aggs\": {\n                \"metric_stats\"",
      "            \"query\": self._query_by_name(name, task, None, sample_type, None),\n            \"size\": 0,\n            \"aggs\": {\n                \"metric_stats\"", "O8.11"),
    V("Elasticsearch sample-type term not lower-cased (matches no stored record)", "break", _M,
      "                    \"term\": {\n                        \"sample-type\": sample_type.name.lower(),", "                    \"term\": {\n                        \"sample-type\": sample_type.name,", "O8.11"),
    V("Elasticsearch searches filter by the task in the operation-type term", "break", _M, "                        \"operation-type\": operation_type,", "                        \"operation-type\": task,", "O8.11"),
    V("Elasticsearch searches are not restricted to the race", "break", _M,
      "                \"filter\": [\n                    {\n                        \"term\": {\n                            \"race-id\": self._race_id,\n                        },\n                    },\n                    {\n                        \"term\": {\n                            \"name\": name,",
      "                \"filter\": [\n                    {\n                        \"term\": {\n                            \"environment\": \"e\",\n                        },\n                    },\n                    {\n                        \"term\": {\n                            \"name\": name,", "O8.11"),
    V("Elasticsearch error rate divides by the successful requests", "break", _M, "            return count_errors / (count_errors + count_success)", "            return count_errors / count_success", "O8.11"),
    [V("Elasticsearch query builder with defaults, call sites without trailing None (the behaviour-preserving part of m15)", "keep", _M, "    def _query_by_name(self, name, task, operation_type, sample_type, node_name):",
       "    def _query_by_name(self, name, task=None, operation_type=None, sample_type=None, node_name=None):"),
     V("", "keep", _M, "            \"query\": self._query_by_name(\"service_time\", task, operation_type, sample_type, None),", "            \"query\": self._query_by_name(\"service_time\", task, operation_type, sample_type=sample_type),"),
     V("", "keep", _M, "            \"query\": self._query_by_name(name, task, None, sample_type, node_name),", "            \"query\": self._query_by_name(name, task, sample_type=sample_type, node_name=node_name),")],
    V("Elasticsearch error rate over the total", "keep", _M, "        if count_errors == 0:\n            return 0.0\n        elif count_success == 0:\n            return 1.0\n        else:\n            return count_errors / (count_errors + count_success)",
      "        total = count_errors + count_success\n        return count_errors / total if total else 0.0"),
    V("Elasticsearch optional terms appended from a table", "keep", _M,
      "        if task:\n            q[\"bool\"][\"filter\"].append(\n                {\n                    \"term\": {\n                        \"task\": task,\n                    },\n                },\n            )\n"
      "        if operation_type:\n            q[\"bool\"][\"filter\"].append(\n                {\n                    \"term\": {\n                        \"operation-type\": operation_type,\n                    },\n                },\n            )\n",
      "        for field, wanted in ((\"task\", task), (\"operation-type\", operation_type)):\n            if wanted:\n                q[\"bool\"][\"filter\"] += [{\"term\": {field: wanted}}]\n"),
    V("seed m14: race file looked up through glob (wildcard characters of the id are read as a pattern)", "break", _M,
      "        race_file = self._race_file(race_id=race_id)\n        if io.exists(race_file):\n            races = self._to_races([race_file])\n            if races:\n                return races[0]\n",
      "        races = self._to_races(glob.glob(self._race_file(race_id=race_id)))\n        if races:\n            return races[0]\n", "O8.12"),
    V("race file looked up under the lower-cased id", "break", _M, "        race_file = self._race_file(race_id=race_id)\n", "        race_file = self._race_file(race_id=race_id.lower())\n", "O8.12"),
    V("race written to another file name than the one read back", "break", _M, "        with open(self._race_file(), mode=\"w\", encoding=\"utf-8\") as f:", "        with open(os.path.join(race_path, \"results.json\"), mode=\"w\", encoding=\"utf-8\") as f:", "O8.12"),
    V("list() only finds ids with a dash", "break", _M, "        results = glob.glob(self._race_file(race_id=\"*\"))", "        results = glob.glob(self._race_file(race_id=\"*-*\"))", "O8.12"),
    V("race file looked up by the first stored id the requested id is a prefix of", "break", _M,
      "        race_file = self._race_file(race_id=race_id)\n        if io.exists(race_file):\n",
      "        candidates = [c for c in sorted(os.listdir(paths.races_root(self.cfg))) if c.startswith(race_id)]\n        race_file = self._race_file(race_id=candidates[0] if candidates else race_id)\n        if io.exists(race_file):\n", "O8.12"),
    V("race file looked up through glob with the id escaped", "keep", _M,
      "        race_file = self._race_file(race_id=race_id)\n        if io.exists(race_file):\n            races = self._to_races([race_file])\n            if races:\n                return races[0]\n",
      "        races = self._to_races(glob.glob(glob.escape(self._race_file(race_id=race_id))))\n        if races:\n            return races[0]\n"),
    V("race file existence tested with os.path.isfile in a guard clause", "keep", _M,
      "        race_file = self._race_file(race_id=race_id)\n        if io.exists(race_file):\n            races = self._to_races([race_file])\n            if races:\n                return races[0]\n",
      "        race_file = os.path.join(paths.race_root(self.cfg, race_id), \"race.json\")\n        if not os.path.isfile(race_file):\n            raise exceptions.NotFound(f\"No race with race id [{race_id}]\")\n"
      "        for race in self._to_races([race_file]):\n            return race\n"),
    V("race file written with json.dump and read with json.load (benign b3 shape)", "keep", _M, "            f.write(json.dumps(doc, indent=True, ensure_ascii=False))", "            json.dump(doc, f, indent=True, ensure_ascii=False)"),
    # O8.13: the coordinator's end-of-benchmark routine (seeds m17, m18)
    V("seed m17: no flush / refresh before the results are calculated", "break", _RC, "        self.metrics_store.bulk_add(new_metrics)\n        self.metrics_store.flush()\n", "        self.metrics_store.bulk_add(new_metrics)\n", "O8.13"),
    V("final flush without a refresh", "break", _RC, "        self.metrics_store.bulk_add(new_metrics)\n        self.metrics_store.flush()\n", "        self.metrics_store.bulk_add(new_metrics)\n        self.metrics_store.flush(refresh=False)\n", "O8.13"),
    V("flush before the final bulk is added", "break", _RC, "        self.metrics_store.bulk_add(new_metrics)\n        self.metrics_store.flush()\n", "        self.metrics_store.flush()\n        self.metrics_store.bulk_add(new_metrics)\n", "O8.13"),
    V("flush only after the results were calculated", "break", _RC, "        self.metrics_store.flush()\n        if not self.cancelled and not self.error:\n            final_results = metrics.calculate_results(self.metrics_store, self.race)\n",
      "        if not self.cancelled and not self.error:\n            final_results = metrics.calculate_results(self.metrics_store, self.race)\n            self.metrics_store.flush()\n", "O8.13"),
    V("seed m18: race stored before the results are attached", "break", _RC, "            self.race.add_results(final_results)\n            self.race_store.store_race(self.race)\n",
      "            self.race_store.store_race(self.race)\n            self.race.add_results(final_results)\n", "O8.13"),
    V("results never attached to the race", "break", _RC, "            self.race.add_results(final_results)\n", "", "O8.13"),
    V("race not stored again after the results were calculated", "break", _RC, "            self.race.add_results(final_results)\n            self.race_store.store_race(self.race)\n", "            self.race.add_results(final_results)\n", "O8.13"),
    V("results attached only after the results store received the race", "break", _RC, "            self.race.add_results(final_results)\n            self.race_store.store_race(self.race)\n            metrics.results_store(self.cfg).store_results(self.race)\n",
      "            metrics.results_store(self.cfg).store_results(self.race)\n            self.race.add_results(final_results)\n            self.race_store.store_race(self.race)\n", "O8.13"),
    V("explicit refresh=True, results under another local name", "keep", _RC, "        self.metrics_store.flush()\n        if not self.cancelled and not self.error:\n            final_results = metrics.calculate_results(self.metrics_store, self.race)\n            self.race.add_results(final_results)\n",
      "        self.metrics_store.flush(refresh=True)\n        if not self.cancelled and not self.error:\n            final_results = results = metrics.calculate_results(self.metrics_store, self.race)\n            self.race.add_results(results)\n", "O8.13"),
    V("store and race handed to the calculation through locals", "keep", _RC, "            final_results = metrics.calculate_results(self.metrics_store, self.race)\n",
      "            store, race = self.metrics_store, self.race\n            final_results = metrics.calculate_results(store, race)\n", "O8.13"),
    V("flush without a refresh followed by a flush with one before the calculation", "keep", _RC, "        self.metrics_store.bulk_add(new_metrics)\n        self.metrics_store.flush()\n", "        self.metrics_store.bulk_add(new_metrics)\n        self.metrics_store.flush(refresh=False)\n        self.metrics_store.flush()\n", "O8.13"),
    V("results store served before the race store (both after add_results)", "keep", _RC, "            self.race_store.store_race(self.race)\n            metrics.results_store(self.cfg).store_results(self.race)\n",
      "            metrics.results_store(self.cfg).store_results(self.race)\n            self.race_store.store_race(self.race)\n", "O8.13"),
    [V("calculation and storing extracted into a helper of the coordinator", "keep", _RC, "            final_results = metrics.calculate_results(self.metrics_store, self.race)\n            self.race.add_results(final_results)\n            self.race_store.store_race(self.race)\n",
       "            final_results = self._results()\n"),
     V("calculation and storing extracted into a helper of the coordinator", "keep", _RC, "    def on_task_finished(self, new_metrics):\n",
       "    def _results(self):\n        r = metrics.calculate_results(self.metrics_store, self.race)\n        self.race.add_results(r)\n        self.race_store.store_race(self.race)\n        return r\n\n    def on_task_finished(self, new_metrics):\n")],
    [V("flush moved into a helper that skips the refresh", "break", _RC, "        self.metrics_store.bulk_add(new_metrics)\n        self.metrics_store.flush()\n", "        self._take(new_metrics)\n", "O8.13"),
     V("flush moved into a helper that skips the refresh", "break", _RC, "    def on_task_finished(self, new_metrics):\n",
       "    def _take(self, m):\n        self.metrics_store.bulk_add(m)\n        self.metrics_store.flush(False)\n\n    def on_task_finished(self, new_metrics):\n", "O8.13")],
]
