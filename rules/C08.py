"""C08 — race results are correct statistics of the normal samples and survive storage (DESIGN.md section 4, C08)."""
from __future__ import annotations

import ast
import statistics

from sa import pat as P
from sa import source
from sa.cfg import cfg_of, guards
from sa.minieval import CannotEval, Record, ev
from sa.source import AnchorMissing, arg_of, bind_args, dotted, is_self_attr, last_attr, local_defs, params_of, short, u, walk_body
from sa.sym import UnknownAtom, atoms_of, comparison, parse_expr, rat_equal
from sa.tables import Outcome, Unsupported, decide

_M = "esrally/metrics.py"

REQUEST_QUERIES = {"get_stats", "get_mean", "get_median", "get_percentiles", "get_error_rate", "get", "get_raw", "get_one"}
COUNTS = [1, 2, 5, 9, 10, 50, 99, 100, 500, 999, 1000, 5000, 9999, 10000, 10**6]


def record_key_agreement(chk, rid, met):
    """GlobalStats.tasks() lists, and GlobalStats.metrics(task) selects by, the SAME record key: the task name, falling back to the operation name (shared with C20:
    the comparison pairs the records of both races through these two)."""
    from sa import pat
    gsm = met.methods(met.cls("GlobalStats"))
    mt, tk = gsm.get("metrics"), gsm.get("tasks")
    if mt is None or tk is None:
        raise AnchorMissing("GlobalStats.metrics / GlobalStats.tasks")
    keyexprs = []
    for f in (mt, tk):
        for n in ast.walk(f):
            if isinstance(n, ast.Call) and last_attr(n.func) == "get" and n.args and source.is_const(n.args[0], "task"):
                keyexprs.append((f.name, n))
    ok = len(keyexprs) == 2 and all(len(n.args) == 2 and isinstance(n.args[1], ast.Subscript) and source.is_const(n.args[1].slice, "operation") for _, n in keyexprs)
    chk.ob(rid, "tasks() and metrics() use the same record key: task name, else operation", ok, mt, f"{[(f_, u(n)) for f_, n in keyexprs]}", key="esrally/metrics.py:GlobalStats:record-key")
    tp = params_of(mt)[1]
    rets = [n for n in walk_body(mt) if isinstance(n, ast.Return) and not (isinstance(n.value, ast.Constant) and n.value.value is None)]
    ok = bool(rets) and all(pat.guarded(r, f"E_rec.get('task', E_rec['operation']) == {tp}") is not None and len(pat.fact_nodes(r)) == 1 for r in rets)
    chk.ob(rid, "metrics(task) returns the record whose key EQUALS the requested task (no other match rule)", ok, rets[0] if rets else mt,
           f"selected under {[u(f_) for r in rets for f_ in pat.fact_nodes(r)]}", key="esrally/metrics.py:GlobalStats.metrics:equality")


def _loop_var(node):
    """name bound by the innermost `for` enclosing node (None if there is none / it unpacks a tuple)."""
    lp = source.enclosing(node, ast.For)
    return lp.target.id if lp is not None and isinstance(lp.target, ast.Name) else None


def _il(e, defs):
    """text of e with the single-assignment locals replaced by their definitions (None stays None): names are compared by what they hold, not by how they are spelt."""
    return u(source.inline_node(e, defs)) if e is not None else None


class _WouldRaise(Exception):
    """the extracted expression, evaluated on the representative value, raises at run time (an aggregate over / an index into an empty sequence)."""


_AGGREGATES = {"min": min, "max": max, "sum": sum, "statistics.median": statistics.median, "statistics.median_low": statistics.median_low, "statistics.median_high": statistics.median_high,
               "statistics.mean": statistics.mean, "statistics.fmean": statistics.fmean}


def _sev(e, env):
    """local extension of minieval.ev for statistics records (minieval folds `min([])` into CannotEval and does not know the statistics module): a one-argument aggregate call and a
    constant index are evaluated here and report the exception Python raises on an empty / too short sequence as _WouldRaise; everything else is left to ev."""
    if isinstance(e, ast.Call) and dotted(e.func) in _AGGREGATES and len(e.args) == 1 and not e.keywords:
        v = _sev(e.args[0], env)
        if not isinstance(v, (list, tuple)):
            raise CannotEval(f"{u(e)[:60]}: argument is not a sequence")
        if len(v) == 0 and dotted(e.func) != "sum":
            raise _WouldRaise(f"`{u(e)}` is evaluated on an empty sequence ({'StatisticsError' if dotted(e.func).startswith('statistics.') else 'ValueError'})")
        try:
            return _AGGREGATES[dotted(e.func)](v)
        except (TypeError, ValueError, statistics.StatisticsError) as x:
            raise CannotEval(f"{u(e)[:60]}: {type(x).__name__}")
    if isinstance(e, ast.Subscript) and not isinstance(e.slice, ast.Slice):
        v, k = _sev(e.value, env), _sev(e.slice, env)
        if isinstance(v, (list, tuple)) and isinstance(k, int) and not isinstance(k, bool) and not -len(v) <= k < len(v):
            raise _WouldRaise(f"`{u(e)}` indexes a sequence of length {len(v)} (IndexError)")
    return ev(e, env)


def _collect(loop, env):
    """run `for <name> in <evaluable>: <list>.append(e) | <list>.extend(e) | <list> += e | <such a loop>` on the values in env (tables.decide does not interpret loops);
    False (env untouched) when the loop is of any other shape or something in it is not evaluable."""
    trial = {k: (list(v) if isinstance(v, list) else v) for k, v in env.items()}

    def run_(lp, e_):
        if not isinstance(lp.target, ast.Name) or lp.orelse:
            return False
        it = _sev(lp.iter, e_)
        if not isinstance(it, (list, tuple)):
            return False
        for item in it:
            e_[lp.target.id] = item
            for st in lp.body:
                if isinstance(st, ast.For):
                    if not run_(st, e_):
                        return False
                    continue
                if isinstance(st, ast.Expr) and isinstance(st.value, ast.Call) and isinstance(st.value.func, ast.Attribute) and isinstance(st.value.func.value, ast.Name) \
                        and st.value.func.attr in ("append", "extend") and len(st.value.args) == 1 and not st.value.keywords:
                    tgt, how, val = st.value.func.value.id, st.value.func.attr, st.value.args[0]
                elif isinstance(st, ast.AugAssign) and isinstance(st.op, ast.Add) and isinstance(st.target, ast.Name):
                    tgt, how, val = st.target.id, "extend", st.value
                else:
                    return False
                v = _sev(val, e_)
                if not isinstance(e_.get(tgt), list) or (how == "extend" and not isinstance(v, (list, tuple))):
                    return False
                e_[tgt] = e_[tgt] + ([v] if how == "append" else list(v))
        return True

    try:
        if not run_(loop, trial):
            return False
    except (CannotEval, _WouldRaise):
        return False
    env.update(trial)
    return True


# per-shard arrays of the records of one index-time metric (docs/metrics.rst: "per-shard contains the times across primary shards in an array"; telemetry.IndexStats stores
# `[]` when the shard level of the index-stats response cannot be walked)
SHARD_CASES = [
    ("no-record", []),
    ("one-empty-array", [[]]),
    ("two-empty-arrays", [[], []]),
    ("one-shard", [[3]]),
    ("two-records", [[1], [2, 3]]),
    ("three-records", [[5, 9], [2], [4]]),
    ("empty-and-filled", [[], [7, 5]]),
    ("even-count", [[4, 4, 9, 1]]),
]


def per_shard_statistics(chk, rid, met, calc_cls):
    """Every calculator method that queries the `per-shard` arrays of a metric is evaluated (its own tests and expressions, on representative record sets; nothing of the repository
    is called): it returns for every record set, with min/median/max of ALL per-shard values when there are any and without numbers when there are none."""
    sites = []
    for f in met.methods(calc_cls).values():
        for c in source.calls_in(f):
            if isinstance(c.func, ast.Attribute) and is_self_attr(c.func.value, "store") and c.func.attr == "get_raw":
                mp = arg_of(c, 5, "mapper")
                mp = local_defs(f).get(mp.id, mp) if isinstance(mp, ast.Name) else mp
                if isinstance(mp, ast.Lambda) and any(isinstance(x, ast.Subscript) and source.is_const(x.slice, "per-shard") for x in ast.walk(mp.body)):
                    sites.append((f, c, mp))
    if not sites:
        raise AnchorMissing("GlobalStatsCalculator method querying the `per-shard` arrays (self.store.get_raw(..., mapper=lambda doc: doc['per-shard']))")
    RAW = "__raw__"
    for f, call, mp in sites:
        mpar = params_of(mp)
        if len(mpar) != 1:
            raise AnchorMissing(f"one-parameter record mapper in GlobalStatsCalculator.{f.name}")
        call_text = u(call)

        class _Raw(ast.NodeTransformer):
            """the store query is the only thing this evaluation cannot compute: it stands for the representative list of mapped records."""

            def visit_Call(self, n):
                if u(n) == call_text:
                    return ast.Name(id=RAW, ctx=ast.Load())
                return self.generic_visit(n)

        def raw_in(e):
            return _Raw().visit(source.clone(e))

        for label, arrays in SHARD_CASES:
            recs = [{"name": "indexing_total_time", "value": sum(a), "unit": "ms", "per-shard": list(a)} for a in arrays]
            flat = [w for a in arrays for w in a]
            want = {"min": min(flat), "median": statistics.median(flat), "max": max(flat)} if flat else {"min": None, "median": None, "max": None}
            key = f"{_M}:GlobalStatsCalculator.{f.name}:per-shard:{label}"
            inst = f"{f.name}: per-shard arrays {arrays} -> {'min/median/max of ' + str(sorted(flat)) if flat else 'no per-shard statistics (and no exception)'}"
            try:
                env = {RAW: [ev(mp.body, {mpar[0]: r}) for r in recs]}
            except CannotEval as x:
                chk.unknown(rid, f"record mapper of {f.name} is not evaluable on a per-shard record: {x}", mp)
                break
            raised = []

            def on_stmt(s, env_, b):
                # plain assignments are computed on the representative value; what cannot be computed (another store query: the unit) stays symbolic
                if isinstance(s, ast.Assign) and len(s.targets) == 1 and isinstance(s.targets[0], ast.Name):
                    nm = s.targets[0].id
                    try:
                        env_[nm] = _sev(raw_in(s.value), env_)
                        b.pop(nm, None)
                        return "skip"
                    except _WouldRaise as x:
                        raised.append(str(x))
                        return Outcome("raise", None, node=s)
                    except CannotEval:
                        env_.pop(nm, None)
                # a loop that only collects values into a list (the spelt-out form of the flattening comprehension) is run on the representative value
                if isinstance(s, ast.For) and not s.orelse and _collect(s, env_):
                    return "skip"
                return None

            def atom(n, env_):
                try:
                    return bool(_sev(raw_in(n), env_))
                except CannotEval:
                    return None

            try:
                out = decide(f.body, atom, env, on_stmt=on_stmt)
                got = None
                if out.kind == "return" and out.value is not None and not raised:
                    rv = raw_in(out.value)
                    if isinstance(rv, ast.Dict) and all(isinstance(k, ast.Constant) for k in rv.keys):
                        # a record literal: only the three statistics are interpreted (the unit comes from another store query)
                        got = {k.value: _sev(v, env) for k, v in zip(rv.keys, rv.values) if k.value in want}
                    else:
                        got = _sev(rv, env)
                elif out.kind in ("return", "fallthrough") and not raised:
                    got = {}
                if raised or out.kind == "raise":
                    ok, detail = False, (raised[0] if raised else out.text()) + ": the exception aborts the whole result calculation"
                elif got is None or isinstance(got, dict):
                    got = {k: (got or {}).get(k) for k in want}
                    ok = got == want and all((got[k] is None) == (want[k] is None) for k in want)
                    detail = "" if ok else f"result {got}, expected {want}"
                else:
                    ok, detail = False, f"result {got!r} is not a statistics record"
            except _WouldRaise as x:
                ok, detail = False, f"{x}: the exception aborts the whole result calculation"
            except (Unsupported, UnknownAtom, CannotEval) as x:
                chk.unknown(rid, f"{f.name} is not decidable on the per-shard arrays {arrays}: {x}", f)
                continue
            chk.ob(rid, inst, ok, f, detail, key=key)


def run(chk):
    repo = chk.repo
    met = repo.module(_M)
    chk.use(met, "docs/summary_report.rst", "docs/metrics.rst")
    chk.explanation = (
        "Decides result assembly by shape: every request-metric query of the results calculator passes the Normal sample type and both task and operation type; the sample size that selects "
        "the percentile set derives from a Normal-filtered query; the percentile selector evaluated over 15 boundary counts is a total, monotone function of the count (ends with 100, "
        "contains 50 for counts > 1); attribute/key agreement between calculator, results class and op-metrics records; Race.as_dict/from_dict key and positional agreement; the in-memory "
        "percentile equals the documented linear interpolation (formula identity); stats come from the sorted filtered values; error rate == failed/all over the task's Normal "
        "service_time records; optional statistics are never tested by truthiness (known finding F11); the per-shard statistics method, evaluated on 8 representative sets of per-shard "
        "arrays (none / only empty / mixed / several records), returns for each of them, with min/median/max of all per-shard values or without numbers (F34)."
    )
    chk.not_decided = "floating-point behaviour of the interpolation, the ES-backed store's aggregations, loss-freeness of JSON number round-trips."
    GC = met.cls("GlobalStatsCalculator")
    gm = met.methods(GC)
    GS = met.cls("GlobalStats")
    gsm = met.methods(GS)
    IM = met.cls("InMemoryMetricsStore")
    im = met.methods(IM)

    # ---- O8.1 normal-only -----------------------------------------------------------------------------------------------------------------
    chk.rule("O8.1", "every statistics query issued by the results calculator for request metrics passes the Normal sample type and filters by task and operation type; the sample size that "
             "selects the percentile set comes from a Normal-filtered query", 9,
             "any task with warm-up (warm-up samples enter the results / the percentile set) or a composite task (sub-request records of another operation type enter the error rate)")
    for mname in ("summary_stats", "single_latency", "error_rate"):
        f = gm.get(mname)
        if f is None:
            raise AnchorMissing(f"GlobalStatsCalculator.{mname}")
        fdefs = local_defs(f)
        fp = params_of(f)
        for c in source.calls_in(f):
            if isinstance(c.func, ast.Attribute) and is_self_attr(c.func.value, "store") and c.func.attr in REQUEST_QUERIES:
                st = arg_of(c, None, "sample_type")
                stv = source.inline_node(st, fdefs) if st is not None else None
                ok = stv is not None and u(stv) == "SampleType.Normal"
                chk.ob("O8.1", f"{mname}: {c.func.attr}(...) passes the Normal sample type", ok, c, f"sample_type={u(st) if st is not None else 'not passed (all sample types)'}", key=f"{_M}:GlobalStatsCalculator.{mname}:{c.func.attr}:normal")
                tk = arg_of(c, None, "task")
                ot = arg_of(c, None, "operation_type")
                ok = tk is not None and u(tk) in fp and ot is not None and u(ot) in fp and "operation_type" in u(ot)
                chk.ob("O8.1", f"{mname}: {c.func.attr}(...) filters by task and operation type", ok, c, f"task={u(tk) if tk is not None else None} operation_type={u(ot) if ot is not None else 'not passed'}",
                       key=f"{_M}:GlobalStatsCalculator.{mname}:{c.func.attr}:filters")
    sl = gm["single_latency"]
    sdefs = local_defs(sl)
    pf = [c for c in source.calls_in(sl) if last_attr(c.func) == "percentiles_for_sample_size"]
    ok = False
    detail = "percentiles_for_sample_size not called"
    if pf:
        # `stats` is re-bound later in the method: use the binding that reaches the sample size (nearest preceding assignment)
        sdefs2 = dict(sdefs)
        ssz = [n for n in walk_body(sl) if isinstance(n, ast.Assign) and u(n.targets[0]) == u(pf[0].args[0])]
        if ssz:
            for nm in {x.id for x in ast.walk(ssz[0].value) if isinstance(x, ast.Name)} - set(sdefs2):
                prev = [n for n in walk_body(sl) if isinstance(n, ast.Assign) and u(n.targets[0]) == nm and n.lineno < ssz[0].lineno]
                if prev:
                    sdefs2[nm] = max(prev, key=lambda n: n.lineno).value
        a = source.inline_node(pf[0].args[0], sdefs2)
        # stats['count'] if stats else 0 with stats from get_stats(Normal)
        srcs = [x for x in ast.walk(a) if isinstance(x, ast.Call) and isinstance(x.func, ast.Attribute) and is_self_attr(x.func.value, "store")]
        ok = bool(srcs) and all(x.func.attr == "get_stats" and u(source.inline_node(arg_of(x, None, "sample_type"), sdefs2)) == "SampleType.Normal" for x in srcs if arg_of(x, None, "sample_type") is not None) \
            and all(arg_of(x, None, "sample_type") is not None for x in srcs) and "'count'" in u(a)
        detail = f"sample size = {short(a, 110)}"
    chk.ob("O8.1", "percentile set selected by the NORMAL sample count", ok, pf[0] if pf else sl, detail)
    call = gm["__call__"]
    erc = [c for c in source.calls_in(call) if u(c.func) == "self.error_rate"]
    cdefs = local_defs(call)
    ok = False
    detail = "self.error_rate(...) not called"
    if erc:
        # by role: both arguments (followed through the locals that hold them) are read off the task the enclosing loop iterates over
        lv = _loop_var(erc[0])
        ep = params_of(gm["error_rate"])[1:]
        eb = bind_args(erc[0], gm["error_rate"])
        got = [_il(eb.get(p_), cdefs) for p_ in ep]
        ok = lv is not None and len(ep) == 2 and len(erc[0].args) + len(erc[0].keywords) == 2 and got == [f"{lv}.name", f"{lv}.operation.type"]
        detail = f"error_rate({', '.join(str(g) for g in got)}) in the loop over `{lv}`"
    chk.ob("O8.1", "error rate requested for (task name, operation type)", ok, erc[0] if erc else call, detail)

    # ---- O8.2 percentile selector ------------------------------------------------------------------------------------------------------------------
    chk.rule("O8.2", "the percentile set is a function of the count only: total over [1, inf) (15 boundary counts), every list ends with 100 and contains 50 for counts > 1, sets grow monotonically; count < 1 raises", 17,
             "a sample count at a threshold (10, 100, ...) gets no / the wrong percentile set")
    ps = met.func("percentiles_for_sample_size")
    p0 = params_of(ps)[0]
    from sa.classes import is_logging_stmt
    names = {x.id for st_ in ast.walk(ps) if isinstance(st_, ast.stmt) and not is_logging_stmt(st_) and not isinstance(st_, (ast.FunctionDef, ast.If, ast.For, ast.While, ast.With, ast.Try))
             for x in ast.walk(st_) if isinstance(x, ast.Name)} | {x.id for st_ in ast.walk(ps) if isinstance(st_, (ast.If, ast.While)) for x in ast.walk(st_.test) if isinstance(x, ast.Name)}
    names -= {p0, "AssertionError"}
    chk.ob("O8.2", "reads nothing but its parameter", not names, ps, f"other names: {sorted(names)}" if names else "")
    prev = None
    seen_lists = []
    for cnt in [0] + COUNTS:
        def atom(n, env):
            try:
                return bool(ev(n, {p0: cnt}))
            except CannotEval:
                return None

        try:
            out = decide(ps.body, atom, {})
        except (Unsupported, UnknownAtom) as e:
            chk.unknown("O8.2", f"selector is not a decision over comparisons of the count: {e}", ps)
            break
        if cnt < 1:
            chk.ob("O8.2", "count < 1 raises", out.kind == "raise", ps, out.text())
            continue
        ok = out.kind == "return" and isinstance(out.value, (ast.List, ast.Tuple)) and all(isinstance(e_, ast.Constant) for e_ in out.value.elts)
        vals = [e_.value for e_ in out.value.elts] if ok else None
        good = ok and vals[-1] == 100 and vals == sorted(vals) and (cnt == 1 or 50 in vals) and (prev is None or set(prev) <= set(vals))
        chk.ob("O8.2", f"count {cnt} -> {vals}", bool(good), ps, "" if good else "missing / not ending with 100 / lacks 50 / not monotone", key=f"{_M}:percentiles_for_sample_size:{cnt}")
        prev = vals if ok else prev
        if ok:
            seen_lists.append(vals)

    # the key under which a percentile is stored and looked up must tell the percentiles apart (writer and both reporters use the same encoder)
    enc = met.func("encode_float_key")
    allp = sorted({v for vs in seen_lists for v in vs}) if seen_lists else []
    er = [n for n in walk_body(enc) if isinstance(n, ast.Return)]
    if len(er) == 1 and allp:
        try:
            keys = {p_: ev(er[0].value, {params_of(enc)[0]: p_}) for p_ in allp}
            inj = len(set(keys.values())) == len(allp) and all(isinstance(k_, str) and "." not in k_ for k_ in keys.values())
            clash = sorted(p_ for p_ in allp if list(keys.values()).count(keys[p_]) > 1)
            chk.ob("O8.2", "percentile keys are distinct (and dot-free) over the whole percentile table", inj, enc,
                   f"{keys}" + ("" if inj else f" — {clash} share a key: the later one overwrites the earlier and a percentile is lost / reported with the wrong value"),
                   key=f"{_M}:encode_float_key:injective")
        except CannotEval as e:
            chk.unknown("O8.2", f"percentile key encoder is not evaluable over the percentile table: {e}", enc)
    else:
        chk.unknown("O8.2", "percentile key encoder has no single return expression", enc)
    uses = [c for c in source.package_calls(repo, "encode_float_key")]
    chk.ob("O8.2", "percentile keys are written and read through the same encoder", len(uses) >= 3, enc, f"{len(uses)} call site(s)")

    # ---- O8.3 attribute / key agreement ------------------------------------------------------------------------------------------------------------------
    chk.rule("O8.3", "results class: each attribute is initialised from the key of the same name; as_dict exposes exactly those attributes; every attribute the calculator assigns exists there; "
             "op-metrics records are built from the parameters of the same name and looked up by task name (falling back to the operation only for records without a task)", 55,
             "a metric is written under one name and read back under another (or from another task's record): compare / list show None or the wrong task's numbers")
    ginit = gsm["__init__"]
    attrs = {}
    for n in walk_body(ginit):
        if isinstance(n, ast.Assign) and is_self_attr(n.targets[0]) and isinstance(n.value, ast.Call) and u(n.value.func) == "self.v":
            key = n.value.args[1].value if len(n.value.args) > 1 and isinstance(n.value.args[1], ast.Constant) else None
            attrs[n.targets[0].attr] = key
            chk.ob("O8.3", f"GlobalStats.{n.targets[0].attr} <- key '{key}'", key == n.targets[0].attr, n, "", key=f"{_M}:GlobalStats.__init__:{n.targets[0].attr}")
    ad = gsm.get("as_dict")
    ok = ad is not None and any(isinstance(n, ast.Return) and u(n.value) in ("self.__dict__", "vars(self)", "dict(self.__dict__)") for n in walk_body(ad))
    chk.ob("O8.3", "as_dict exposes the instance attributes", ok, ad if ad is not None else GS, "")
    other_attr = [n for m in gsm.values() if m.name != "__init__" for n in walk_body(m) if isinstance(n, ast.Assign) and is_self_attr(n.targets[0])]
    chk.ob("O8.3", "no attribute created outside __init__ (as_dict == the declared set)", not other_attr, other_attr[0] if other_attr else GS, "")
    rv = [n for n in walk_body(call) if isinstance(n, ast.Assign) and isinstance(n.targets[0], ast.Name) and isinstance(n.value, ast.Call) and last_attr(n.value.func) == "GlobalStats"]
    rname = rv[0].targets[0].id if rv else "result"
    for n in walk_body(call):
        if isinstance(n, ast.Assign) and isinstance(n.targets[0], ast.Attribute) and u(n.targets[0].value) == rname:
            a = n.targets[0].attr
            chk.ob("O8.3", f"calculator assigns result.{a}: declared in the results class", a in attrs, n, "" if a in attrs else "written but never read back (not a declared attribute/key)", key=f"{_M}:GlobalStatsCalculator.__call__:assign:{a}")
    ao = gsm["add_op_metrics"]
    docd = [n for n in walk_body(ao) if isinstance(n, ast.Dict)]
    ok = False
    if docd:
        pairs = {k.value: u(v) for k, v in zip(docd[0].keys, docd[0].values) if isinstance(k, ast.Constant)}
        ok = all(k == v for k, v in pairs.items()) and set(pairs) == {"task", "operation", "throughput", "latency", "service_time", "processing_time", "error_rate", "duration"}
    chk.ob("O8.3", "op-metrics record: each key holds the parameter of the same name", ok, docd[0] if docd else ao, "")
    aoc = [c for c in source.calls_in(call) if last_attr(c.func) == "add_op_metrics"]
    ok = False
    if aoc:
        b = bind_args(aoc[0], ao)

        def metric_of(e):
            if isinstance(e, ast.Call) and u(e.func) == "self.summary_stats":
                return ("summary", e.args[0].value if e.args and isinstance(e.args[0], ast.Constant) else None)
            if isinstance(e, ast.Call) and u(e.func) == "self.single_latency":
                mn = arg_of(e, 2, "metric_name")
                return ("latency", mn.value if isinstance(mn, ast.Constant) else "latency")
            return ("other", u(e))

        # by role: error rate / duration are the values computed by self.error_rate / self.duration for this task (whatever the locals holding them are called);
        # task / operation are read off the task the enclosing loop iterates over
        lv = _loop_var(aoc[0])
        ern, dun = (source.inline_node(b[k], cdefs) if b.get(k) is not None else None for k in ("error_rate", "duration"))
        ok = metric_of(b.get("throughput")) == ("summary", "throughput") and metric_of(b.get("latency")) == ("latency", "latency") and metric_of(b.get("service_time")) == ("latency", "service_time") \
            and metric_of(b.get("processing_time")) == ("latency", "processing_time") and lv is not None \
            and isinstance(ern, ast.Call) and u(ern.func) == "self.error_rate" and bool(erc) and u(ern) == _il(erc[0], cdefs) \
            and isinstance(dun, ast.Call) and u(dun.func) == "self.duration" and [u(a) for a in dun.args] == [f"{lv}.name"] and not dun.keywords \
            and _il(b.get("task"), cdefs) == f"{lv}.name" and _il(b.get("operation"), cdefs) == f"{lv}.operation.name"
        sd = gm["single_latency"].args.defaults
        ok = ok and sd and isinstance(sd[-1], ast.Constant) and sd[-1].value == "latency"
    chk.ob("O8.3", "each op-metrics field is computed for the metric of the same name", ok, aoc[0] if aoc else call, "")
    record_key_agreement(chk, "O8.3", met)

    # ---- O8.4 race file agreement ------------------------------------------------------------------------------------------------------------------------
    chk.rule("O8.4", "every key Race.from_dict subscripts is written unconditionally by as_dict; every optional key it reads is written (possibly conditionally); each key is fed into the constructor "
             "parameter of the attribute it was written from; results are written from results.as_dict() and read back", 18,
             "a stored race cannot be read back (KeyError) or comes back with fields exchanged")
    RC = met.cls("Race")
    rm = met.methods(RC)
    asd, frd, rinit = rm["as_dict"], rm["from_dict"], rm["__init__"]
    lit = [n for n in walk_body(asd) if isinstance(n, ast.Dict) and isinstance(source.parent(n), ast.Assign)]
    if not lit:
        raise AnchorMissing("dict literal in Race.as_dict")
    D0 = lit[0]
    uncond = {k.value: v for k, v in zip(D0.keys, D0.values) if isinstance(k, ast.Constant)}
    cond = {}
    for n in walk_body(asd):
        if isinstance(n, ast.Assign) and isinstance(n.targets[0], ast.Subscript) and isinstance(n.targets[0].slice, ast.Constant):
            cond[n.targets[0].slice.value] = n.value
    cluster_keys = {k.value: v for k, v in zip(uncond["cluster"].keys, uncond["cluster"].values)} if isinstance(uncond.get("cluster"), ast.Dict) else {}
    ctor = [c for c in source.calls_in(frd) if last_attr(c.func) in ("Race", "cls")]
    if not ctor:
        raise AnchorMissing("Race(...) in from_dict")
    b = bind_args(ctor[0], rinit)
    fdefs = local_defs(frd)
    dpar = params_of(frd)[1]
    attr_of_param = {n.value.id: n.targets[0].attr for n in walk_body(rinit) if isinstance(n, ast.Assign) and is_self_attr(n.targets[0]) and isinstance(n.value, ast.Name)}

    def written_attr(v):
        """attribute of self an as_dict value is taken from."""
        for x in ast.walk(v):
            if is_self_attr(x):
                a = x.attr
                return a[:-5] if a.endswith("_name") and a not in ("environment_name",) else a
        return None

    for param, e in b.items():
        e2 = source.inline_node(e, fdefs)
        key = None
        mandatory = False
        container = None
        for x in ast.walk(e2):
            if isinstance(x, ast.Subscript) and isinstance(x.slice, ast.Constant) and isinstance(x.value, ast.Name):
                key, mandatory, container = x.slice.value, True, x.value.id
                break
            elif isinstance(x, ast.Call) and last_attr(x.func) == "get" and x.args and isinstance(x.args[0], ast.Constant):
                key, container = x.args[0].value, u(x.func.value)
                break
        if key is None:
            continue
        in_cluster = container not in (dpar,)
        wsrc = cluster_keys.get(key) if in_cluster and key in cluster_keys else (uncond.get(key) if key in uncond else cond.get(key))
        if key == "meta":
            if wsrc is None:
                chk.adv("O8.4", "from_dict reads 'meta' but as_dict never writes it (race meta data are not part of the results; never persisted in the race file)", frd)
            continue
        if mandatory:
            chk.ob("O8.4", f"mandatory key '{key}' written unconditionally", key in uncond, e, "", key=f"{_M}:Race:key:{key}")
        else:
            chk.ob("O8.4", f"optional key '{key}' written by as_dict", wsrc is not None, e, "", key=f"{_M}:Race:key:{key}")
        if wsrc is not None:
            wa = written_attr(wsrc)
            ra = attr_of_param.get(param)
            chk.ob("O8.4", f"key '{key}' round-trips into the attribute it was written from", wa == ra, e, f"written from self.{wa}, read into self.{ra}", key=f"{_M}:Race:roundtrip:{key}")
    rs = cond.get("results")
    ok = rs is not None and u(rs) == "self.results.as_dict()"
    chk.ob("O8.4", "results written from results.as_dict()", ok, rs if rs is not None else asd, "")
    # Race.as_dict writes the results under a TRUTHINESS test of the results object: that is a presence test only as long as the results class defines neither __len__ nor
    # __bool__ (a results object without per-task rows would otherwise be dropped from race.json although it carries all global metrics)
    gs_cls = met.cls("GlobalStats")
    truthy_tests = [n for n in walk_body(met.methods(met.cls("Race"))["as_dict"]) if isinstance(n, ast.If) and any(is_self_attr(x, "results") for x in [n.test] + (list(n.test.values) if isinstance(n.test, ast.BoolOp) else []))]
    dunder = [m_.name for m_ in gs_cls.body if isinstance(m_, (ast.FunctionDef, ast.AsyncFunctionDef)) and m_.name in ("__len__", "__bool__")]
    chk.ob("O8.4", "the results object is tested for presence only (its class defines no __len__ / __bool__)", not (truthy_tests and dunder), gs_cls,
           "" if not dunder else f"GlobalStats defines {dunder}: `if self.results:` in Race.as_dict is false for a results object without per-task rows, the `results` key is not written and every global metric reads back as None",
           key="esrally/metrics.py:GlobalStats:truthiness-is-presence")
    ts = uncond.get("race-timestamp")
    rt = b.get("race_timestamp")
    ok = ts is not None and rt is not None and "to_iso8601" in u(ts) and "from_iso8601" in u(rt)
    chk.ob("O8.4", "timestamp written/read with the inverse ISO-8601 conversions", ok, ts if ts is not None else asd, "")

    # ---- O8.6 error rate -------------------------------------------------------------------------------------------------------------------------------------
    chk.rule("O8.6", "in-memory error rate: counts records with success is False over all matching service_time records (task, operation type, sample type) and divides by their number", 4,
             "error rate is not failed/all of the task's requests")
    ge = im["get_error_rate"]
    fl = [n for n in walk_body(ge) if isinstance(n, ast.For) and is_self_attr(n.iter, "docs")]
    if not fl:
        raise AnchorMissing("loop over docs in get_error_rate")
    loop = fl[0]
    dv = loop.target.id if isinstance(loop.target, ast.Name) else None
    gp_ = params_of(ge)[1:4]
    if dv is None or len(gp_) != 3:
        raise AnchorMissing("get_error_rate(self, task, operation_type, sample_type) with a loop `for <name> in self.docs`")
    rets = [n for n in walk_body(ge) if isinstance(n, ast.Return)]
    # roles from the data flow, not from the spelling: both counters are incremented in the loop; the error counter is the one incremented under the success test, the other one counts
    # the matching records (fallback when that shape is absent: numerator / denominator of the returned quotient)
    incs = [n for n in ast.walk(loop) if isinstance(n, ast.AugAssign) and isinstance(n.target, ast.Name)]
    cands = list(dict.fromkeys(n.target.id for n in incs))
    failed_pats = ("V_d['meta']['success'] is False", "not V_d['meta']['success']")
    err_c = [c for c in cands if any(P.guarded(n, *failed_pats, stop=loop, binds={"d": dv}) is not None for n in incs if n.target.id == c)]
    err_n = tot_n = None
    if len(cands) == 2 and len(err_c) == 1:
        err_n, tot_n = err_c[0], [c for c in cands if c != err_c[0]][0]
    else:
        for r in rets:
            q = P.match(r.value, "V_e / V_t")
            if q is not None and q["e"] != q["t"]:
                err_n, tot_n = q["e"], q["t"]
                break
    tot = [n for n in incs if n.target.id == tot_n]
    err = [n for n in incs if n.target.id == err_n]
    # the record filter is whatever guards the counting of a record: evaluated over representative records and requests instead of being read off its text
    ffacts = P.fact_nodes(tot[0], stop=loop) if tot else []
    ok = bool(ffacts)
    detail = f"{[u(f) for f in ffacts]}"
    if ok:
        try:
            for rec in ({"name": n_, "task": t_, "operation-type": o_, "sample-type": s_, "meta": {"success": True}} for n_ in ("service_time", "latency") for t_ in ("A", "B") for o_ in ("X", "Y") for s_ in ("normal", "warmup")):
                for q_ot in (None, "X", "Y"):
                    for q_st in (None, "Normal", "Warmup"):
                        env = {dv: rec, gp_[0]: "A", gp_[1]: q_ot, gp_[2]: None if q_st is None else Record(name=q_st)}
                        want = rec["name"] == "service_time" and rec["task"] == "A" and (q_ot is None or rec["operation-type"] == q_ot) and (q_st is None or rec["sample-type"] == q_st.lower())
                        got = all(bool(ev(f, env)) for f in ffacts)
                        if got != want and ok:
                            ok = False
                            detail = f"record {rec} is {'counted' if got else 'not counted'} for task='A' operation_type={q_ot!r} sample_type={q_st}: {[u(f) for f in ffacts]}"
        except CannotEval as e:
            ok = False
            detail = f"filter not evaluable ({e}): {[u(f) for f in ffacts]}"
    chk.ob("O8.6", "record filter: service_time of the task / operation type / sample type", ok, source.enclosing(tot[0], ast.If) or ge if tot else ge, detail)
    ok = False
    if len(tot) == 1 and len(err) == 1:
        ft, fe = {u(f) for f in ffacts}, P.fact_nodes(err[0], stop=loop)
        extra = [f for f in fe if u(f) not in ft]
        # counted once per matching record; an error is counted under exactly the same filter plus `success is False`
        ok = all(isinstance(n.op, ast.Add) and source.is_const(n.value, 1) for n in (tot[0], err[0])) and ft <= {u(f) for f in fe} and len(extra) == 1 and P.is_(extra[0], *failed_pats, binds={"d": dv})
    chk.ob("O8.6", "every matching record counted once; failed ones counted as errors", ok, tot[0] if tot else ge, f"error counter `{err_n}`, record counter `{tot_n}`")
    # result: decided for concrete counter values (which return is taken), the taken quotient compared symbolically
    tail = ge.body[ge.body.index(loop) + 1:] if loop in ge.body else []
    ok = err_n is not None and bool(tail)
    detail = ""
    if ok:
        try:
            for e_v, t_v in ((0, 0), (0, 1), (1, 1), (0, 4), (1, 4), (4, 4), (2, 7)):
                env = {err_n: e_v, tot_n: t_v}

                def atom(n, env_):
                    try:
                        return bool(ev(n, env_))
                    except CannotEval:
                        return None

                out = decide(tail, atom, env)
                good = out.kind == "return" and out.value is not None and (rat_equal(out.value, parse_expr(f"{err_n} / {tot_n}")) if t_v > 0 else ev(out.value, env) == 0)
                if not good:
                    ok = False
                    detail = f"{e_v} failed of {t_v} records -> {out.text()}"
                    break
        except (Unsupported, UnknownAtom, CannotEval) as e:
            ok = False
            detail = f"result not decidable from the counters: {e}"
    chk.ob("O8.6", "error rate == errors / total (0.0 without records)", ok, ge, detail)
    inits = {n.targets[0].id: n.value for n in ge.body if isinstance(n, ast.Assign) and isinstance(n.targets[0], ast.Name)}
    chk.ob("O8.6", "counters start at 0", err_n is not None and source.is_const(inits.get(err_n), 0) and source.is_const(inits.get(tot_n), 0), ge, "")

    # ---- O8.7 interpolation ----------------------------------------------------------------------------------------------------------------------------------------
    chk.rule("O8.7", "in-memory percentile == documented linear interpolation: rank == p/100 * (n - 1); exact rank -> sorted[int(rank)]; else lo + (hi - lo) * (rank - floor(rank)) with "
             "lo = sorted[floor(rank)], hi = sorted[ceil(rank)]; the list handed in is sorted(values) of the filtered records", 5,
             "any value set with n >= 2: percentiles not between min and max / p100 != max / p50 != median")
    pv = im["percentile_value"]
    if len(params_of(pv)) < 2:
        raise AnchorMissing("percentile_value(sorted_values, percentile)")
    sv, pc = params_of(pv)[-2:]
    pdefs = local_defs(pv)
    # by role: the rank is the local computed from the percentile and the number of values
    rks = [k for k, v in pdefs.items() if any(P.is_(x, f"len({sv})") for x in ast.walk(v)) and any(isinstance(x, ast.Name) and x.id == pc for x in ast.walk(v))]
    rkn = rks[0] if len(rks) == 1 else None
    nork = {k: v for k, v in pdefs.items() if k != rkn}

    def patom(n):
        t = u(n)
        if t in (f"len({sv})",):
            return "N"
        if t in (f"float({pc})", pc):
            return "P"
        if rkn is not None and t in (f"math.floor({rkn})", f"int(math.floor({rkn}))"):
            return "FLOOR"
        if isinstance(n, ast.Subscript) and u(n.value) == sv:
            return f"S[{u(source.inline_node(n.slice, nork))}]"
        return None

    rk = pdefs.get(rkn) if rkn is not None else None
    ok = rk is not None and rat_equal(rk, parse_expr("P / 100 * (N - 1)"), atom=patom)
    chk.ob("O8.7", "rank == p/100 * (n - 1)", ok, rk if rk is not None else pv, u(rk) if rk is not None else f"no single local computed from {pc} and len({sv})")
    rets = [n for n in walk_body(pv) if isinstance(n, ast.Return)]
    exact = [r for r in rets if rkn is not None and P.guarded(r, "V_r == int(V_r)", "V_r.is_integer()", binds={"r": rkn}) is not None]
    ok = len(exact) == 1 and P.is_(exact[0].value, f"{sv}[int(V_r)]", binds={"r": rkn})
    chk.ob("O8.7", "exact rank -> sorted[int(rank)]", ok, exact[0] if exact else pv, "")
    inter = [r for r in rets if r not in exact]
    ok = False
    if len(inter) == 1 and rkn is not None and inter[0].value is not None:
        e = source.inline_node(inter[0].value, nork)
        ok = rat_equal(e, parse_expr(f"LO + (HI - LO) * ({rkn} - FLOOR)"), atom=lambda n: {f"S[math.floor({rkn})]": "LO", f"S[math.ceil({rkn})]": "HI"}.get(patom(n) or "", patom(n)))
    chk.ob("O8.7", "otherwise lo + (hi - lo) * (rank - floor(rank)) over adjacent order statistics", ok, inter[0] if inter else pv, u(inter[0].value) if inter else "")
    gp = im["get_percentiles"]
    gdefs = local_defs(gp)
    pvc = [c for c in source.calls_in(gp) if last_attr(c.func) == "percentile_value"]
    ok = bool(pvc) and len(pvc[0].args) == 2 and u(source.inline_node(pvc[0].args[0], gdefs)).startswith("sorted(self.get(") and _loop_var(pvc[0]) is not None and u(pvc[0].args[1]) == _loop_var(pvc[0])
    gcall = [c for c in source.calls_in(gp) if u(c.func) == "self.get"]
    ok = ok and bool(gcall) and [u(a) for a in gcall[0].args] == params_of(gp)[1:5]
    chk.ob("O8.7", "percentiles computed on sorted(filtered values) for each requested percentile", ok, pvc[0] if pvc else gp, "")
    ok = any(isinstance(n, ast.Assign) and isinstance(n.targets[0], ast.Subscript) and u(n.targets[0].slice) == u(pvc[0].args[1]) for n in walk_body(gp)) if pvc and len(pvc[0].args) == 2 else False
    chk.ob("O8.7", "result keyed by the requested percentile", ok, gp, "")

    # ---- O8.8 stats from the raw values ------------------------------------------------------------------------------------------------------------------------------
    chk.rule("O8.8", "count == len, min == first, max == last of the sorted filtered values, avg == mean of the same list; get_mean returns that avg, get_median the 50th percentile; the summary "
             "copies min/mean/median/max under the names of the same meaning", 5, "summary min/max/mean/median disagree with the raw values")
    gst = im["get_stats"]
    dd = [n for n in walk_body(gst) if isinstance(n, ast.Dict) and any(source.is_const(k, "count") for k in n.keys if k is not None)]
    ok = False
    detail = ""
    if dd:
        # by role: every statistic, followed through the locals, is taken from sorted(self.get(<the request>))
        sd_ = local_defs(gst)
        d = {k.value: _il(v, sd_) for k, v in zip(dd[0].keys, dd[0].values) if isinstance(k, ast.Constant)}
        S = f"sorted(self.get({', '.join(params_of(gst)[1:5])}))"
        ok = d.get("count") == f"len({S})" and d.get("min") in (f"{S}[0]", f"min({S})") and d.get("max") in (f"{S}[-1]", f"max({S})") and d.get("avg") in (f"statistics.mean({S})", f"sum({S}) / len({S})")
        detail = "" if ok else f"{ {k: d.get(k) for k in ('count', 'min', 'max', 'avg')} }"
    chk.ob("O8.8", "get_stats: count/min/max/avg of the sorted filtered values", ok, dd[0] if dd else gst, detail)
    MS = met.cls("MetricsStore")
    msm = met.methods(MS)
    gme = msm["get_mean"]
    # by role: the local holding self.get_stats(<the request>); the result is decided for a present and an absent statistics record
    sn = [k for k, v in local_defs(gme).items() if u(v) == f"self.get_stats({', '.join(params_of(gme)[1:5])})"]
    ok = len(sn) == 1
    detail = "" if ok else "no single local holding self.get_stats(<the request>)"
    if ok:
        try:
            for sval, want in (({"count": 3, "min": 1.0, "max": 9.0, "avg": 4.5, "sum": 13.5}, 4.5), ({"count": 1, "min": 0.0, "max": 0.0, "avg": 0.0, "sum": 0.0}, 0.0), (None, None)):
                env = {sn[0]: sval}

                def atom(n, env_):
                    try:
                        return bool(ev(n, env_))
                    except CannotEval:
                        return None

                out = decide(gme.body, atom, env)
                got = ev(out.value, env) if out.kind == "return" and out.value is not None else None
                if out.kind not in ("return", "fallthrough") or got != want or (got is None) != (want is None):
                    ok = False
                    detail = f"statistics {sval} -> {out.text()}"
                    break
        except (Unsupported, UnknownAtom, CannotEval) as e:
            ok = False
            detail = f"result not decidable from the statistics record: {e}"
    chk.ob("O8.8", "get_mean == avg of the same filtered values", ok, gme, detail)
    gmd = msm["get_median"]
    md = local_defs(gmd)
    ok = False
    for c in walk_body(gmd):
        if isinstance(c, ast.Call) and u(c.func) == "self.get_percentiles" and [u(a) for a in c.args[:4]] == params_of(gmd)[1:5]:
            # by role: the one percentile requested (followed through the local that holds it) is the 50th
            pl = arg_of(c, 4, "percentiles")
            pl = source.inline_node(pl, md) if pl is not None else None
            ok = ok or (isinstance(pl, (ast.List, ast.Tuple)) and len(pl.elts) == 1 and isinstance(pl.elts[0], ast.Constant) and str(pl.elts[0].value) in ("50.0", "50"))
    chk.ob("O8.8", "get_median == 50th percentile of the same filtered values", ok, gmd, "")
    ss = gm["summary_stats"]
    ssd = local_defs(ss)
    dd = [n for n in walk_body(ss) if isinstance(n, ast.Dict) and not all(isinstance(v, ast.Constant) and v.value is None for k, v in zip(n.keys, n.values) if getattr(k, "value", None) != "unit")]
    ok = False
    qcalls = []
    if dd:
        # by role: each reported statistic, followed through the local that holds it, is the result of the store query of the same meaning
        dn = {k.value: source.inline_node(v, ssd) for k, v in zip(dd[0].keys, dd[0].values) if isinstance(k, ast.Constant)}

        def origin(e):
            if isinstance(e, ast.Subscript) and isinstance(e.slice, ast.Constant) and isinstance(e.value, ast.Call) and isinstance(e.value.func, ast.Attribute) and is_self_attr(e.value.func.value, "store"):
                return f"{e.value.func.attr}[{e.slice.value!r}]"
            if isinstance(e, ast.Call) and isinstance(e.func, ast.Attribute) and is_self_attr(e.func.value, "store"):
                return e.func.attr
            return u(e)

        ok = {k: origin(v) for k, v in dn.items()} == {"min": "get_stats['min']", "mean": "get_mean", "median": "get_median", "max": "get_stats['max']", "unit": "get_unit"}
        qcalls = [x for k, v in dn.items() if k in ("min", "mean", "median", "max") for x in ast.walk(v) if isinstance(x, ast.Call) and isinstance(x.func, ast.Attribute) and is_self_attr(x.func.value, "store")]
    chk.ob("O8.8", "summary copies min/mean/median/max from the statistics of the same meaning", ok, dd[0] if dd else ss, "")
    ok = {c.func.attr for c in qcalls} >= {"get_mean", "get_median", "get_stats"} and all(c.args and u(c.args[0]) == params_of(ss)[1] for c in qcalls)
    chk.ob("O8.8", "all summary statistics are of the requested metric", ok, ss, "")

    # ---- O8.9 no truthiness on optional numerics ------------------------------------------------------------------------------------------------------------------------
    chk.rule("O8.9", "values returned by the store's mean/median queries (floats or None, 0 is a legitimate statistic) are tested with `is (not) None`, never by truthiness", 1,
             "a task whose normal samples are all 0 (e.g. every request failed under on-error=continue => 0 ops): the summary reports None for min/mean/median/max instead of 0")
    found = 0
    for mname, f in gm.items():
        fdefs = local_defs(f)
        # the finding is keyed by the ROLE of the tested local (the query it holds: get_mean -> mean), not by its spelling
        opt = {k: v.func.attr.removeprefix("get_") for k, v in fdefs.items() if isinstance(v, ast.Call) and isinstance(v.func, ast.Attribute) and v.func.attr in ("get_mean", "get_median", "get_one", "median")}
        for n in walk_body(f):
            tests = [n.test] if isinstance(n, (ast.If, ast.IfExp, ast.While)) else []
            for t in tests:
                for a in atoms_of(t):
                    if isinstance(a, ast.Name) and a.id in opt:
                        found += 1
                        chk.ob("O8.9", f"{mname}: optional statistic `{a.id}` tested by truthiness", False, n, f"`{short(t, 60)}`: a value of 0 is treated as missing",
                               key=f"{_M}:GlobalStatsCalculator.{mname}:truthiness:{opt[a.id]}")
    if found == 0:
        chk.ob("O8.9", "no truthiness test on optional statistics in the calculator", True, GC, "")
    # advisory O8.5 / system stats
    SC = met.cls("SystemStatsCalculator")
    addf = met.methods(SC).get("add")
    adefs = local_defs(addf) if addf is not None else {}
    if addf is not None and any(isinstance(n, ast.If) and isinstance(n.test, ast.Name) and isinstance(adefs.get(n.test.id), ast.Call) and last_attr(adefs[n.test.id].func) == "get_one" for n in walk_body(addf)):
        chk.adv("O8.9", "SystemStatsCalculator.add drops a system metric whose value is 0 (`if metric_value:`) — outside the property (system metrics)", addf)
    EM = met.cls("EsMetricsStore")
    for n in ast.walk(EM):
        if isinstance(n, ast.If) and u(n.test) == "sample_type":
            chk.adv("O8.5", "EsMetricsStore tests `if sample_type:` on an IntEnum whose Warmup member is 0: a Warmup filter is silently dropped (results use Normal, so outside the property)", n)
            break

    # ---- O8.10 per-shard statistics ----------------------------------------------------------------------------------------------------------------------------------
    chk.rule("O8.10", "per-shard statistics are total over the stored records: for every representative set of `per-shard` arrays (none, only empty ones, empty and filled, one / several "
             "records) the method returns; min/median/max are those of ALL per-shard values when there are any, and no number is reported when there are none (the aggregates are "
             "evaluated only when the flattened list is non-empty)", len(SHARD_CASES),
             "a race whose only index-time records carry an empty `per-shard` array (shard level of the index-stats response not available; IndexStats stores [] then): min() of an "
             "empty list raises ValueError in the results calculator, no summary is computed and race.json keeps no results at all (F34)")
    per_shard_statistics(chk, "O8.10", met, GC)


from sa.selftest import V  # noqa: E402

VARIANTS = [
    V("sample type dropped at one query", "break", _M, "        mean = self.store.get_mean(metric_name, task=task_name, operation_type=operation_type, sample_type=SampleType.Normal)", "        mean = self.store.get_mean(metric_name, task=task_name, operation_type=operation_type)", "O8.1"),
    V("warmup queried", "break", _M, "    def single_latency(self, task, operation_type, metric_name=\"latency\"):\n        sample_type = SampleType.Normal", "    def single_latency(self, task, operation_type, metric_name=\"latency\"):\n        sample_type = SampleType.Warmup", "O8.1"),
    V("seed m1: sample size from all samples", "break", _M, "        sample_size = stats[\"count\"] if stats else 0", "        sample_size = len(self.store.get(metric_name, task=task, operation_type=operation_type))", "O8.1"),
    V("seed m3: error rate ignores the operation type", "break", _M, "        return self.store.get_error_rate(task=task_name, operation_type=operation_type, sample_type=SampleType.Normal)", "        return self.store.get_error_rate(task=task_name, sample_type=SampleType.Normal)", "O8.1"),
    V("gap in the percentile thresholds", "break", _M, "    elif 10 <= sample_size < 100:", "    elif 10 < sample_size < 100:", "O8.2"),
    V("p100 missing for large samples", "break", _M, "        return [50, 90, 99, 99.9, 99.99, 100]", "        return [50, 90, 99, 99.9, 99.99]", "O8.2"),
    V("key typo in one attribute", "break", _M, "        self.merge_count = self.v(d, \"merge_count\")", "        self.merge_count = self.v(d, \"merges_count\")", "O8.3"),
    V("calculator attribute not in the results class", "break", _M, "        result.flush_count = self.sum(\"flush_total_count\")", "        result.flush_total_count = self.sum(\"flush_total_count\")", "O8.3"),
    V("service_time and latency exchanged", "break", _M, "                        self.single_latency(t, op_type),\n                        self.single_latency(t, op_type, metric_name=\"service_time\"),", "                        self.single_latency(t, op_type, metric_name=\"service_time\"),\n                        self.single_latency(t, op_type),", "O8.3"),
    V("seed m2: record lookup by membership", "break", _M, "            if r.get(\"task\", r[\"operation\"]) == task:", "            if task in (r.get(\"task\"), r[\"operation\"]):", "O8.3"),
    V("mandatory key written conditionally", "break", _M, "            \"pipeline\": self.pipeline,\n            \"user-tags\": self.user_tags,", "            \"user-tags\": self.user_tags,", "O8.4"),
    V("car and pipeline exchanged on read", "break", _M, "            d[\"pipeline\"],\n            user_tags,\n            d[\"track\"],\n            d.get(\"track-params\"),\n            d.get(\"challenge\"),\n            d[\"car\"],", "            d[\"car\"],\n            user_tags,\n            d[\"track\"],\n            d.get(\"track-params\"),\n            d.get(\"challenge\"),\n            d[\"pipeline\"],", "O8.4"),
    V("error rate over errors only", "break", _M, "        if total_count > 0:\n            return error / total_count", "        if total_count > 0:\n            return error / max(error, 1)", "O8.6"),
    V("rank with n instead of n - 1", "break", _M, "        rank = float(percentile) / 100.0 * (len(sorted_values) - 1)", "        rank = float(percentile) / 100.0 * len(sorted_values)", "O8.7"),
    V("interpolation weight inverted", "break", _M, "            return lower_score + (higher_score - lower_score) * fr", "            return higher_score + (lower_score - higher_score) * fr", "O8.7"),
    V("max is the first value", "break", _M, "                \"max\": sorted_values[-1],", "                \"max\": sorted_values[0],", "O8.8"),
    # preserving
    V("convex-combination form", "keep", _M, "            return lower_score + (higher_score - lower_score) * fr", "            return lower_score * (1 - fr) + higher_score * fr"),
    V("local alias of the sample type", "keep", _M, "        mean = self.store.get_mean(metric_name, task=task_name, operation_type=operation_type, sample_type=SampleType.Normal)", "        normal = SampleType.Normal\n        mean = self.store.get_mean(metric_name, task=task_name, operation_type=operation_type, sample_type=normal)"),
    V("threshold written the other way", "keep", _M, "    elif 10 <= sample_size < 100:", "    elif sample_size >= 10 and sample_size < 100:"),
    # F34 (repaired in rally 9a08e75): the guard of the per-shard aggregates must be on the flattened values
    V("F34 reverted: per-shard aggregates guarded by the list of arrays", "break", _M,
      "        flat_values = [w for v in values for w in v] if values else []\n        # records with an empty per-shard array (shard level of the stats response not available) contribute nothing\n        if flat_values:\n",
      "        if values:\n            flat_values = [w for v in values for w in v]\n", "O8.10"),
    V("F34 equivalent break: guard on the number of records", "break", _M, "        if flat_values:\n            return {\n                \"min\": min(flat_values),", "        if len(values) > 0:\n            return {\n                \"min\": min(flat_values),", "O8.10"),
    V("per-shard median of the first record only", "break", _M, "                \"median\": statistics.median(flat_values),", "                \"median\": statistics.median(values[0]),", "O8.10"),
    V("F34 respelled: explicit length test", "keep", _M, "        if flat_values:\n            return {\n                \"min\": min(flat_values),", "        if len(flat_values) > 0:\n            return {\n                \"min\": min(flat_values),"),
    V("F34 respelled: flatten without the outer emptiness test", "keep", _M, "        flat_values = [w for v in values for w in v] if values else []", "        flat_values = [w for v in values for w in v]"),
    V("F34 respelled: flattening spelt as a loop", "keep", _M, "        flat_values = [w for v in values for w in v] if values else []", "        flat_values = []\n        for v in values:\n            flat_values.extend(v)"),
    V("per-shard max of the last record only", "break", _M, "                \"max\": max(flat_values),", "                \"max\": max(values[-1]),", "O8.10"),
    V("F34 respelled: guard clause and order statistics of the sorted values", "keep", _M,
      "        if flat_values:\n            return {\n                \"min\": min(flat_values),\n                \"median\": statistics.median(flat_values),\n                \"max\": max(flat_values),",
      "        if not any(True for v in values for w in v):\n            return {}\n        ordered = sorted(flat_values)\n        if ordered:\n            return {\n                \"min\": ordered[0],\n                \"median\": statistics.median(ordered),\n                \"max\": ordered[-1],"),
]
