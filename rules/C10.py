"""C10 — a loaded track is exactly what the file says; invalid tracks are rejected (DESIGN.md section 4, C10)."""
from __future__ import annotations

import ast
import itertools
import re

from sa import source
from sa.cfg import cfg_of, guards
from sa.minieval import CannotEval, ev
from sa.source import AnchorMissing, arg_of, bind_args, dotted, is_self_attr, last_attr, local_defs, params_of, short, u, walk_body
from sa.sym import UnknownAtom, atoms_of
from sa.tables import Unsupported, decide

_L = "esrally/track/loader.py"
_T = "esrally/track/track.py"
_R = "esrally/driver/runner.py"
_P = "esrally/track/params.py"

# documented task keys -> Task constructor parameter (docs/track.rst, schedule element properties)
TASK_KEYS = {
    "name": "name", "tags": "tags", "meta": "meta_data", "warmup-iterations": "warmup_iterations", "iterations": "iterations",
    "warmup-time-period": "warmup_time_period", "time-period": "time_period", "ramp-up-time-period": "ramp_up_time_period",
    "clients": "clients", "schedule": "schedule",
}
INHERITED = {"warmup-iterations": "default_warmup_iterations", "iterations": "default_iterations", "warmup-time-period": "default_warmup_time_period",
             "time-period": "default_time_period", "ramp-up-time-period": "default_ramp_up_time_period"}
DOC_KEYS = {"base-url": "base_url", "source-format": "source_format", "document-count": "number_of_documents", "compressed-bytes": "compressed_size_in_bytes",
            "uncompressed-bytes": "uncompressed_size_in_bytes", "includes-action-and-meta-data": "includes_action_and_meta_data", "target-index": "target_index",
            "target-type": "target_type", "target-data-stream": "target_data_stream", "meta": "meta_data"}


def hyphenate(name: str) -> str:
    return "".join(["-" + c.lower() if c.isupper() else c for c in name]).lstrip("-")


def r_key(e, defs=None):
    """key string of a `self._r(spec, "key", ...)` expression (through one local)."""
    if isinstance(e, ast.Name) and defs and e.id in defs:
        e = defs[e.id]
    if isinstance(e, ast.Call) and u(e.func) == "self._r" and len(e.args) >= 2 and isinstance(e.args[1], ast.Constant):
        return e.args[1].value, e
    return None, e


def run(chk):
    repo = chk.repo
    ldr, trk, rn, pr = repo.module(_L), repo.module(_T), repo.module(_R), repo.module(_P)
    chk.use(ldr, trk, rn, pr, "esrally/resources/track-schema.json", "docs/track.rst")
    chk.explanation = (
        "Decides the loader by tables and flows: the operation-type registry is a bijection between hyphenated literals and enum members that agrees with to_hyphenated_string and with the "
        "runner / param-source registrations; each documented task and document-set key flows into the constructor parameter and attribute of that meaning, with parallel defaults read from "
        "the same key and passed positionally to the matching parameter; _error raises on every path; schema and version validation dominate construction; the validation block of "
        "parse_task abstractly interpreted over {warm-up iterations, iterations, warm-up period, period, ramp-up (none / <= warm-up / > warm-up)} rejects exactly the documented mixes; "
        "dedupe idioms for task / challenge / operation / corpus names; default-challenge rules; completed-by rules; indices vs data streams; reserved and unused track parameters checked "
        "between building and returning the track; every rendered template registers its variables first; nested includes resolve relative to the including file."
    )
    chk.not_decided = "Jinja rendering semantics (incl. the text of the built-in macros), JSON-schema semantics, free-form operation parameters."
    SR = ldr.cls("TrackSpecificationReader")
    sm = ldr.methods(SR)
    FR = ldr.cls("TrackFileReader")
    fm = ldr.methods(FR)

    # ---- O10.1 operation-type registry --------------------------------------------------------------------------------------------------------------
    chk.rule("O10.1", "operation-type registry: the string->member chain is a bijection (every member once, literals distinct); each literal equals the hyphenation of the member name "
             "(= to_hyphenated_string); every default-runner / param-source registration names a member; the composite's supported list is a subset of registered names", 60,
             "an operation type written in a track resolves to another operation, or a documented type is rejected as unknown")
    OT = trk.cls("OperationType")
    members = [n.targets[0].id for n in OT.body if isinstance(n, ast.Assign) and isinstance(n.targets[0], ast.Name) and isinstance(n.value, ast.Tuple)]
    fh = trk.methods(OT).get("from_hyphenated_string")
    if fh is None or len(members) < 40:
        raise AnchorMissing("OperationType members / from_hyphenated_string")
    vpar = params_of(fh)[1]
    pairs = []
    node = fh.body[0]
    while isinstance(node, ast.If):
        t = node.test
        ok = isinstance(t, ast.Compare) and len(t.ops) == 1 and isinstance(t.ops[0], ast.Eq) and u(t.left) == vpar and isinstance(t.comparators[0], ast.Constant) \
            and len(node.body) == 1 and isinstance(node.body[0], ast.Return) and dotted(node.body[0].value) and dotted(node.body[0].value).startswith("OperationType.")
        if not ok:
            chk.unknown("O10.1", f"registry arm is not `if v == '<literal>': return OperationType.<Member>`: {short(node.test, 60)}", node)
            break
        pairs.append((t.comparators[0].value, node.body[0].value.attr, node))
        if len(node.orelse) == 1 and isinstance(node.orelse[0], ast.If):
            node = node.orelse[0]
        else:
            tail = node.orelse
            ok = bool(tail) and isinstance(tail[-1], ast.Raise) and "KeyError" in u(tail[-1].exc)
            chk.ob("O10.1", "unknown literal raises KeyError", ok, node, "")
            break
    lits = [p[0] for p in pairs]
    mems = [p[1] for p in pairs]
    chk.ob("O10.1", "literals are distinct", len(lits) == len(set(lits)), fh, f"duplicates: {sorted({x for x in lits if lits.count(x) > 1})}")
    chk.ob("O10.1", "each member is returned by exactly one literal", len(mems) == len(set(mems)), fh, f"duplicates: {sorted({x for x in mems if mems.count(x) > 1})}")
    for m in members:
        chk.ob("O10.1", f"member {m} reachable from its documented name '{hyphenate(m)}'", (hyphenate(m), m) in [(l, mm) for l, mm, _ in pairs], OT,
               "" if m in mems else "no literal returns this member", key=f"{_T}:OperationType.from_hyphenated_string:{m}")
    for lit, mem, nd in pairs:
        if mem not in members:
            chk.ob("O10.1", f"literal '{lit}' returns a declared member", False, nd, f"OperationType.{mem} is not declared")
    th = trk.methods(OT).get("to_hyphenated_string")
    ok = th is not None and u([n for n in walk_body(th) if isinstance(n, ast.Return)][0].value) == "''.join(['-' + c.lower() if c.isupper() else c for c in self.name]).lstrip('-')"
    chk.ob("O10.1", "to_hyphenated_string is the documented hyphenation", ok, th if th is not None else OT, "")
    reg = rn.func("register_default_runners")
    regd = set()
    for c in source.calls_in(reg, attr="register_runner"):
        a0 = c.args[0]
        if isinstance(a0, ast.Attribute) and dotted(a0) and dotted(a0).startswith("track.OperationType."):
            regd.add(a0.attr)
            if a0.attr not in members:
                chk.ob("O10.1", f"runner registered for declared member {a0.attr}", False, c, "not a member of OperationType")
    chk.ob("O10.1", "default runners registered by enum member", len(regd) >= 50, reg, f"{len(regd)} members have a default runner; without: {sorted(set(members) - regd)}")
    rr = rn.func("register_runner")
    ok = any("to_hyphenated_string" in u(n) for n in walk_body(rr))
    chk.ob("O10.1", "runner registry keyed by the hyphenated string", ok, rr, "")
    rf = rn.func("runner_for")
    chk.ob("O10.1", "runner lookup by the same (hyphenated string) key", any(isinstance(n, ast.Subscript) and "__RUNNERS" in u(n.value) for n in walk_body(rf)), rf, "")
    for c in source.calls_in(pr.tree, attr="register_param_source_for_operation", local=False):
        a0 = c.args[0]
        if isinstance(a0, ast.Attribute) and (dotted(a0) or "").startswith("track.OperationType."):
            chk.ob("O10.1", f"param source registered for declared member {a0.attr}", a0.attr in members, c, "", key=f"{_P}:param-source:{a0.attr}")
    CO = rn.cls("Composite")
    sup = [n for n in ast.walk(CO) if isinstance(n, ast.Assign) and is_self_attr(n.targets[0], "supported_op_types") and isinstance(n.value, ast.List)]
    if sup:
        names = [e.value for e in sup[0].value.elts if isinstance(e, ast.Constant)]
        bad = [x for x in names if x not in {hyphenate(m) for m in regd}]
        chk.ob("O10.1", "composite's supported operation types all have a registered runner", not bad, sup[0], f"unregistered: {bad}")

    # ---- O10.2 field flow ----------------------------------------------------------------------------------------------------------------------------
    chk.rule("O10.2", "each documented task key reaches the Task parameter and attribute of that meaning; the five inheritable keys default to the parameter that parse_parallel fills from the "
             "SAME key of the parallel element (positional agreement); completed-by flags derive from comparing the task name with the parallel's completed-by / 'any'; schedule order is "
             "append order; document-set keys reach the Documents parameter of that meaning with corpus-level defaults", 40,
             "a track's warm-up iterations load as iterations (or similar): the race runs something else than the file says, silently")
    pt = sm["parse_task"]
    pp = sm["parse_parallel"]
    tctor = [c for c in source.calls_in(pt) if dotted(c.func) == "track.Task"]
    if not tctor:
        raise AnchorMissing("track.Task(...) in parse_task")
    tdefs = local_defs(pt)
    TK = trk.cls("Task")
    tinit = trk.methods(TK)["__init__"]
    tb = bind_args(tctor[0], tinit)
    stored = {n.value.id: n.targets[0].attr for n in walk_body(tinit) if isinstance(n, ast.Assign) and is_self_attr(n.targets[0]) and isinstance(n.value, ast.Name)}
    for key, param in TASK_KEYS.items():
        e = tb.get(param)
        k, call = r_key(e, tdefs)
        ok = k == key and u(call.args[0]) == params_of(pt)[1]
        chk.ob("O10.2", f"task key '{key}' -> Task({param}=...)", ok, e if e is not None else tctor[0], f"read from key {k!r}", key=f"{_L}:parse_task:key:{key}")
        if param not in ("tags", "meta_data"):
            chk.ob("O10.2", f"Task.{param} stores its parameter", stored.get(param) == param, tinit, f"stored in self.{stored.get(param)}", key=f"{_T}:Task.__init__:{param}")
        if key in INHERITED and call is not None and isinstance(call, ast.Call):
            dv = arg_of(call, None, "default_value")
            chk.ob("O10.2", f"task key '{key}' defaults to the parallel element's value", dv is not None and u(dv) == INHERITED[key], call, f"default_value={u(dv) if dv is not None else None}", key=f"{_L}:parse_task:default:{key}")
    ok = u(tb.get("completes_parent")) in ("task_name == completed_by_name", "completed_by_name == task_name") and u(tb.get("any_completes_parent")) in ("completed_by_name == 'any'", "'any' == completed_by_name")
    chk.ob("O10.2", "completed-by flags: name == completed-by / completed-by == 'any'", ok, tctor[0], "")
    ok = u(tb.get("operation")) == "op" and u(tb.get("params")) == params_of(pt)[1]
    chk.ob("O10.2", "operation and raw task spec handed to the task", ok, tctor[0], "")
    nm = tdefs.get("task_name")
    dvn = arg_of(nm, None, "default_value") if isinstance(nm, ast.Call) else None
    chk.ob("O10.2", "task name defaults to the operation name", dvn is not None and u(dvn) == "op.name", nm if nm is not None else pt, "")
    # parse_parallel: defaults read from the same keys and passed to the matching parameters
    pdefs = local_defs(pp)
    ptc = [c for c in source.calls_in(pp) if u(c.func) == "self.parse_task"]
    if not ptc:
        raise AnchorMissing("self.parse_task(...) in parse_parallel")
    pb = bind_args(ptc[0], pt)
    for key, param in INHERITED.items():
        e = pb.get(param)
        k, call = r_key(e, pdefs)
        ok = k == key and isinstance(call, ast.Call) and u(call.args[0]) == params_of(pp)[1]
        chk.ob("O10.2", f"parallel key '{key}' -> parse_task({param}=...)", ok, e if e is not None else ptc[0], f"read from key {k!r}", key=f"{_L}:parse_parallel:default:{key}")
    k, _ = r_key(pb.get("completed_by_name"), pdefs)
    chk.ob("O10.2", "parallel key 'completed-by' -> parse_task(completed_by_name=...)", k == "completed-by", ptc[0], f"read from key {k!r}")
    pr_ = [c for c in source.calls_in(pp) if dotted(c.func) == "track.Parallel"]
    k, _ = r_key(pr_[0].args[1], pdefs) if pr_ and len(pr_[0].args) > 1 else (None, None)
    chk.ob("O10.2", "parallel key 'clients' -> Parallel(clients)", k == "clients" and u(pr_[0].args[0]) == "tasks", pr_[0] if pr_ else pp, "")
    tl = [n for n in walk_body(pp) if isinstance(n, ast.For) and isinstance(n.iter, ast.Call) and r_key(n.iter)[0] == "tasks"]
    ok = bool(tl) and any(isinstance(c, ast.Call) and u(c.func) == "tasks.append" for c in ast.walk(tl[0])) and not any(isinstance(c, ast.Call) and (dotted(c.func) in ("sorted", "reversed") or last_attr(c.func) in ("sort", "reverse", "insert")) for c in walk_body(pp))
    chk.ob("O10.2", "sub-tasks kept in file order", ok, tl[0] if tl else pp, "")
    cc = sm["_create_challenges"]
    sl = [n for n in walk_body(cc) if isinstance(n, ast.For) and isinstance(n.iter, ast.Call) and r_key(n.iter)[0] == "schedule"]
    ok = bool(sl) and any(isinstance(c, ast.Call) and u(c.func) == "schedule.append" for c in ast.walk(sl[0])) and not any(isinstance(c, ast.Call) and (dotted(c.func) in ("sorted", "reversed") and "schedule" in u(c)) for c in walk_body(cc))
    chk.ob("O10.2", "schedule kept in file order", ok, sl[0] if sl else cc, "")
    if sl:
        br = [n for n in sl[0].body if isinstance(n, ast.If)]
        ok = bool(br) and u(br[0].test) == f"'parallel' in {sl[0].target.id}" and any(u(c.func) == "self.parse_parallel" and u(c.args[0]) == f"{sl[0].target.id}['parallel']" for c in ast.walk(br[0]) if isinstance(c, ast.Call)) \
            and any(u(c.func) == "self.parse_task" and u(c.args[0]) == sl[0].target.id for s_ in br[0].orelse for c in ast.walk(s_) if isinstance(c, ast.Call))
        chk.ob("O10.2", "parallel elements and plain tasks dispatched on the 'parallel' key", ok, br[0] if br else sl[0], "")
    # documents
    cr = sm["_create_corpora"]
    dctor = [c for c in source.calls_in(cr) if dotted(c.func) == "track.Documents"]
    if not dctor:
        raise AnchorMissing("track.Documents(...) in _create_corpora")
    DI = trk.methods(trk.cls("Documents"))["__init__"]
    db = bind_args(dctor[0], DI)
    cdefs = {}
    for n in walk_body(cr):
        if isinstance(n, ast.Assign) and len(n.targets) == 1 and isinstance(n.targets[0], ast.Name):
            cdefs.setdefault(n.targets[0].id, []).append(n.value)

    def doc_keys(e):
        """spec keys whose VALUE can flow into e (through locals and default_value=..., not through error contexts / mandatory flags)."""
        out = set()
        todo, seen = [e], set()
        while todo:
            x = todo.pop()
            if x is None:
                continue
            if isinstance(x, ast.Call) and u(x.func) == "self._r" and len(x.args) >= 2 and isinstance(x.args[1], ast.Constant):
                out.add(x.args[1].value)
                todo.append(arg_of(x, None, "default_value"))
                continue
            if isinstance(x, ast.Call) and dotted(x.func) == "track.Documents":
                continue
            if isinstance(x, ast.Name):
                if x.id in cdefs and x.id not in seen:
                    seen.add(x.id)
                    todo.extend(cdefs[x.id])
                continue
            todo.extend(c for c in ast.iter_child_nodes(x) if isinstance(c, ast.expr))
        return out

    for key, param in DOC_KEYS.items():
        e = db.get(param)
        ks = doc_keys(e) if e is not None else set()
        others = (ks - {key}) & (set(DOC_KEYS) | {"source-file"})
        chk.ob("O10.2", f"document key '{key}' -> Documents({param}=...)", key in ks and not others, e if e is not None else dctor[0], f"depends on keys {sorted(ks)}", key=f"{_L}:_create_corpora:key:{key}")
    ok = doc_keys(db.get("document_file")) == {"source-file"} and doc_keys(db.get("document_archive")) == {"source-file"}
    chk.ob("O10.2", "source-file -> document file / archive", ok, dctor[0], "")
    dstored = {n.value.id: n.targets[0].attr for n in walk_body(DI) if isinstance(n, ast.Assign) and is_self_attr(n.targets[0]) and isinstance(n.value, ast.Name)}
    for param in DOC_KEYS.values():
        if param == "meta_data":
            continue
        chk.ob("O10.2", f"Documents.{param} stores its parameter", dstored.get(param) in (param, "_" + param), DI, f"stored in self.{dstored.get(param)}", key=f"{_T}:Documents.__init__:{param}")

    # a default invented from the FIRST element of a collection is only sound when the collection has exactly one element; otherwise the key stays mandatory downstream
    from sa import pat
    n_first = 0
    for c in source.calls_in(cr):
        if u(c.func) != "self._r":
            continue
        dv = arg_of(c, None, "default_value")
        if dv is None:
            continue
        firsts = [x for x in ast.walk(dv) if isinstance(x, ast.Subscript) and source.is_const(x.slice, 0)]
        for x in firsts:
            n_first += 1
            coll = u(x.value)
            ok = pat.guarded(c, f"len({coll}) == 1") is not None
            chk.ob("O10.2", f"default `{short(dv, 40)}` for '{source.const(c.args[1]) if len(c.args) > 1 and isinstance(c.args[1], ast.Constant) else '?'}' only when `{coll}` has exactly one element", ok, c,
                   "" if ok else f"guards: {[u(f_) for f_ in pat.fact_nodes(c)]} — with several elements a missing mandatory target is silently replaced by the first one",
                   key=f"{_L}:_create_corpora:first-element-default:{u(x)}")
    chk.ob("O10.2", "first-element defaults located in _create_corpora", n_first >= 3, cr, f"{n_first} site(s)")

    # ---- O10.3 error helper -----------------------------------------------------------------------------------------------------------------------------------
    chk.rule("O10.3", "the error helper raises a track syntax error on every path", 1, "a detected rule violation is only logged and the invalid track is loaded")
    ef = sm["_error"]
    ge = cfg_of(ef)
    ok = ge.exit.id not in ge.reachable([ge.entry]) and any(isinstance(n, ast.Raise) and "TrackSyntaxError" in u(n.exc) for n in walk_body(ef))
    chk.ob("O10.3", "_error has no normal exit", ok, ef, "")

    # ---- O10.4 validation dominates construction -----------------------------------------------------------------------------------------------------------------
    chk.rule("O10.4", "schema validation and the version window check dominate the call that builds the track; their failures are re-raised as errors", 4,
             "a track violating the schema (or of an unsupported version) is loaded")
    rd = fm["read"]
    gr = cfg_of(rd)
    build = [c for c in source.calls_in(rd) if u(c.func) == "self.read_track"]
    val = [c for c in source.calls_in(rd) if dotted(c.func) == "jsonschema.validate"]
    if not build or not val:
        raise AnchorMissing("self.read_track(...) / jsonschema.validate(...) in TrackFileReader.read")
    bn = gr.node_of(build[0])
    ok = gr.dominated_by_nodes(bn, [gr.node_of(val[0])]) and [u(a) for a in val[0].args] == ["track_spec", "self.track_schema"] and u(build[0].args[1]) == "track_spec"
    chk.ob("O10.4", "jsonschema.validate(track_spec, schema) dominates construction of the same spec", ok, val[0], "")
    tv = source.enclosing(val[0], ast.Try)
    ok = tv is not None and all(gr.exit.id not in gr.reachable(gr.by_ast.get(id(h), [])) and any(isinstance(x, ast.Raise) and "TrackSyntaxError" in u(x.exc) for x in ast.walk(h)) for h in tv.handlers)
    chk.ob("O10.4", "validation errors re-raised as track syntax errors", ok, tv if tv is not None else rd, "")
    vt = [n for n in rd.body if isinstance(n, ast.If) and "SUPPORTED_TRACK_VERSION" in u(n.test)]
    ok = len(vt) == 2 and all(gr.dominated_by_nodes(bn, [gr.node_of(n)]) and gr.exit.id not in gr.reachable(gr.edge_targets(gr.node_of(n), "true")) for n in vt)
    tests = sorted(u(n.test) for n in vt)
    ok = ok and any("MINIMUM" in t and (">" in t) for t in tests) and any("MAXIMUM" in t and ("<" in t) for t in tests)
    chk.ob("O10.4", "version window check (below minimum / above maximum raise) dominates construction", ok, vt[0] if vt else rd, f"{tests}")
    sch = fm["__init__"]
    ok = any(isinstance(n, ast.Assign) and is_self_attr(n.targets[0], "track_schema") and "json.loads" in u(n.value) for n in walk_body(sch)) and any("track-schema.json" in u(n) for n in walk_body(sch))
    chk.ob("O10.4", "the schema is Rally's track-schema.json", ok, sch, "")
    # sibling cross-check inside the schema: a task key is constrained identically wherever it may be written (plain task, parallel element, task inside a parallel element;
    # corpus level and document level)
    import json as _json

    try:
        sj = _json.loads(repo.text("esrally/resources/track-schema.json"))
        items = sj["definitions"]["schedule"]["items"]["properties"]
        par = items["parallel"]["properties"]
        sub = par["tasks"]["items"]["properties"]
        corp = sj["properties"]["corpora"]["items"]["properties"]
        docs_ = corp["documents"]["items"]["properties"]
    except (KeyError, ValueError, TypeError) as e:
        raise AnchorMissing(f"task / parallel / corpus definitions in track-schema.json ({type(e).__name__}: {e})")

    def _strip(o):
        if isinstance(o, dict):
            return {k_: _strip(v_) for k_, v_ in o.items() if k_ != "description"}
        if isinstance(o, list):
            return [_strip(x_) for x_ in o]
        return o

    n_sib = 0
    for group, copies in (("task", (("plain task", items), ("parallel element", par), ("task in parallel", sub))), ("corpus", (("corpus", corp), ("document set", docs_)))):
        for k_ in sorted(set().union(*[set(d_) for _, d_ in copies])):
            if k_ in ("parallel", "tasks", "documents"):
                continue
            have = [(nm, _json.dumps(_strip(d_[k_]), sort_keys=True)) for nm, d_ in copies if k_ in d_]
            if len(have) < 2:
                continue
            n_sib += 1
            ok = len({v_ for _, v_ in have}) == 1
            chk.ob("O10.4", f"schema: '{k_}' is constrained identically in every place it may be written ({group})", ok, sch,
                   "" if ok else "; ".join(f"{nm}: {v_[:70]}" for nm, v_ in have) + " — a value rejected in one place is accepted in another", key=f"esrally/resources/track-schema.json:sibling:{group}:{k_}")
    chk.ob("O10.4", "schema sibling definitions located", n_sib >= 14, sch, f"{n_sib} shared key(s)")

    # ---- O10.5 documented rules ------------------------------------------------------------------------------------------------------------------------------------
    chk.rule("O10.5", "documented rules reject: duplicate task / challenge / operation / corpus names (dedupe idiom: membership test on the set/dict the same loop fills); none or several default "
             "challenges; iterations mixed with time periods and ramp-up without sufficient warm-up (decision table over 48 abstract tasks); ramp-up only on the parallel element; unknown or "
             "ambiguous completed-by; indices together with data streams; reserved and unused track parameters between building and returning the track", 50,
             "a specification violating that rule is loaded and run instead of being rejected")

    def dedupe(func, what, container_hint):
        errs = [c for c in source.calls_in(func) if u(c.func) == "self._error" and c.args and what in u(c.args[0]).lower()]
        ok = False
        detail = "no rejecting site"
        for c in errs:
            gs = guards(c)
            for t, pol in gs:
                if pol and isinstance(t, ast.Compare) and isinstance(t.ops[0], ast.In):
                    cont = u(t.comparators[0])
                    elem = u(t.left)
                    loop = source.enclosing(c, ast.For)
                    fills = [x for x in ast.walk(loop if loop is not None else func) if (isinstance(x, ast.Call) and u(x.func) == f"{cont}.add" and u(x.args[0]) == elem) or
                             (isinstance(x, ast.Assign) and isinstance(x.targets[0], ast.Subscript) and u(x.targets[0].value) == cont and u(x.targets[0].slice) == elem)]
                    ok = bool(fills)
                    detail = f"`{u(t)}` rejects; filled by {short(fills[0], 50) if fills else 'NOTHING (the membership test can never be true)'}"
        chk.ob("O10.5", f"duplicate {container_hint} names rejected (dedupe idiom)", ok, errs[0] if errs else func, detail, key=f"{_L}:{func.name}:dedupe:{container_hint}")

    dedupe(cc, "multiple tasks with the name", "task")
    dedupe(cc, "duplicate challenge", "challenge")
    dedupe(sm["parse_operations"], "duplicate operation", "operation")
    dedupe(cr, "duplicate document corpus", "corpus")
    # default challenge rules
    errs = {("both" in u(c.args[0]).lower() and "default" in u(c.args[0]).lower()): c for c in source.calls_in(cc) if u(c.func) == "self._error" and c.args}
    two = [c for c in source.calls_in(cc) if u(c.func) == "self._error" and c.args and "defined as default challenges" in u(c.args[0])]
    ok = bool(two) and any(pol and {u(a) for a in atoms_of(t)} == {"default", "default_challenge is not None"} for t, pol in guards(two[0]))
    sets = [n for n in walk_body(cc) if isinstance(n, ast.Assign) and u(n.targets[0]) == "default_challenge" and u(n.value) == "challenge"]
    ok = ok and bool(sets) and any(pol and u(t) == "default" for t, pol in guards(sets[0]))
    chk.ob("O10.5", "several default challenges rejected", ok, two[0] if two else cc, "")
    none = [c for c in source.calls_in(cc) if u(c.func) == "self._error" and c.args and "No default challenge" in u(c.args[0])]
    ok = bool(none) and any(pol and {u(a) for a in atoms_of(t)} == {"challenges", "default_challenge is None"} for t, pol in guards(none[0])) and not isinstance(source.enclosing(none[0], ast.For), ast.For)
    chk.ob("O10.5", "no default challenge rejected (after all challenges were read)", ok, none[0] if none else cc, "")
    # mixing rules: decision table over abstract tasks
    idx = pt.body.index(source.enclosing_stmt(tctor[0])) if source.enclosing_stmt(tctor[0]) in pt.body else None
    if idx is None:
        raise AnchorMissing("task construction statement at top level of parse_task")
    block = [s for s in pt.body[idx + 1:] if not isinstance(s, ast.Return)]
    n_rows = 0
    for wi, it, wt, tp, ru in itertools.product([False, True], [False, True], [False, True], [False, True], ["none", "le", "gt"]):
        if ru != "none" and not wt and ru == "le":
            continue  # ramp-up compared with a missing warm-up: covered by the 'gt' representative
        env = {"task": type("T", (), {})()}
        t_ = env["task"]
        t_.warmup_iterations = 100 if wi else None
        t_.iterations = 100 if it else None
        t_.warmup_time_period = 60 if wt else None
        t_.time_period = 600 if tp else None
        t_.ramp_up_time_period = None if ru == "none" else (30 if ru == "le" else 120)

        def atom(n, e_):
            class Sub(ast.NodeTransformer):
                def visit_Attribute(self, a):
                    if isinstance(a.value, ast.Name) and a.value.id == "task" and hasattr(t_, a.attr):
                        return ast.Constant(value=getattr(t_, a.attr))
                    return a

            try:
                return bool(ev(Sub().visit(source.clone(n)), {}))
            except CannotEval:
                return None

        def on_stmt(s, e_, b):
            if isinstance(s, ast.Expr) and isinstance(s.value, ast.Call) and u(s.value.func) == "self._error":
                from sa.tables import Outcome
                return Outcome("raise", s.value, [], s)
            return None

        try:
            out = decide(block, atom, {}, on_stmt=on_stmt)
        except (Unsupported, UnknownAtom) as e:
            chk.unknown("O10.5", f"validation block of parse_task is not a decision over the five task fields: {e}", pt)
            break
        rejected = out.kind == "raise"
        want = (wi and tp) or (wt and it) or ((wi or it) and ru != "none") or (ru != "none" and not wt) or (ru == "gt" and wt)
        n_rows += 1
        desc = ", ".join(k for k, v in (("warmup-iterations", wi), ("iterations", it), ("warmup-time-period", wt), ("time-period", tp)) if v) or "no iteration/time fields"
        desc += {"none": "", "le": ", ramp-up <= warm-up", "gt": ", ramp-up > warm-up period (or no warm-up period)"}[ru]
        chk.ob("O10.5", f"task with {desc}: {'rejected' if want else 'accepted'}", rejected == want, pt, f"code {'rejects' if rejected else 'accepts'}; documented: {'reject' if want else 'accept'}",
               key=f"{_L}:parse_task:mix:{wi}|{it}|{wt}|{tp}|{ru}")
    chk.ob("O10.5", "mixing-rule table evaluated", n_rows >= 40, pt, f"{n_rows} abstract tasks")
    # ramp-up only on the parallel element
    ru_err = [c for c in source.calls_in(pp) if u(c.func) == "self._error" and c.args and "ramp-up-time-period" in u(c.args[0])]
    ok = len(ru_err) == 2 and all(any(pol and u(t) == "task.ramp_up_time_period != default_ramp_up_time_period" for t, pol in guards(c)) for c in ru_err)
    chk.ob("O10.5", "a task inside a parallel element may not set its own ramp-up", ok, ru_err[0] if ru_err else pp, "")
    # completed-by
    cb_err = [c for c in source.calls_in(pp) if u(c.func) == "self._error" and c.args and "completed-by" in u(c.args[0])]
    no_task = [c for c in cb_err if "no task with this name" in u(c.args[0])]
    multi = [c for c in cb_err if "multiple tasks" in u(c.args[0])]
    ok = bool(no_task) and any(pol and u(t) == "not has_completion_task" for t, pol in guards(no_task[0])) and any(pol and u(t) == "completed_by" for t, pol in guards(no_task[0]))
    chk.ob("O10.5", "unknown completed-by task rejected", ok, no_task[0] if no_task else pp, "")
    ok = bool(multi) and any(pol and u(t) == "task.completes_parent" for t, pol in guards(multi[0]))
    chk.ob("O10.5", "ambiguous completed-by (several tasks with that name) rejected", ok, multi[0] if multi else pp, "")
    # indices + data streams
    call = sm["__call__"]
    both = [n for f in (call, cr) for n in walk_body(f) if isinstance(n, ast.Raise) and "cannot both be specified" in u(n.exc)]
    ok = len(both) >= 1 and all(any(pol and {u(a) for a in atoms_of(t)} == {"len(indices) > 0", "len(data_streams) > 0"} for t, pol in guards(n)) for n in both)
    chk.ob("O10.5", "indices together with data streams rejected", ok, both[0] if both else call, "")
    # reserved / unused track params between building and returning
    rets = [n for n in rd.body if isinstance(n, ast.Return)]
    for what, meth in (("reserved", "internal_user_defined_track_params"), ("unused", "unused_user_defined_track_params")):
        cs = [c for c in source.calls_in(rd) if last_attr(c.func) == meth]
        ok = False
        if cs and rets:
            v = source.enclosing_stmt(cs[0]).targets[0].id if isinstance(source.enclosing_stmt(cs[0]), ast.Assign) else None
            tests = [n for n in rd.body if isinstance(n, ast.If) and u(n.test) in (f"len({v}) > 0", v)]
            ok = bool(tests) and gr.dominated_by_nodes(gr.node_of(cs[0]), [bn]) and gr.dominated_by_nodes(gr.node_of(rets[-1]), [gr.node_of(tests[0])]) and gr.exit.id not in gr.reachable(gr.edge_targets(gr.node_of(tests[0]), "true")) \
                and any(isinstance(x, ast.Raise) and "TrackConfigError" in u(x.exc) for x in ast.walk(tests[0]))
        chk.ob("O10.5", f"{what} track parameters rejected between building and returning the track", ok, cs[0] if cs else rd, "")
    CT = ldr.cls("CompleteTrackParams")
    un = ldr.methods(CT)["unused_user_defined_track_params"]
    ok = any(isinstance(c, ast.Call) and last_attr(c.func) == "difference_update" and u(c.args[0]) == "self.track_defined_params" for c in walk_body(un))
    chk.ob("O10.5", "unused == user-specified minus track-defined parameters", ok, un, "")
    iu = ldr.methods(CT)["internal_user_defined_track_params"]
    ok = any(isinstance(n, ast.BinOp) and isinstance(n.op, ast.BitAnd) for n in walk_body(iu)) and any("default_internal_template_vars()['globals']" in u(n) for n in walk_body(iu))
    chk.ob("O10.5", "reserved == user-specified intersected with Rally's internal globals", ok, iu, "")
    # operation missing / unknown source format
    chk.ob("O10.5", "task without operation rejected", any(isinstance(n, ast.Raise) and any(pol and u(t) == f"'operation' not in {params_of(pt)[1]}" for t, pol in guards(n)) for n in walk_body(pt)), pt, "")

    # ---- O10.6 parameter accounting ----------------------------------------------------------------------------------------------------------------------------------
    chk.rule("O10.6", "every template that is rendered has its undeclared variables registered with the accounting object before rendering (track file and every included index / template body); "
             "nested includes resolve relative to the including file", 5,
             "a track parameter used only in an included body is reported as unused (valid track rejected) / parts vanish from the assembled track")
    for f in ldr.functions():
        rcalls = [c for c in source.calls_in(f) if last_attr(c.func) == "render_template" and f.name != "render_template"]
        for rc in rcalls:
            g = cfg_of(f)
            regs = [c for c in source.calls_in(f) if last_attr(c.func) == "register_all_params_in_track"]
            src = arg_of(rc, 0, "template_source")
            ok = bool(regs) and g.dominated_by_nodes(g.node_of(rc), [g.node_of(x) for x in regs]) and src is not None and any(u(x.args[0]) == u(src) for x in regs) \
                and all(len(x.args) >= 2 and "complete_track_params" in u(x.args[1]) for x in regs)
            chk.ob("O10.6", f"{source.qualname(f)}: variables registered before rendering the same source", ok, rc, "")
    ra = ldr.func("register_all_params_in_track")
    ok = any(isinstance(c, ast.Call) and last_attr(c.func) == "find_undeclared_variables" for c in walk_body(ra)) and any(isinstance(c, ast.Call) and last_attr(c.func) == "populate_track_defined_params" for c in walk_body(ra))
    chk.ob("O10.6", "registration collects the undeclared variables of the assembled source", ok, ra, "")
    pop = ldr.methods(CT)["populate_track_defined_params"]
    ok = any(isinstance(c, ast.Call) and u(c.func) == "self.track_defined_params.update" for c in walk_body(pop))
    chk.ob("O10.6", "registrations accumulate (update, not replace)", ok, pop, "")
    TS = ldr.cls("TemplateSource")
    ri = ldr.methods(TS)["replace_includes"]
    rec = [c for c in source.calls_in(ri) if u(c.func) == "self.replace_includes"]
    ok = False
    detail = "no recursive call"
    if rec:
        b = bind_args(rec[0], ri)
        bp = b.get("base_path")
        ok = bp is not None and isinstance(bp, ast.Call) and last_attr(bp.func) == "dirname" and u(bp.args[0]) == "full_glob_path" and u(local_defs(ri).get("full_glob_path") or ast.Constant(value=None)).startswith("os.path.join(base_path, ")
        detail = f"base_path={u(bp) if bp is not None else None}"
    chk.ob("O10.6", "nested includes resolve relative to the included file's directory", ok, rec[0] if rec else ri, detail)
    lf = ldr.methods(TS)["load_template_from_file"]
    ok = any(isinstance(c, ast.Call) and u(c.func) == "self.replace_includes" and u(c.args[0]) == "self.base_path" for c in walk_body(lf))
    chk.ob("O10.6", "top-level includes resolve relative to the track's directory", ok, lf, "")
    # built-in macros (embedded Jinja source): parsed with jinja2's own parser, never rendered
    rt0 = ldr.func("render_template")
    macro_texts = [e.value for n in walk_body(rt0) if isinstance(n, ast.Assign) and u(n.targets[0]) == "macros" and isinstance(n.value, ast.List) for e in n.value.elts if isinstance(e, ast.Constant) and isinstance(e.value, str)]
    try:
        import jinja2
        import jinja2.nodes as jn

        n_def = 0
        for mt_ in macro_texts:
            tree = jinja2.Environment().parse(mt_)
            for f_ in tree.find_all(jn.Filter):
                if f_.name == "default":
                    n_def += 1
                    boolean = (len(f_.args) >= 2 and not (isinstance(f_.args[1], jn.Const) and f_.args[1].value is False)) or any(k.key == "boolean" and not (isinstance(k.value, jn.Const) and k.value.value is False) for k in f_.kwargs)
                    chk.ob("O10.6", "built-in macro: `default` filter replaces only UNDEFINED values (not boolean mode)", not boolean, rt0,
                           "" if not boolean else "default(x, true) also replaces defined falsy values: a user-supplied 0 / false / '' is silently overridden by the track's default")
        chk.ob("O10.6", "built-in macros parsed", len(macro_texts) >= 2 and n_def >= 1, rt0, f"{len(macro_texts)} macro source(s), {n_def} default filter(s)")
    except ImportError:
        chk.adv("O10.6", "jinja2 is not importable in this interpreter: the embedded macro sources were not parsed", rt0)

    # user variables never override internal ones: internal applied after user vars
    rt = ldr.func("render_template")
    g = cfg_of(rt)
    uv = [n for n in walk_body(rt) if isinstance(n, ast.Assign) and u(n.targets[0]).startswith("env.globals[")]
    iv = [n for n in walk_body(rt) if isinstance(n, ast.Assign) and u(n.targets[0]).startswith("getattr(env, ")]
    ok = bool(uv) and bool(iv) and not g.path_exists(g.node_of(iv[0]), g.node_of(uv[0]))
    chk.ob("O10.6", "internal template variables are applied after (and so win over) user variables", ok, iv[0] if iv else rt, "")


from sa.selftest import V  # noqa: E402

VARIANTS = [
    V("one registry arm dropped", "break", _T, "        elif v == \"bulk\":\n            return OperationType.Bulk\n", "", "O10.1"),
    V("duplicate literal", "break", _T, "        elif v == \"node-stats\":\n            return OperationType.NodeStats", "        elif v == \"index-stats\":\n            return OperationType.NodeStats", "O10.1"),
    V("literal returns another member", "break", _T, "        elif v == \"scroll-search\":\n            return OperationType.ScrollSearch", "        elif v == \"scroll-search\":\n            return OperationType.Search", "O10.1"),
    V("warmup-iterations/iterations keys swapped", "break", _L, "            iterations=self._r(task_spec, \"iterations\", error_ctx=op.name, mandatory=False, default_value=default_iterations),", "            iterations=self._r(task_spec, \"warmup-iterations\", error_ctx=op.name, mandatory=False, default_value=default_iterations),", "O10.2"),
    V("wrong default for warmup-iterations", "break", _L, "                task_spec, \"warmup-iterations\", error_ctx=op.name, mandatory=False, default_value=default_warmup_iterations", "                task_spec, \"warmup-iterations\", error_ctx=op.name, mandatory=False, default_value=default_iterations", "O10.2"),
    V("parallel passes defaults in the wrong order", "break", _L, "                    default_warmup_time_period,\n                    default_time_period,\n                    default_ramp_up_time_period,", "                    default_time_period,\n                    default_warmup_time_period,\n                    default_ramp_up_time_period,", "O10.2"),
    V("compressed/uncompressed bytes swapped", "break", _L, "                        compressed_size_in_bytes=compressed_bytes,\n                        uncompressed_size_in_bytes=uncompressed_bytes,", "                        compressed_size_in_bytes=uncompressed_bytes,\n                        uncompressed_size_in_bytes=compressed_bytes,", "O10.2"),
    V("_error only logs", "break", _L, "        raise TrackSyntaxError(\"Track '%s' is invalid. %s\" % (self.name, msg))", "        logging.getLogger(__name__).error(\"Track '%s' is invalid. %s\", self.name, msg)", "O10.3"),
    V("validation error swallowed", "break", _L, "        except jsonschema.exceptions.ValidationError as ve:\n            raise TrackSyntaxError(", "        except jsonschema.exceptions.ValidationError as ve:\n            self.logger.warning(", "O10.4"),
    V("dedupe add removed (task names)", "break", _L, "                    else:\n                        known_task_names.add(sub_task.name)", "                    else:\n                        pass", "O10.5"),
    V("dedupe add removed (challenge names)", "break", _L, "            known_challenge_names.add(name)\n", "", "O10.5"),
    V("seed m3: ramp-up rule needs both iteration fields", "break", _L, "        if (task.warmup_iterations is not None or task.iterations is not None) and task.ramp_up_time_period is not None:", "        if task.warmup_iterations is not None and task.iterations is not None and task.ramp_up_time_period is not None:", "O10.5"),
    V("or -> and in a mixing rule", "break", _L, "        if task.warmup_iterations is not None and task.time_period is not None:", "        if task.warmup_iterations is not None and task.time_period is not None and task.iterations is not None:", "O10.5"),
    V("ramp-up may exceed warm-up", "break", _L, "            elif task.warmup_time_period < task.ramp_up_time_period:", "            elif task.warmup_time_period < 0:", "O10.5"),
    V("unused parameters only logged", "break", _L, "            raise exceptions.TrackConfigError(f\"Unused track parameters {sorted(unused_user_defined_track_params)}.\")", "            pass", "O10.5"),
    V("no registration for included templates", "break", _L, "        self.logger.info(\"Loading template [%s].\", description)\n        register_all_params_in_track(contents, self.complete_track_params)", "        self.logger.info(\"Loading template [%s].\", description)", "O10.6"),
    V("seed m2: nested includes relative to the outer base", "break", _L, "                repl[glob_pattern] = self.replace_includes(base_path=io.dirname(full_glob_path), track_fragment=sub_source)", "                repl[glob_pattern] = self.replace_includes(base_path=base_path, track_fragment=sub_source)", "O10.6"),
    V("seed m1: default filter in boolean mode", "break", _L, "{{ value | default(default_value) | tojson }}", "{{ value | default(default_value, true) | tojson }}", "O10.6"),
    # preserving
    V("keyword reorder in Task(...)", "keep", _L, "            name=task_name,\n            operation=op,", "            operation=op,\n            name=task_name,"),
    V("mixing rule operands swapped", "keep", _L, "        if task.warmup_iterations is not None and task.time_period is not None:", "        if task.time_period is not None and task.warmup_iterations is not None:"),
    V("De Morgan in the ramp-up rule", "keep", _L, "        if (task.warmup_iterations is not None or task.iterations is not None) and task.ramp_up_time_period is not None:", "        if not (task.warmup_iterations is None and task.iterations is None) and task.ramp_up_time_period is not None:"),
]
