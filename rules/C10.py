"""C10 — a loaded track is exactly what the file says; invalid tracks are rejected (DESIGN.md section 4, C10)."""
from __future__ import annotations

import ast
import itertools
import re

from sa import pat, source
from sa.cfg import cfg_of, negate
from sa.classes import is_logging_stmt
from sa.minieval import CannotEval, Record, ev
from sa.source import AnchorMissing, arg_of, bind_args, dotted, is_self_attr, last_attr, local_defs, params_of, short, u, walk_body
from sa.tables import Unsupported

_L = "esrally/track/loader.py"
_T = "esrally/track/track.py"
_R = "esrally/driver/runner.py"
_P = "esrally/track/params.py"
_S = "esrally/resources/track-schema.json"

# documented task keys -> Task constructor parameter (docs/track.rst, schedule element properties)
TASK_KEYS = {
    "name": "name", "tags": "tags", "meta": "meta_data", "warmup-iterations": "warmup_iterations", "iterations": "iterations",
    "warmup-time-period": "warmup_time_period", "time-period": "time_period", "ramp-up-time-period": "ramp_up_time_period",
    "clients": "clients", "schedule": "schedule",
}
INHERITED = {"warmup-iterations": "default_warmup_iterations", "iterations": "default_iterations", "warmup-time-period": "default_warmup_time_period",
             "time-period": "default_time_period", "ramp-up-time-period": "default_ramp_up_time_period"}
DOC_KEYS = {"base-url": "base_url", "source-format": "source_format", "document-count": "number_of_documents", "compressed-bytes": "compressed_size_in_bytes",
            "uncompressed-bytes": "uncompressed_size_in_bytes", "includes-action-and-meta-data": "includes_action_and_meta_data", "target-index": "target_index",
            "target-type": "target_type", "target-data-stream": "target_data_stream", "meta": "meta_data"}

# values docs/track.rst documents for operation parameters that the top-level `operations` block of track-schema.json constrains: (operation type, key, representative value).
# One representative per documented form ("a string otherwise a list of strings"; "number of pages ... To retrieve all result pages, use the value "all"").
DOCUMENTED_OPERATION_VALUES = [
    ("bulk", "bulk-size", 5000), ("bulk", "pipeline", "my-pipeline"), ("bulk", "conflicts", "sequential"), ("bulk", "conflicts", "random"), ("bulk", "request-timeout", 1.5),
    ("force-merge", "index", "logs-2024"), ("force-merge", "mode", "blocking"), ("force-merge", "mode", "polling"), ("force-merge", "poll-period", 10),
    ("search", "index", "logs-*"), ("search", "type", "docs"), ("search", "cache", True), ("search", "cache", False), ("search", "body", {"query": {"match_all": {}}}),
    ("search", "pages", 2), ("search", "pages", "all"), ("search", "results-per-page", 100),
    ("paginated-search", "pages", 2), ("paginated-search", "pages", "all"), ("paginated-search", "results-per-page", 100),
    ("scroll-search", "pages", 2), ("scroll-search", "pages", "all"), ("scroll-search", "results-per-page", 100),
    ("composite-agg", "pages", 2), ("composite-agg", "pages", "all"), ("composite-agg", "results-per-page", 100),
    ("sql", "pages", 2), ("sql", "body", {"query": "SELECT 1"}),
    ("create-index", "index", "logs-1"), ("create-index", "index", ["logs-1", "logs-2"]), ("create-index", "body", {"settings": {"index.number_of_shards": 1}}),
    ("delete-index", "index", "logs-1"), ("delete-index", "index", ["logs-1", "logs-2"]),
    ("refresh", "index", "logs-1"), ("open-point-in-time", "index", "logs-*"),
]


def _accepts_local(schema, inst, root):
    """None if `inst` satisfies the draft-04 `schema`, else the reason. Only the keywords listed here are interpreted; any other keyword raises Unsupported (-> inconclusive)."""
    ignored = {"title", "description", "$schema", "definitions", "default", "id", "examples"}
    types = {"string": lambda x: isinstance(x, str), "integer": lambda x: isinstance(x, int) and not isinstance(x, bool), "boolean": lambda x: isinstance(x, bool),
             "number": lambda x: isinstance(x, (int, float)) and not isinstance(x, bool), "object": lambda x: isinstance(x, dict), "array": lambda x: isinstance(x, list), "null": lambda x: x is None}
    if "$ref" in schema:
        ref = schema["$ref"]
        if not (isinstance(ref, str) and ref.startswith("#/")):
            raise Unsupported(f"$ref {ref!r}")
        tgt = root
        for part in ref[2:].split("/"):
            tgt = tgt[part.replace("~1", "/").replace("~0", "~")]
        return _accepts_local(tgt, inst, root)
    num = isinstance(inst, (int, float)) and not isinstance(inst, bool)
    for kw, val in schema.items():
        if kw in ignored:
            continue
        if kw == "type":
            names = val if isinstance(val, list) else [val]
            if any(n not in types for n in names):
                raise Unsupported(f"type {val!r}")
            if not any(types[n](inst) for n in names):
                return f"{inst!r} is not of type {val!r}"
        elif kw == "enum":
            if not any(inst == x and isinstance(inst, bool) == isinstance(x, bool) for x in val):
                return f"{inst!r} is not one of {val!r}"
        elif kw in ("minimum", "maximum"):
            excl = schema.get("exclusiveMinimum" if kw == "minimum" else "exclusiveMaximum", False)
            if num and ((inst < val or (excl and inst == val)) if kw == "minimum" else (inst > val or (excl and inst == val))):
                return f"{inst!r} violates {kw} {val!r}"
        elif kw in ("exclusiveMinimum", "exclusiveMaximum"):
            if not isinstance(val, bool):
                raise Unsupported(f"{kw} {val!r} (not draft-04)")
        elif kw in ("minLength", "maxLength"):
            if isinstance(inst, str) and (len(inst) < val if kw == "minLength" else len(inst) > val):
                return f"{inst!r} violates {kw} {val!r}"
        elif kw == "pattern":
            if isinstance(inst, str) and re.search(val, inst) is None:
                return f"{inst!r} does not match {val!r}"
        elif kw in ("minItems", "maxItems"):
            if isinstance(inst, list) and (len(inst) < val if kw == "minItems" else len(inst) > val):
                return f"{inst!r} violates {kw} {val!r}"
        elif kw == "uniqueItems":
            if val and isinstance(inst, list) and any(inst[i] == inst[j] for i in range(len(inst)) for j in range(i)):
                return f"{inst!r} has non-unique items"
        elif kw == "items":
            if not isinstance(val, dict):
                raise Unsupported("tuple-typed items")
            if isinstance(inst, list):
                for x in inst:
                    r = _accepts_local(val, x, root)
                    if r is not None:
                        return r
        elif kw == "properties":
            if isinstance(inst, dict):
                for pk, ps in val.items():
                    if pk in inst:
                        r = _accepts_local(ps, inst[pk], root)
                        if r is not None:
                            return r
        elif kw == "additionalProperties":
            if isinstance(inst, dict) and val is not True:
                extra = [pk for pk in inst if pk not in schema.get("properties", {})]
                if "patternProperties" in schema:
                    raise Unsupported("patternProperties")
                for pk in extra:
                    if val is False:
                        return f"additional property {pk!r}"
                    r = _accepts_local(val, inst[pk], root)
                    if r is not None:
                        return r
        elif kw == "required":
            if isinstance(inst, dict):
                missing = [pk for pk in val if pk not in inst]
                if missing:
                    return f"required {missing!r} missing"
        elif kw in ("anyOf", "oneOf"):
            n_ok = sum(1 for s_ in val if _accepts_local(s_, inst, root) is None)
            if n_ok == 0 or (kw == "oneOf" and n_ok != 1):
                return f"{inst!r} is not valid under {'any' if n_ok == 0 else 'exactly one'} of the {kw} alternatives"
        elif kw == "allOf":
            for s_ in val:
                r = _accepts_local(s_, inst, root)
                if r is not None:
                    return r
        elif kw == "not":
            if _accepts_local(val, inst, root) is None:
                return f"{inst!r} is valid under the `not` schema"
        else:
            raise Unsupported(f"schema keyword {kw!r}")
    return None


def schema_acceptor(schema):
    """instance -> None (accepted) / reason (rejected), deciding an EXTRACTED constant schema: with the jsonschema package when it is importable (the validator class the schema's own
    $schema selects, as jsonschema.validate does), otherwise with the local draft-04 subset."""
    try:
        import jsonschema

        validator = jsonschema.validators.validator_for(schema)(schema)

        def accepts(inst):
            try:
                err = next(iter(validator.iter_errors(inst)), None)
            except Exception as e:  # a malformed schema (unresolvable $ref, wrong keyword value) surfaces from inside the library: inconclusive, not a verdict
                raise Unsupported(f"jsonschema: {type(e).__name__}: {e}")
            return None if err is None else err.message

        return accepts
    except ImportError:
        return lambda inst: _accepts_local(schema, inst, schema)


def hyphenate(name: str) -> str:
    return "".join(["-" + c.lower() if c.isupper() else c for c in name]).lstrip("-")


_READER = ["_r"]  # role, set by run(): the method of the specification reader through which keys are read (self.<reader>(<spec>, "<key>", ...))


def r_key(e, defs=None):
    """key string of a `self._r(spec, "key", ...)` expression (through one local)."""
    if isinstance(e, ast.Name) and defs and e.id in defs:
        e = defs[e.id]
    if isinstance(e, ast.Call) and isinstance(e.func, ast.Attribute) and is_self_attr(e.func, _READER[0]) and isinstance(arg_of(e, 1, "path"), ast.Constant):
        return arg_of(e, 1, "path").value, e
    return None, e


def r_root(call):
    """text of the spec a `self._r(spec, "key", ...)` call reads from."""
    return u(arg_of(call, 0, "root")) if isinstance(call, ast.Call) and arg_of(call, 0, "root") is not None else None


def method(mod, cls, name):
    """method `name` of class `cls` (AnchorMissing, not KeyError, if it is gone)."""
    m = mod.methods(cls).get(name)
    if m is None:
        raise AnchorMissing(f"{cls.name}.{name}")
    return m


def stmts_of(body):
    """statements of a body that matter: docstrings and logging statements dropped."""
    return [s for s in body if not is_logging_stmt(s) and not (isinstance(s, ast.Expr) and isinstance(s.value, ast.Constant) and isinstance(s.value.value, str))]


def rejecting_condition(g, ifnode):
    """the condition (AST) under which this if statement never reaches the normal exit of its function, whichever arm holds the raise; None if neither / both arms do."""
    n = g.node_of(ifnode)
    t_dead = g.exit.id not in g.reachable(g.edge_targets(n, "true"))
    f_dead = g.exit.id not in g.reachable(g.edge_targets(n, "false"))
    if t_dead and not f_dead:
        return ifnode.test
    if f_dead and not t_dead:
        return negate(ifnode.test)
    return None


def name_of(e):
    return e.id if isinstance(e, ast.Name) else None


def assigned_from(func, pred):
    """names of the locals assigned (simple `x = <call>`) from a call satisfying pred."""
    return [n.targets[0].id for n in walk_body(func) if isinstance(n, ast.Assign) and len(n.targets) == 1 and isinstance(n.targets[0], ast.Name) and isinstance(n.value, ast.Call) and pred(n.value)]


# ---- a small interpreter over EXTRACTED statements ---------------------------------------------------------------------------------------------------------
# Values are Python containers / numbers / strings, Record and Opaque (an uninterpreted value: the result of a call the rule does not interpret, an attribute of such a value,
# a free name). Two Opaque values are equal iff they were built the same way from equal arguments, so "the name of the task parsed from spec A" equals itself and differs from the
# one parsed from spec B — which is all a dedupe idiom or an order-preserving loop can observe. Nothing of the repository is ever called; whatever the interpreter does not
# understand raises CannotEval and the rule reports "not recognised".

class Opaque:
    __slots__ = ("sig",)

    def __init__(self, *sig):
        self.sig = sig

    def __eq__(self, o):
        return isinstance(o, Opaque) and self.sig == o.sig

    def __ne__(self, o):
        return not self.__eq__(o)

    def __hash__(self):
        return hash(self.sig)

    def __lt__(self, o):
        return repr(self) < repr(o)

    def __bool__(self):
        raise CannotEval(f"truth value of the uninterpreted {self!r}")

    def __repr__(self):
        return "<" + " ".join(str(x) for x in self.sig) + ">"


class EnumCls(Opaque):
    """an Enum class of the repository as a value: equal to the uninterpreted `<free Name>` (so everything that only compares stays as it was), but it can be iterated
    (members in declaration order, aliases left out), subscripted by member name, called with a member value and asked for members / __members__ / its own methods."""
    __slots__ = ("model",)

    def __init__(self, model):
        super().__init__("free", model.name)
        self.model = model

    def __iter__(self):
        return iter(self.model.iteration())

    def __len__(self):
        return len(self.model.iteration())


class EnumMember(Opaque):
    """a member of such a class: equal to the uninterpreted `<attr <free Name> Member>`; .name / .value, the attributes its __init__ stores, the properties and methods of the
    class body are interpreted (from the class's own source)."""
    __slots__ = ("model",)

    def __init__(self, model, name):
        super().__init__("attr", Opaque("free", model.name), name)
        self.model = model


class EnumModel:
    """what the interpreter knows of one Enum class (extracted from its ClassDef; nothing is imported or run): member names in declaration order with their value expressions,
    the functions of the class body."""
    ENUM_BASES = ("Enum", "IntEnum", "StrEnum", "Flag", "IntFlag")

    def __init__(self, cls_node):
        self.name = cls_node.name
        self.node = cls_node
        self.exprs = {}
        for n in cls_node.body:
            t = n.targets[0] if isinstance(n, ast.Assign) and len(n.targets) == 1 else (n.target if isinstance(n, ast.AnnAssign) and n.value is not None else None)
            if isinstance(t, ast.Name) and not (t.id.startswith("_") and t.id.endswith("_")) and not t.id.startswith("__"):
                self.exprs[t.id] = n.value
        self.methods = {n.name: n for n in cls_node.body if isinstance(n, ast.FunctionDef)}
        self.cls = EnumCls(self)
        self.members = {n: EnumMember(self, n) for n in self.exprs}
        self._values = None
        self._fields = {}

    @classmethod
    def of(cls, cls_node):
        """the model if the class derives (directly) from an Enum base, else None."""
        if cls_node is not None and any(last_attr(b) in cls.ENUM_BASES for b in cls_node.bases) and not cls_node.keywords:
            return cls(cls_node)
        return None

    def kind_of(self, f):
        decos = {last_attr(d.func if isinstance(d, ast.Call) else d) for d in f.decorator_list}
        if decos - {"classmethod", "staticmethod", "property", "cached_property", "lru_cache", "cache"}:
            return None  # a decorator this model does not know: the function stays uninterpreted
        return "class" if "classmethod" in decos else ("static" if "staticmethod" in decos else ("property" if decos & {"property", "cached_property"} else "method"))

    def values(self):
        """{member name: frozen value}; member values are interpreted without this model (a tuple of numbers and uninterpreted constants of other classes)."""
        if self._values is None:
            vals = {}
            for i, (n, e) in enumerate(self.exprs.items()):
                if isinstance(e, ast.Call) and last_attr(e.func) == "auto":
                    vals[n] = ("auto", i)  # auto(): a value of its own by construction
                else:
                    v = Sim().ev(e, {})
                    if isinstance(v, Opaque):
                        raise CannotEval(f"value of the enum member {self.name}.{n} is not interpreted: {u(e)[:40]}")
                    vals[n] = v
            self._values = vals
        return self._values

    def iteration(self):
        """members in declaration order; a member whose value repeats an earlier one is an alias and is not visited (Enum semantics)."""
        seen, out = [], []
        for n, v in self.values().items():
            fv = _freeze(v)
            if fv in seen:
                continue
            seen.append(fv)
            out.append(self.members[n])
        return out

    def canonical(self, name):
        """the member a name stands for (an alias is the first member with that value)."""
        vals = self.values()
        fv = _freeze(vals[name])
        return self.members[next(n for n, v in vals.items() if _freeze(v) == fv)]

    def by_value(self, sim, v, node):
        if isinstance(v, Opaque):
            raise CannotEval(f"{self.name}(<uninterpreted value>)")
        for n, mv in self.values().items():
            if type(mv) is type(v) and _freeze(mv) == _freeze(v):
                return self.members[n]
        raise _Sig("error", f"ValueError: {v!r} is not a valid {self.name}", node, "ValueError")

    def class_attr(self, sim, attr):
        if attr in self.members:
            return self.members[attr]
        if attr == "__members__":
            return dict(self.members)
        if attr == "__name__":
            return self.name
        return Opaque("attr", Opaque("free", self.name), attr)

    def fields_of(self, sim, member):
        """attributes the class's own __init__ stores for this member (Enum hands it the member value, a tuple unpacked)."""
        nm = member.sig[2]
        if nm not in self._fields:
            init = self.methods.get("__init__")
            obj = Record()
            if init is not None:
                v = self.values()[nm]
                sim.apply(init, list(v) if isinstance(v, tuple) else [v], {}, {params_of(init)[0]: obj}, f"{self.name}.__init__")
            self._fields[nm] = obj.fields
        return self._fields[nm]

    def member_attr(self, sim, member, attr):
        if attr == "name":
            return member.sig[2]
        if attr == "value":
            return self.values()[member.sig[2]]
        f = self.methods.get(attr)
        if f is not None and self.kind_of(f) == "property":
            return sim.apply(f, [], {}, {params_of(f)[0]: member}, f"{self.name}.{attr}")
        if f is None and "__getattr__" not in self.methods:
            fields = self.fields_of(sim, member)
            if attr in fields:
                return fields[attr]
        return Opaque("attr", member, attr)

    def call(self, sim, recv, attr, args, kwargs, node):
        """recv.attr(*args, **kwargs) for recv the class or one of its members; NotImplemented if the class body has no such function (or one this model does not interpret)."""
        f = self.methods.get(attr)
        kind = self.kind_of(f) if f is not None else None
        if kind == "class":
            return sim.apply(f, args, kwargs, {params_of(f)[0]: self.cls}, f"{self.name}.{attr}")
        if kind == "static":
            return sim.apply(f, args, kwargs, {}, f"{self.name}.{attr}", skip_first=False)
        if kind == "method" and isinstance(recv, EnumMember):
            return sim.apply(f, args, kwargs, {params_of(f)[0]: recv}, f"{self.name}.{attr}")
        return NotImplemented


def _has_opaque(v):
    if isinstance(v, Opaque):
        return True
    if isinstance(v, dict):
        return any(_has_opaque(k) or _has_opaque(x) for k, x in v.items())
    if isinstance(v, (list, tuple, set, frozenset)):
        return any(_has_opaque(x) for x in v)
    if isinstance(v, Record):
        return any(_has_opaque(x) for x in v.fields.values())
    return False


def _freeze(v):
    if isinstance(v, (list, tuple)):
        return tuple(_freeze(x) for x in v)
    if isinstance(v, (set, frozenset)):
        return frozenset(_freeze(x) for x in v)
    if isinstance(v, dict):
        return ("dict",) + tuple((_freeze(k), _freeze(x)) for k, x in v.items())
    if isinstance(v, Record):
        return ("record",) + tuple(sorted((k, _freeze(x)) for k, x in v.fields.items()))
    try:
        hash(v)
        return v
    except TypeError:
        return repr(v)


class SelfObj(Record):
    """the object whose method is interpreted: the fields the rule fixes (and those the interpreted code stores); any other attribute is an uninterpreted value."""


class ClsVal:
    """a class of the repository as a value: what type(<object of the model>) yields and what isinstance(...) is asked with."""
    __slots__ = ("node",)

    def __init__(self, node):
        self.node = node

    def __eq__(self, o):
        return isinstance(o, ClsVal) and o.node is self.node

    def __hash__(self):
        return hash(id(self.node))

    def __repr__(self):
        return f"<class {self.node.name}>"


def _class_functions(cls_node):
    """{name: FunctionDef} of a class body; of a property's getter / setter pair the getter."""
    out = {}
    for n in cls_node.body:
        if isinstance(n, ast.FunctionDef) and not (n.name in out and any(isinstance(d_, ast.Attribute) and d_.attr in ("setter", "deleter") for d_ in n.decorator_list)):
            out[n.name] = n
    return out


class Inst(Record):
    """an object of a model class of the repository, built by interpreting the class's own __init__: its attributes are the fields the constructor stores; properties and plain
    methods of the class body are interpreted when they are asked for; EQUALITY - and with it membership in a list / set / dict, list.count / .index / .remove - is decided by
    the class's own __eq__ (interpreted on the two objects; identity when the class defines none), exactly as Python decides `a == b` and `a in collection` for such objects. So
    `corpus in corpora` is true iff DocumentCorpus.__eq__ says so for the attributes the two objects have AT THAT MOMENT - not iff they were built from equal arguments."""

    def __init__(self, cls_node):
        super().__init__()
        self.cls = cls_node
        self.methods = _class_functions(cls_node)

    def is_a(self, name):
        return name == self.cls.name or any(last_attr(b_) == name for b_ in self.cls.bases)

    def __eq__(self, other):
        f = self.methods.get("__eq__")
        if f is None:
            return self is other
        r = Sim().apply(f, [other], {}, {params_of(f)[0]: self}, f"{self.cls.name}.__eq__")
        if isinstance(r, Opaque):
            raise CannotEval(f"{self.cls.name}.__eq__ yields the uninterpreted {r!r}"[:100])
        return bool(r)

    def __ne__(self, other):
        return not self.__eq__(other)

    def __hash__(self):
        if "__eq__" not in self.methods:
            return id(self)
        if "__hash__" not in self.methods:
            raise TypeError(f"unhashable type: '{self.cls.name}'")
        return hash(self.cls.name)  # (consistent with any __eq__: equal objects hash alike; what is equal is decided by __eq__ alone)

    def __repr__(self):
        return f"<{self.cls.name} object {' '.join(f'{k_}={v_!r}' for k_, v_ in list(self.fields.items())[:3])}>"[:120]


def _kind_of_function(f):
    decos = {last_attr(d.func if isinstance(d, ast.Call) else d) for d in f.decorator_list}
    if decos - {"classmethod", "staticmethod", "property", "cached_property"}:
        return None
    return "class" if "classmethod" in decos else ("static" if "staticmethod" in decos else ("property" if decos & {"property", "cached_property"} else "method"))


class _LazySeq:
    """the value of map(<function reference>, ...): a one-pass iterator whose elements are computed when they are asked for (as Python's lazy map does) - a loop that rejects at
    element i never evaluates element i+1; list(...) / sorted(...) / a comprehension consume it whole."""
    __slots__ = ("gen",)

    def __init__(self, gen):
        self.gen = gen

    def __iter__(self):
        return self

    def __next__(self):
        return next(self.gen)


class Rejected(CannotEval):
    """the interpreted statements reject the representative input (raise / a definite Python error) before the point of interest is reached."""

    def __init__(self, msg, kind, node):
        super().__init__(msg)
        self.kind, self.node = kind, node


class _Sig(Exception):
    """control leaves the interpreted statements: return / raise / break / continue."""

    def __init__(self, kind, value=None, node=None, exc_type=None):
        super().__init__(kind)
        self.kind, self.value, self.node = kind, value, node
        self.exc_type = exc_type  # raise / error: last name component of the exception class, None if unknown


_MUTATORS = {"add", "update", "append", "extend", "insert", "setdefault", "pop", "remove", "discard", "clear", "sort", "reverse", "subtract", "difference_update", "intersection_update",
             "symmetric_difference_update", "popitem", "appendleft", "extendleft"}
_PURE_METHODS = {"get", "keys", "values", "items", "copy", "count", "index", "union", "intersection", "difference", "symmetric_difference", "issubset", "issuperset", "isdisjoint",
                 "most_common", "elements", "join", "format", "lower", "upper", "isupper", "islower", "isdigit", "isalpha", "strip", "lstrip", "rstrip", "split", "startswith", "endswith", "replace", "title", "casefold",
                 "capitalize", "swapcase", "rsplit", "splitlines", "partition", "rpartition", "removeprefix", "removesuffix", "isalnum", "isspace", "istitle", "find", "rfind", "zfill", "__contains__"}
_SIM_TYPES = {"dict": dict, "list": list, "str": str, "bytes": bytes, "int": int, "float": float, "tuple": tuple, "set": set, "bool": bool}


def _sim_builtins(sim):
    import collections as _c

    def _sorted(x, key=None, reverse=False):
        return sorted(x, key=key, reverse=reverse)

    return {"len": len, "set": set, "list": list, "tuple": tuple, "dict": dict, "frozenset": frozenset, "sorted": _sorted, "reversed": lambda x: list(reversed(x)),
            "enumerate": lambda x, start=0: [tuple(p) for p in enumerate(sim.items(x), start)], "zip": lambda *a: [tuple(p) for p in zip(*[sim.items(x) for x in a])],
            "range": lambda *a: list(range(*a)), "any": lambda x: any(sim.truth(v) for v in sim.items(x)), "all": lambda x: all(sim.truth(v) for v in sim.items(x)),
            "sum": sum, "min": min, "max": max, "bool": sim.truth, "str": str, "repr": repr, "int": int, "float": float, "abs": abs, "filter": lambda f, x: [v for v in sim.items(x) if sim.truth(f(v) if f else v)],
            "map": lambda f, *a: [f(*p) for p in zip(*[sim.items(x) for x in a])], "iter": lambda x: iter(sim.items(x)), "next": next, "getattr": sim._getattr, "type": sim._type,
            "collections.Counter": _c.Counter, "Counter": _c.Counter, "collections.OrderedDict": _c.OrderedDict, "OrderedDict": _c.OrderedDict,
            "collections.defaultdict": _c.defaultdict, "defaultdict": _c.defaultdict, "collections.deque": _c.deque, "deque": _c.deque,
            "itertools.filterfalse": lambda f, x: [v for v in sim.items(x) if not sim.truth(f(v) if f else v)],
            "itertools.chain": lambda *a: [v for x in a for v in sim.items(x)], "itertools.chain.from_iterable": lambda a: [v for x in sim.items(a) for v in sim.items(x)],
            "re.sub": re.sub, "re.findall": re.findall, "re.split": re.split, "types.MappingProxyType": dict, "MappingProxyType": dict}  # pure functions of texts (an uninterpreted argument makes the result uninterpreted, see call())


class Sim:
    """interprets extracted statements / expressions on the values above. hook(call, env, sim) may interpret a call itself (return NotImplemented to decline)."""

    def __init__(self, hook=None, max_steps=40000, consts=None, enums=None):
        self.hook = hook
        self.consts = consts or {}  # dotted name -> value, for attribute chains rooted in a free name (constants of another module)
        self.enums = enums or {}  # class name -> EnumModel: Enum classes of the repository whose members / iteration / methods are interpreted (a free name or <module>.<name>)
        self.steps = 0
        self.max_steps = max_steps
        self.depth = 0
        self.max_depth = 4
        self.handling = []  # the exceptions whose handlers are being interpreted (for a bare `raise`)
        self.builtins = _sim_builtins(self)

    # -- values ------------------------------------------------------------------------------------------------------------------------------------------
    def truth(self, v):
        if isinstance(v, Opaque):
            raise CannotEval(f"truth value of the uninterpreted {v!r}")
        return True if isinstance(v, Record) else bool(v)

    def items(self, v):
        """the elements a loop over v visits (sets in a fixed order)."""
        if isinstance(v, (set, frozenset)):
            return sorted(v, key=repr)
        if isinstance(v, EnumCls):
            return v.model.iteration()
        if isinstance(v, Record) and isinstance(v.fields.get("__iter__"), list):
            return list(v.fields["__iter__"])  # an object of the model whose iteration the rule fixes (a schedule element yields its leaf tasks)
        if isinstance(v, Inst) and "__iter__" in v.methods and _kind_of_function(v.methods["__iter__"]) == "method":
            f_ = v.methods["__iter__"]  # an object of the model that defines its own iteration (Task yields itself, Parallel its tasks): that method interpreted
            r_ = self.apply(f_, [], {}, {params_of(f_)[0]: v}, f"{v.cls.name}.__iter__")
            if isinstance(r_, (Inst, Opaque)) or r_ is None:
                raise CannotEval(f"{v.cls.name}.__iter__ yields {r_!r}"[:80])
            return self.items(r_)
        if isinstance(v, (list, tuple, dict, str, _LazySeq)) or type(v).__name__ in ("Counter", "OrderedDict", "defaultdict", "deque", "dict_keys", "dict_values", "dict_items", "list_iterator"):
            return list(v)
        raise CannotEval(f"iteration over {type(v).__name__} {v!r}"[:80])

    def _getattr(self, obj, name, *default):
        if isinstance(obj, (EnumCls, EnumMember)) and isinstance(name, str):
            known = name in obj.model.members if isinstance(obj, EnumCls) else (name in ("name", "value") or name in obj.model.methods or name in obj.model.fields_of(self, obj))
            if known or not default:
                return obj.model.class_attr(self, name) if isinstance(obj, EnumCls) else obj.model.member_attr(self, obj, name)
            return default[0]
        if isinstance(obj, Opaque) and isinstance(name, str):
            return Opaque("attr", obj, name)
        if isinstance(obj, Record) and isinstance(name, str):
            if name in obj.fields:
                return obj.fields[name]
            if default:
                return default[0]
        raise CannotEval(f"getattr({obj!r}, {name!r})"[:80])

    def _type(self, obj):
        if isinstance(obj, Inst):
            return ClsVal(obj.cls)
        raise CannotEval(f"type({obj!r})"[:80])

    def _tick(self):
        self.steps += 1
        if self.steps > self.max_steps:
            raise CannotEval("step limit of the interpreter")

    def ev(self, e, env):
        try:
            return self._ev(e, env)
        except (CannotEval, _Sig):
            raise
        except (TypeError, ValueError, KeyError, IndexError, AttributeError, RecursionError, ZeroDivisionError, OverflowError) as x:
            raise CannotEval(f"{u(e)[:50]}: {type(x).__name__}: {x}"[:120])  # an operation of the interpreter itself failed on these values: not recognised, never a verdict

    def _ev(self, e, env):
        self._tick()
        if isinstance(e, ast.Constant):
            return e.value
        if isinstance(e, ast.Name):
            if e.id in env:
                return env[e.id]
            if e.id in self.enums:
                return self.enums[e.id].cls
            return self.builtins[e.id] if e.id in self.builtins else Opaque("free", e.id)
        if isinstance(e, ast.Attribute):
            if self.consts:
                d = dotted(e)
                if d in self.consts and d.split(".")[0] not in env:
                    return self.consts[d]
            v = self.ev(e.value, env)
            if isinstance(v, Record) and e.attr in v.fields:
                return v.fields[e.attr]
            if isinstance(v, Inst) and e.attr in v.methods and _kind_of_function(v.methods[e.attr]) == "property":
                f_ = v.methods[e.attr]
                return self.apply(f_, [], {}, {params_of(f_)[0]: v}, f"{v.cls.name}.{e.attr}")
            if isinstance(v, SelfObj):
                return Opaque("attr", Opaque("free", "self"), e.attr)
            if isinstance(v, EnumCls):
                return v.model.class_attr(self, e.attr)
            if isinstance(v, EnumMember):
                return v.model.member_attr(self, v, e.attr)
            if isinstance(v, Opaque):
                if v.sig[0] == "free" and e.attr in self.enums and v.sig[1] != "self":
                    return self.enums[e.attr].cls  # <module alias>.<Enum class>
                return Opaque("attr", v, e.attr)
            if type(v) in (list, dict, tuple, set, frozenset, str) and e.attr in _PURE_METHODS and hasattr(v, e.attr):
                return getattr(v, e.attr)  # a bound pure method of a container / text handed on as a function (filter(known.__contains__, names))
            raise CannotEval(f"attribute {u(e)[:50]} of a {type(v).__name__}")
        if isinstance(e, ast.Subscript):
            v = self.ev(e.value, env)
            if isinstance(e.slice, ast.Slice):
                k = slice(*[None if x is None else self.ev(x, env) for x in (e.slice.lower, e.slice.upper, e.slice.step)])
            else:
                k = self.ev(e.slice, env)
            if isinstance(v, EnumCls) and isinstance(k, str):
                if k in v.model.members:
                    return v.model.members[k]
                raise _Sig("error", f"KeyError in {u(e)[:50]}", e, "KeyError")  # Enum[name] for a name that is no member
            if isinstance(v, Opaque):
                return Opaque("item", v, _freeze(k) if not isinstance(k, slice) else repr(k))
            try:
                return v[k]
            except (KeyError, IndexError) as x:
                if type(v) in (dict, list, tuple) and not isinstance(k, Opaque):
                    raise _Sig("error", f"{type(x).__name__} in {u(e)[:50]}", e, type(x).__name__)  # a definite Python error on the supplied value, not a rejection
                raise CannotEval(f"{u(e)[:50]}: {type(x).__name__}")
            except TypeError as x:
                raise CannotEval(f"{u(e)[:50]}: {type(x).__name__}")
        if isinstance(e, ast.Compare):
            left = self.ev(e.left, env)
            for op, c in zip(e.ops, e.comparators):
                right = self.ev(c, env)
                if not self._cmp(op, left, right, e):
                    return False
                left = right
            return True
        if isinstance(e, ast.BoolOp):
            r = None
            for v in e.values:
                r = self.ev(v, env)
                if self.truth(r) != isinstance(e.op, ast.And):
                    return r
            return r
        if isinstance(e, ast.UnaryOp):
            v = self.ev(e.operand, env)
            if isinstance(e.op, ast.Not):
                return not self.truth(v)
            if isinstance(e.op, ast.USub) and isinstance(v, (int, float)):
                return -v
            raise CannotEval(u(e)[:50])
        if isinstance(e, ast.IfExp):
            return self.ev(e.body if self.truth(self.ev(e.test, env)) else e.orelse, env)
        if isinstance(e, (ast.List, ast.Tuple, ast.Set)):
            vals = []
            for x in e.elts:
                if isinstance(x, ast.Starred):
                    vals += self.items(self.ev(x.value, env))
                else:
                    vals.append(self.ev(x, env))
            return vals if isinstance(e, ast.List) else (tuple(vals) if isinstance(e, ast.Tuple) else set(vals))
        if isinstance(e, ast.Dict):
            out = {}
            for k, v in zip(e.keys, e.values):
                if k is None:
                    d = self.ev(v, env)
                    if not isinstance(d, dict):
                        raise CannotEval("** of a non-dict")
                    out.update(d)
                else:
                    out[self.ev(k, env)] = self.ev(v, env)
            return out
        if isinstance(e, (ast.ListComp, ast.SetComp, ast.GeneratorExp, ast.DictComp)):
            out = []

            def rec(i, env_):
                if i == len(e.generators):
                    out.append((self.ev(e.key, env_), self.ev(e.value, env_)) if isinstance(e, ast.DictComp) else self.ev(e.elt, env_))
                    return
                g = e.generators[i]
                if g.is_async:
                    raise CannotEval("async comprehension")
                for v in self.items(self.ev(g.iter, env_)):
                    env2 = dict(env_)
                    self.assign(g.target, v, env2)
                    if all(self.truth(self.ev(c, env2)) for c in g.ifs):
                        rec(i + 1, env2)

            rec(0, dict(env))
            return dict(out) if isinstance(e, ast.DictComp) else (set(out) if isinstance(e, ast.SetComp) else out)
        if isinstance(e, ast.BinOp):
            a, b = self.ev(e.left, env), self.ev(e.right, env)
            if isinstance(e.op, ast.Mod) and isinstance(a, str):
                return "<formatted text>"
            if isinstance(a, Opaque) or isinstance(b, Opaque):
                raise CannotEval(f"{u(e)[:50]}: uninterpreted operand")
            try:
                import operator as _o
                return {ast.Add: _o.add, ast.Sub: _o.sub, ast.Mult: _o.mul, ast.Div: _o.truediv, ast.FloorDiv: _o.floordiv, ast.Mod: _o.mod, ast.BitAnd: _o.and_, ast.BitOr: _o.or_,
                        ast.BitXor: _o.xor, ast.Pow: _o.pow}[type(e.op)](a, b)
            except (KeyError, TypeError, ZeroDivisionError, ValueError, OverflowError) as x:
                raise CannotEval(f"{u(e)[:50]}: {type(x).__name__}")
        if isinstance(e, ast.JoinedStr):
            out = []
            for v in e.values:
                if isinstance(v, ast.Constant):
                    out.append(str(v.value))
                    continue
                x = self.ev(v.value, env)
                if isinstance(x, (str, int, float, bool, type(None))) and v.conversion in (-1, 115) and v.format_spec is None:
                    out.append(str(x))  # {x} / {x!s} of a plain value is its text
                elif isinstance(x, (str, int, float)) and not isinstance(x, bool) and v.conversion == -1 and isinstance(v.format_spec, ast.JoinedStr) \
                        and all(isinstance(p_, ast.Constant) for p_ in v.format_spec.values):
                    out.append(format(x, "".join(str(p_.value) for p_ in v.format_spec.values)))
                else:
                    out.append(repr(x))  # an uninterpreted value / a container inside a message: the wording decides nothing
            return "".join(out)
        if isinstance(e, ast.NamedExpr):
            v = self.ev(e.value, env)
            env[e.target.id] = v
            return v
        if isinstance(e, ast.Lambda):
            names = params_of(e)
            if e.args.vararg or e.args.kwarg or e.args.kwonlyargs or e.args.defaults:
                raise CannotEval("lambda signature")
            return lambda *a: self.ev(e.body, {**env, **dict(zip(names, a))})
        if isinstance(e, ast.Call):
            return self.call(e, env)
        raise CannotEval(f"{type(e).__name__}: {u(e)[:50]}")

    def _cmp(self, op, a, b, e):
        oa, ob = isinstance(a, Opaque), isinstance(b, Opaque)
        if isinstance(op, (ast.Is, ast.IsNot, ast.Eq, ast.NotEq)):
            if oa != ob:
                other = b if oa else a
                opq = a if oa else b
                free = opq.sig[0] == "free"
                if opq.sig[0] == "attr" and opq.sig[1] == Opaque("free", "self") and other is not None:
                    # an attribute of the object itself that the rule did not fix (a configuration value) compared with a value of the specification: the representative
                    # configuration is "matches nothing" (e.g. no challenge selected)
                    return isinstance(op, (ast.IsNot, ast.NotEq))
                if other is not None or free:
                    raise CannotEval(f"{u(e)[:50]}: comparison of an uninterpreted value with {other!r}")
                root = opq
                while root.sig[0] in ("attr", "item") and isinstance(root.sig[1], Opaque):
                    root = root.sig[1]
                if root.sig[0] == "call" and not (isinstance(root.sig[1], Opaque) and root.sig[1].sig[0] in ("attr", "free")):
                    # (an attribute of) what a call returned whose callee is itself uninterpreted (the result of another call, a builtin applied to an uninterpreted value):
                    # neither a parser of the reader nor a constructor / function of a module - nothing is known about it, not even that it is not None
                    raise CannotEval(f"{u(e)[:50]}: comparison of the result of an uninterpreted callable with None")
            r = (a == b) if (oa or ob or isinstance(op, (ast.Eq, ast.NotEq))) else (a is b)
            return r if isinstance(op, (ast.Is, ast.Eq)) else not r
        if isinstance(op, (ast.In, ast.NotIn)):
            if ob or isinstance(b, (int, float, type(None))):
                raise CannotEval(f"{u(e)[:50]}: membership in {b!r}"[:90])
            try:
                r = a in b
            except TypeError as x:
                raise CannotEval(f"{u(e)[:50]}: {x}")
            return r if isinstance(op, ast.In) else not r
        if oa or ob:
            raise CannotEval(f"{u(e)[:50]}: ordering of an uninterpreted value")
        try:
            import operator as _o
            return {ast.Lt: _o.lt, ast.LtE: _o.le, ast.Gt: _o.gt, ast.GtE: _o.ge}[type(op)](a, b)
        except TypeError as x:
            raise CannotEval(f"{u(e)[:50]}: {x}")

    def call(self, e, env):
        if self.hook is not None:
            r = self.hook(e, env, self)
            if r is not NotImplemented:
                return r
        if any(isinstance(a, ast.Starred) for a in e.args) or any(k.arg is None for k in e.keywords):
            raise CannotEval(f"{u(e)[:50]}: * / ** arguments")
        d = dotted(e.func)
        if d == "next" and "next" not in env and 1 <= len(e.args) <= 2 and isinstance(e.args[0], ast.GeneratorExp) and not e.keywords:
            vals = self.ev(e.args[0], env)  # a fresh generator consumed once: its first element, the default, or StopIteration
            if vals:
                return vals[0]
            if len(e.args) == 2:
                return self.ev(e.args[1], env)
            raise _Sig("error", f"StopIteration in {u(e)[:50]}", e, "StopIteration")
        if d == "map" and "map" not in env and len(e.args) >= 2 and not e.keywords and isinstance(e.args[0], (ast.Attribute, ast.Name)):
            # map(<function reference>, xs, ...): element by element the CALL <function reference>(x, ...) - interpreted exactly like the call written out (hook, helper of the
            # class entered or left uninterpreted, builtin), and lazily: each call happens when the loop asks for that element
            seqs = [self.items(self.ev(a, env)) for a in e.args[1:]]
            names = [f"__map_arg{i}" for i in range(len(seqs))]
            node = ast.Call(func=e.args[0], args=[ast.Name(id=n_, ctx=ast.Load()) for n_ in names], keywords=[])
            for x in [node] + node.args:
                ast.copy_location(x, e)
            return _LazySeq(self.call(node, {**env, **dict(zip(names, p))}) for p in zip(*seqs))
        if d == "map" and "map" not in env and len(e.args) >= 2 and not e.keywords and isinstance(e.args[0], ast.Lambda) and not any(isinstance(a, ast.Starred) for a in e.args):
            fn = self.ev(e.args[0], env)  # map(lambda ...: ..., xs): lazy as well
            seqs = [self.items(self.ev(a, env)) for a in e.args[1:]]
            return _LazySeq(fn(*p) for p in zip(*seqs))
        if d in ("functools.partial", "partial") and d.split(".")[0] not in env and e.args and isinstance(e.args[0], (ast.Attribute, ast.Name)) \
                and not any(isinstance(a, ast.Starred) for a in e.args) and not any(k.arg is None for k in e.keywords):
            # partial(<function reference>, a, k=v): a callable; calling it is the CALL <function reference>(a, ..., k=v, ...) interpreted like the call written out
            bound_a = [self.ev(a, env) for a in e.args[1:]]
            bound_k = {k.arg: self.ev(k.value, env) for k in e.keywords}
            fref, at = e.args[0], e

            def _partial(*more, **more_k):
                vals = list(bound_a) + list(more)
                kws = {**bound_k, **more_k}
                env2 = {**env, **{f"__partial_arg{i}": v for i, v in enumerate(vals)}, **{f"__partial_kw_{k}": v for k, v in kws.items()}}
                node = ast.Call(func=fref, args=[ast.Name(id=f"__partial_arg{i}", ctx=ast.Load()) for i in range(len(vals))],
                                keywords=[ast.keyword(arg=k, value=ast.Name(id=f"__partial_kw_{k}", ctx=ast.Load())) for k in kws])
                for x in [node] + node.args + node.keywords + [k.value for k in node.keywords]:
                    ast.copy_location(x, at)
                return self.call(node, env2)

            return _partial
        if d == "filter" and "filter" not in env and len(e.args) == 2 and not e.keywords and isinstance(e.args[0], (ast.Attribute, ast.Name)):
            # filter(<function reference>, xs): the elements for which the CALL <function reference>(x) is true (the call interpreted like the call written out)
            node = ast.Call(func=e.args[0], args=[ast.Name(id="__filter_arg", ctx=ast.Load())], keywords=[])
            for x in [node] + node.args:
                ast.copy_location(x, e)
            return _LazySeq(v for v in self.items(self.ev(e.args[1], env)) if self.truth(self.call(node, {**env, "__filter_arg": v})))
        args = [self.ev(a, env) for a in e.args]
        kwargs = {k.arg: self.ev(k.value, env) for k in e.keywords}
        if d in self.builtins and d.split(".")[0] not in env:
            try:
                return self.builtins[d](*args, **kwargs)
            except (CannotEval, _Sig):
                raise
            except Exception as x:
                if d == "next" and isinstance(x, StopIteration):
                    raise _Sig("error", f"StopIteration in {u(e)[:50]}", e, "StopIteration")
                if any(isinstance(a, Opaque) for a in args):
                    return Opaque("call", d, _freeze(args), _freeze(kwargs))  # a builtin applied to an uninterpreted value is uninterpreted
                if d in ("int", "float", "len", "abs", "min", "max", "sum") and isinstance(x, (TypeError, ValueError)) and not any(_has_opaque(a) for a in args):
                    raise _Sig("error", f"{type(x).__name__} in {u(e)[:50]}", e, type(x).__name__)  # e.g. int(None): a definite Python error
                raise CannotEval(f"{u(e)[:50]}: {type(x).__name__}")
        if d == "isinstance" and len(args) == 2 and dotted(e.args[1]) in _SIM_TYPES:
            if isinstance(args[0], Opaque):
                if isinstance(args[0], EnumMember) and _SIM_TYPES[dotted(e.args[1])] not in (int, str):
                    return False
                raise CannotEval(f"{u(e)[:50]}: type of an uninterpreted value")
            return isinstance(args[0], _SIM_TYPES[dotted(e.args[1])])
        if d == "isinstance" and len(args) == 2 and "isinstance" not in env and (isinstance(args[1], ClsVal) or (
                isinstance(args[0], Inst) and isinstance(args[1], Opaque) and not isinstance(args[1], (EnumCls, EnumMember)) and args[1].sig[0] in ("free", "attr") and isinstance(args[1].sig[-1], str))):
            # isinstance(<object of the model>, type(<another one>)) / isinstance(<object of the model>, <Class> | <module>.<Class>): by the class the object was built from
            cname = args[1].node.name if isinstance(args[1], ClsVal) else args[1].sig[-1]
            if isinstance(args[0], Inst):
                return args[0].cls is getattr(args[1], "node", None) or args[0].is_a(cname)
            if isinstance(args[0], (Opaque, Record)):
                raise CannotEval(f"{u(e)[:50]}: type of an uninterpreted value")
            return False  # a plain value (text, number, None, container) is no object of that class
        if d == "isinstance" and len(args) == 2 and isinstance(args[1], EnumCls) and "isinstance" not in env:
            if isinstance(args[0], EnumMember):
                return args[0].model is args[1].model
            if not isinstance(args[0], (Opaque, Record)):
                return False  # a plain value (text, number, None, container) is no member
            raise CannotEval(f"{u(e)[:50]}: type of an uninterpreted value")
        if isinstance(e.func, ast.Attribute):
            recv = self.ev(e.func.value, env)
            if isinstance(recv, (EnumCls, EnumMember)):
                r = recv.model.call(self, recv, e.func.attr, args, kwargs, e)
                if r is not NotImplemented:
                    return r
            if isinstance(recv, Inst) and e.func.attr not in recv.fields and e.func.attr in recv.methods and _kind_of_function(recv.methods[e.func.attr]) == "method":
                f_ = recv.methods[e.func.attr]
                return self.apply(f_, args, kwargs, {params_of(f_)[0]: recv}, f"{recv.cls.name}.{e.func.attr}")
            if isinstance(recv, SelfObj) and e.func.attr not in recv.fields:
                recv = Opaque("free", "self")
            if isinstance(recv, Opaque):
                return Opaque("call", Opaque("attr", recv, e.func.attr), _freeze(args), _freeze(kwargs))
            if type(recv) in (list, dict, tuple, set, str, int, float, type(None), bool) and not hasattr(recv, e.func.attr):
                raise _Sig("error", f"AttributeError in {u(e)[:50]} (a {type(recv).__name__})", e, "AttributeError")
            if isinstance(recv, (Record, int, float, type(None))) or e.func.attr not in (_MUTATORS | _PURE_METHODS) or not hasattr(recv, e.func.attr):
                raise CannotEval(f"{u(e)[:50]}: method of a {type(recv).__name__}")
            try:
                return getattr(recv, e.func.attr)(*args, **kwargs)
            except (CannotEval, _Sig):
                raise
            except Exception as x:
                if isinstance(recv, str) and e.func.attr in ("join", "format"):
                    return "<formatted text>"  # a message built from uninterpreted values: its wording decides nothing
                raise CannotEval(f"{u(e)[:50]}: {type(x).__name__}")
        f = self.ev(e.func, env)
        if isinstance(f, EnumCls) and len(args) == 1 and not kwargs:
            return f.model.by_value(self, args[0], e)
        if callable(f) and not isinstance(f, Opaque):
            return f(*args, **kwargs)
        return Opaque("call", f, _freeze(args), _freeze(kwargs))

    def invoke(self, func, call, env, extra=None):
        """interpret the whole body of `func` for the arguments of `call` (evaluated in env); the value it returns (None on fall-through)."""
        if self.depth >= self.max_depth:
            raise CannotEval("call depth")
        args, kwargs = self.arguments(call, env)
        return self.apply(func, args, kwargs, extra, u(call)[:50])

    def arguments(self, call, env):
        """(positional values, keyword values) of a call; *<sequence> and **<mapping with text keys> are spread when they evaluate to such."""
        args, kwargs = [], {}
        for x in call.args:
            if isinstance(x, ast.Starred):
                v = self.ev(x.value, env)
                if not isinstance(v, (list, tuple)):
                    raise CannotEval(f"{u(call)[:50]}: * of {type(v).__name__}")
                args += list(v)
            else:
                args.append(self.ev(x, env))
        for k in call.keywords:
            v = self.ev(k.value, env)
            if k.arg is None:
                if not isinstance(v, dict) or not all(isinstance(n_, str) for n_ in v):
                    raise CannotEval(f"{u(call)[:50]}: ** of {type(v).__name__}")
                kwargs.update(v)
            else:
                kwargs[k.arg] = v
        return args, kwargs

    def apply(self, func, args, kwargs, extra=None, what="call", skip_first=True, tolerant=False):
        """interpret the whole body of `func` for argument VALUES; the first parameter is not filled from args when it is called self / cls or is bound in `extra`.
        tolerant (a constructor whose object is a Record): a top-level `self.<attr> = <expr>` that cannot be interpreted leaves that attribute uninterpreted (nothing is known
        about it, not even that it is not None) instead of giving up on the whole object."""
        if self.depth >= self.max_depth:
            raise CannotEval("call depth")
        a = func.args
        if a.vararg or a.kwarg:
            raise CannotEval(f"{what}: * / ** parameters")
        names = params_of(func)
        pos = names[1:] if skip_first and names and (names[0] in ("self", "cls") or names[0] in (extra or {})) else names
        new = dict(extra or {})
        defaults = dict(zip(names[len(names) - len(a.defaults):], a.defaults))
        defaults.update({k.arg: d_ for k, d_ in zip(a.kwonlyargs, a.kw_defaults) if d_ is not None})
        for n_, d_ in defaults.items():
            new[n_] = self.ev(d_, {})
        if len(args) > len(pos):
            raise CannotEval(f"{what}: too many arguments")
        for n_, x in zip(pos, args):
            new[n_] = x
        for k, x in kwargs.items():
            if k not in pos and k not in [x_.arg for x_ in a.kwonlyargs]:
                raise CannotEval(f"{what}: unknown keyword {k}")
            new[k] = x
        missing = [n_ for n_ in pos if n_ not in new]
        if missing:
            raise CannotEval(f"{what}: no argument for {missing}")
        self.depth += 1
        try:
            if not tolerant:
                self.run(func.body, new, None)
            for st in (func.body if tolerant else ()):
                saved = self.steps
                try:
                    self.exec(st, new, None)
                except CannotEval:
                    t = st.targets[0] if isinstance(st, ast.Assign) and len(st.targets) == 1 else (st.target if isinstance(st, ast.AnnAssign) else None)
                    if not (isinstance(t, ast.Attribute) and isinstance(t.value, ast.Name) and isinstance(new.get(t.value.id), Record)):
                        raise
                    self.steps = saved
                    new[t.value.id].fields[t.attr] = Opaque("call", "attribute-not-interpreted", what, t.attr)
        except _Sig as s:
            if s.kind == "return":
                return s.value
            raise
        finally:
            self.depth -= 1
        return None

    # -- statements --------------------------------------------------------------------------------------------------------------------------------------
    def assign(self, t, v, env):
        if isinstance(t, ast.Name):
            env[t.id] = v
        elif isinstance(t, (ast.Tuple, ast.List)):
            if isinstance(v, Opaque) or any(isinstance(x, ast.Starred) for x in t.elts):
                raise CannotEval(f"unpacking of {v!r}"[:80])
            vs = self.items(v)
            if len(vs) != len(t.elts):
                raise CannotEval(f"unpacking {len(vs)} value(s) into {len(t.elts)} target(s)")
            for x, y in zip(t.elts, vs):
                self.assign(x, y, env)
        elif isinstance(t, ast.Subscript):
            c = self.ev(t.value, env)
            if isinstance(c, Opaque):
                self.ev(t.slice, env)
                return  # a store into an uninterpreted object: nothing the interpreted statements can observe
            if isinstance(c, (Record, str, tuple)) or isinstance(t.slice, ast.Slice):
                raise CannotEval(f"store into {u(t)[:50]}")
            try:
                c[self.ev(t.slice, env)] = v
            except (TypeError, IndexError, KeyError) as x:
                raise CannotEval(f"store into {u(t)[:50]}: {type(x).__name__}")
        elif isinstance(t, ast.Attribute):
            c = self.ev(t.value, env)
            if not isinstance(c, Record):
                raise CannotEval(f"store into {u(t)[:50]}")
            c.fields[t.attr] = v
        else:
            raise CannotEval(f"assignment target {type(t).__name__}")

    def run(self, stmts, env, keep=None):
        for s in stmts:
            if keep is not None and id(s) not in keep:
                continue
            self.exec(s, env, keep)

    def exec(self, s, env, keep=None):
        try:
            return self._exec(s, env, keep)
        except (CannotEval, _Sig):
            raise
        except (TypeError, ValueError, KeyError, IndexError, AttributeError, RecursionError, ZeroDivisionError, OverflowError) as x:
            raise CannotEval(f"line {getattr(s, 'lineno', '?')}: {type(x).__name__}: {x}"[:120])

    def _exec(self, s, env, keep=None):
        self._tick()
        if isinstance(s, ast.Assign):
            v = self.ev(s.value, env)
            for t in s.targets:
                self.assign(t, v, env)
        elif isinstance(s, ast.AnnAssign):
            if s.value is not None:
                self.assign(s.target, self.ev(s.value, env), env)
        elif isinstance(s, ast.AugAssign):
            load = ast.parse(u(s.target), mode="eval").body
            cur, v = self.ev(load, env), self.ev(s.value, env)
            if isinstance(cur, (list, set, dict)) and isinstance(s.op, (ast.Add, ast.BitOr, ast.BitAnd, ast.Sub)):  # in-place on the same object, as Python does
                try:
                    if isinstance(cur, list) and isinstance(s.op, ast.Add):
                        cur.extend(self.items(v))
                    elif isinstance(cur, (set, dict)) and isinstance(s.op, ast.BitOr):
                        cur.update(v)
                    elif isinstance(cur, set) and isinstance(s.op, ast.BitAnd):
                        cur.intersection_update(v)
                    elif isinstance(cur, set) and isinstance(s.op, ast.Sub):
                        cur.difference_update(v)
                    else:
                        raise CannotEval(u(s)[:50])
                except TypeError as x:
                    raise CannotEval(f"{u(s)[:50]}: {x}")
            else:
                self.assign(s.target, self._binop(s, cur, v), env)
        elif isinstance(s, ast.Expr):
            self.ev(s.value, env)
        elif isinstance(s, ast.If):
            self.run(s.body if self.truth(self.ev(s.test, env)) else s.orelse, env, keep)
        elif isinstance(s, ast.For):
            broke = False
            seq = self.ev(s.iter, env)
            for v in (seq if isinstance(seq, _LazySeq) else self.items(seq)):
                self.assign(s.target, v, env)
                try:
                    self.run(s.body, env, keep)
                except _Sig as sig:
                    if sig.kind == "break":
                        broke = True
                        break
                    if sig.kind != "continue":
                        raise
            if not broke:
                self.run(s.orelse, env, keep)
        elif isinstance(s, ast.While):
            n = 0
            while self.truth(self.ev(s.test, env)):
                n += 1
                if n > 200:
                    raise CannotEval("while loop does not end on the representative input")
                try:
                    self.run(s.body, env, keep)
                except _Sig as sig:
                    if sig.kind == "break":
                        break
                    if sig.kind != "continue":
                        raise
        elif isinstance(s, ast.Return):
            raise _Sig("return", self.ev(s.value, env) if s.value is not None else None, s)
        elif isinstance(s, ast.Raise):
            if s.exc is None and self.handling:
                raise self.handling[-1]
            x = s.exc.func if isinstance(s.exc, ast.Call) else s.exc
            if isinstance(x, ast.Name) and x.id in env:
                # an exception object held in a local (`err = KeyError(...)`; `except E as err`): the class it was built from, unknown (None) if that cannot be told
                v = env[x.id]
                if isinstance(v, Opaque) and v.sig[0] == "exception":
                    raise _Sig("raise", None, s, v.sig[1])
                built = v.sig[1] if isinstance(v, Opaque) and v.sig[0] == "call" and isinstance(v.sig[1], Opaque) else (v if isinstance(v, Opaque) else None)
                raise _Sig("raise", None, s, built.sig[-1] if built is not None and built.sig[0] in ("free", "attr") and isinstance(built.sig[-1], str) else None)
            raise _Sig("raise", None, s, last_attr(x) if x is not None else None)
        elif isinstance(s, ast.Break):
            raise _Sig("break", None, s)
        elif isinstance(s, ast.Continue):
            raise _Sig("continue", None, s)
        elif isinstance(s, (ast.Pass, ast.Import, ast.ImportFrom, ast.Assert, ast.Global, ast.Nonlocal)):
            pass
        elif isinstance(s, ast.FunctionDef) and not s.decorator_list and not any(isinstance(x, (ast.Yield, ast.YieldFrom, ast.Nonlocal, ast.Global)) for x in ast.walk(s)):
            # a local helper function (closure): a callable whose body is interpreted on the enclosing environment as it is when the call happens
            env[s.name] = lambda *a, _f=s, _env=env, **k: self.apply(_f, list(a), k, dict(_env), f"{_f.name}(...)", skip_first=False)
        elif isinstance(s, ast.Try):
            try:
                self.run(s.body, env, keep)
            except _Sig as sig:
                handler = self._handler_for(s, sig) if sig.kind in ("raise", "error") else None
                if handler is None:
                    self.run(s.finalbody, env, keep)
                    raise
                if handler.name:
                    env[handler.name] = Opaque("exception", sig.exc_type)
                self.handling.append(sig)
                try:
                    self.run(handler.body, env, keep)
                finally:
                    self.handling.pop()
                    self.run(s.finalbody, env, keep)
                return
            self.run(s.orelse, env, keep)
            self.run(s.finalbody, env, keep)
        elif isinstance(s, ast.With):
            for it in s.items:  # the context manager's value is bound, its enter / exit are not modelled
                v = self.ev(it.context_expr, env)
                if it.optional_vars is not None:
                    self.assign(it.optional_vars, v, env)
            self.run(s.body, env, keep)
        elif isinstance(s, ast.Match) and keep is None:  # (a sliced run does not look inside the cases)
            subj = self.ev(s.subject, env)
            for c in s.cases:
                if self._matches(c.pattern, subj, env) and (c.guard is None or self.truth(self.ev(c.guard, env))):
                    self.run(c.body, env, keep)
                    break
        else:
            raise CannotEval(f"statement kind {type(s).__name__} at line {getattr(s, 'lineno', '?')}")

    def _matches(self, p, subj, env):
        """structural pattern matching, the forms a dispatch on a value uses: literal / dotted-name values, None / True / False, alternatives, the wildcard and a capture."""
        if isinstance(p, ast.MatchValue):
            return self._cmp(ast.Eq(), subj, self.ev(p.value, env), p.value)
        if isinstance(p, ast.MatchSingleton):
            return subj is p.value
        if isinstance(p, ast.MatchOr):
            return any(self._matches(x, subj, env) for x in p.patterns)
        if isinstance(p, ast.MatchAs):
            if p.pattern is not None and not self._matches(p.pattern, subj, env):
                return False
            if p.name is not None:
                env[p.name] = subj
            return True
        raise CannotEval(f"match pattern {type(p).__name__}")

    def _handler_for(self, tr, sig):
        """the except clause of `tr` that catches the exception of sig (by class name: builtin classes by their real hierarchy, other classes by equal last name component;
        Exception / BaseException / a bare except catch everything). CannotEval when that cannot be told."""
        import builtins as _b
        for h in tr.handlers:
            if h.type is None:
                return h
            names = [last_attr(x) for x in (h.type.elts if isinstance(h.type, ast.Tuple) else [h.type])]
            if any(n in ("Exception", "BaseException") for n in names):
                return h
            if sig.exc_type is None:
                raise CannotEval(f"an exception of unknown class raised inside try/except at line {tr.lineno}")
            for n in names:
                if n == sig.exc_type:
                    return h
                a, b = getattr(_b, sig.exc_type, None), getattr(_b, n or "", None)
                if isinstance(a, type) and isinstance(b, type) and issubclass(a, BaseException) and issubclass(b, BaseException):
                    if issubclass(a, b):
                        return h
                elif not (isinstance(a, type) and isinstance(b, type)) and not isinstance(a, type) and not isinstance(b, type):
                    raise CannotEval(f"cannot tell whether `except {n}` catches {sig.exc_type} (line {tr.lineno})")
        return None

    def _binop(self, s, a, b):
        if isinstance(a, Opaque) or isinstance(b, Opaque):
            raise CannotEval(f"{u(s)[:50]}: uninterpreted operand")
        try:
            import operator as _o
            return {ast.Add: _o.add, ast.Sub: _o.sub, ast.Mult: _o.mul, ast.Div: _o.truediv, ast.FloorDiv: _o.floordiv, ast.Mod: _o.mod, ast.BitAnd: _o.and_, ast.BitOr: _o.or_,
                    ast.BitXor: _o.xor}[type(s.op)](a, b)
        except (KeyError, TypeError, ZeroDivisionError) as x:
            raise CannotEval(f"{u(s)[:50]}: {type(x).__name__}")


def simulate(stmts, env, keep=None, hook=None, then=None, consts=None, enums=None, max_depth=None):
    """interpret the (kept) statements on env. -> (kind, value, node): kind is fallthrough (value = `then` evaluated afterwards, if given) | return | raise | break | continue.
    CannotEval propagates (the caller reports 'not recognised')."""
    sim = Sim(hook, consts=consts, enums=enums)
    if max_depth is not None:
        sim.max_depth = max_depth  # (a run that enters the whole reader: challenge -> parallel element -> task -> operation -> constructor)
    try:
        sim.run(stmts, env, keep)
    except _Sig as s:
        return s.kind, (s.exc_type if s.kind == "raise" and s.value is None else s.value), s.node
    return "fallthrough", (sim.ev(then, env) if then is not None else None), None


def module_env_of(mod, names):
    """values of the module-level names (bound to something the interpreter can evaluate) among `names`."""
    out = {}
    for nm_ in names:
        v_ = mod.module_constant(nm_)
        if v_ is not None:
            try:
                out[nm_] = Sim().ev(v_, {})
            except (CannotEval, _Sig):
                pass
    return out


# ---- slicing: which statements (as written) decide a given set of names ------------------------------------------------------------------------------------------

def _sub_stmts(s):
    """statements nested in s (s excluded), nested function / class definitions not entered."""
    for f_ in ("body", "orelse", "finalbody", "handlers"):
        for c in getattr(s, f_, None) or []:
            if isinstance(c, ast.ExceptHandler):
                yield from _sub_stmts(c)
            elif isinstance(c, ast.stmt):
                yield c
                if not isinstance(c, (ast.FunctionDef, ast.AsyncFunctionDef, ast.ClassDef)):
                    yield from _sub_stmts(c)


def _is_compound(s):
    return isinstance(s, (ast.If, ast.For, ast.AsyncFor, ast.While, ast.With, ast.AsyncWith, ast.Try, ast.FunctionDef, ast.AsyncFunctionDef, ast.ClassDef, ast.Match))


def _loads(n):
    return {x.id for x in ast.walk(n) if isinstance(x, ast.Name) and isinstance(x.ctx, ast.Load) and x.id != "self"}


def _base_name(t):
    while isinstance(t, (ast.Subscript, ast.Attribute)):
        t = t.value
    return t.id if isinstance(t, ast.Name) else None


def _defs(s):
    """(names this simple statement binds or mutates, is it a plain re-binding of one name)."""
    out, strong = set(), False
    if isinstance(s, ast.Assign):
        for t in s.targets:
            for x in ([t] if not isinstance(t, (ast.Tuple, ast.List)) else ast.walk(t)):
                if isinstance(x, ast.Name) and isinstance(x.ctx, ast.Store):
                    out.add(x.id)
                elif isinstance(x, (ast.Subscript, ast.Attribute)) and isinstance(x.ctx, ast.Store) and _base_name(x) not in (None, "self"):
                    out.add(_base_name(x))
        strong = len(s.targets) == 1 and isinstance(s.targets[0], ast.Name)
    elif isinstance(s, (ast.AugAssign, ast.AnnAssign)):
        if _base_name(s.target) not in (None, "self"):
            out.add(_base_name(s.target))
    elif isinstance(s, ast.Expr) and isinstance(s.value, ast.Call) and isinstance(s.value.func, ast.Attribute) and s.value.func.attr in _MUTATORS:
        if _base_name(s.value.func.value) not in (None, "self"):
            out.add(_base_name(s.value.func.value))
    elif isinstance(s, ast.Delete):
        out |= {_base_name(t) for t in s.targets} - {None, "self"}
    out |= {x.target.id for x in ast.walk(s) if isinstance(x, ast.NamedExpr)}
    return out, strong


def _header_loads(p):
    if isinstance(p, (ast.If, ast.While)):
        return _loads(p.test)
    if isinstance(p, (ast.For, ast.AsyncFor)):
        return _loads(p.iter)
    return set()


def slice_inside(root, names, keep, must=(), jumps=True):
    """marks (ids in keep) the statements inside the compound statement `root` that bind or mutate one of `names` (transitively: and what those read), the statements in `must`,
    every return / break / continue (jumps=True), and the compound statements around them. -> the names the kept statements read."""
    names = set(names)
    inner = list(_sub_stmts(root))
    must_ids = {id(x) for x in must}
    changed = True
    while changed:
        changed = False
        for s in inner:
            if id(s) in keep or _is_compound(s):
                continue
            if id(s) in must_ids or (jumps and isinstance(s, (ast.Return, ast.Break, ast.Continue))) or (_defs(s)[0] & names):
                keep.add(id(s))
                names |= _loads(s)
                p = source.parent(s)
                while p is not None:
                    if isinstance(p, ast.stmt) and id(p) not in keep:
                        keep.add(id(p))
                        names |= _header_loads(p)
                    if p is root:
                        break
                    p = source.parent(p)
                changed = True
    keep.add(id(root))
    names |= _header_loads(root)
    return names


def statements_before(stmt, func):
    """the statements that run before `stmt` in its own block and in the blocks around it, up to the innermost enclosing loop (or the function): as written, first to last."""
    out = []
    child, p = stmt, source.parent(stmt)
    while p is not None:
        blk = next((getattr(p, f_) for f_ in ("body", "orelse", "finalbody") if isinstance(getattr(p, f_, None), list) and any(x is child for x in getattr(p, f_))), None)
        if blk is not None:
            i = [j for j, x in enumerate(blk) if x is child][0]
            out = list(blk[:i]) + out
        if p is func or isinstance(p, (ast.For, ast.AsyncFor, ast.While, ast.FunctionDef, ast.AsyncFunctionDef)):
            break
        child, p = p, source.parent(p)
    return out


def slice_before(pre, live, keep, inputs=()):
    """backward over the statements `pre`: keeps those that decide the names in `live` (a plain re-binding ends the search for that name). Names in `inputs` are supplied by the
    rule: whatever binds them is left out."""
    live = set(live) - set(inputs)
    for s in reversed(pre):
        if _is_compound(s):
            if isinstance(s, (ast.FunctionDef, ast.AsyncFunctionDef, ast.ClassDef)):
                if isinstance(s, ast.FunctionDef) and s.name in live:
                    # a local helper function that the live names are computed with: kept (the interpreter binds it as a callable), what its body reads is live too
                    keep.add(id(s))
                    live.discard(s.name)
                    live |= (_loads(s) - set(params_of(s))) - set(inputs)
                continue
            inner_defs = set().union(*[_defs(x)[0] for x in _sub_stmts(s) if not _is_compound(x)] or [set()])
            inner_defs |= {x.id for f_ in _sub_stmts(s) if isinstance(f_, (ast.For, ast.AsyncFor)) for x in ast.walk(f_.target) if isinstance(x, ast.Name)}
            if isinstance(s, (ast.For, ast.AsyncFor)):
                inner_defs |= {x.id for x in ast.walk(s.target) if isinstance(x, ast.Name)}
            if inner_defs & live:
                # only the part of s that decides the live names; its jumps are not followed (the path to the statement of interest is taken as given)
                live |= slice_inside(s, live, keep, jumps=False) - set(inputs)
            continue
        d, strong = _defs(s)
        if d & live:
            keep.add(id(s))
            if strong:
                live -= d
            live |= _loads(s) - set(inputs)
    return live


def run(chk):
    repo = chk.repo
    ldr, trk, rn, pr = repo.module(_L), repo.module(_T), repo.module(_R), repo.module(_P)
    chk.use(ldr, trk, rn, pr, _S, "docs/track.rst")
    chk.explanation = (
        "Decides the loader on VALUES: a small interpreter in this module (Python containers, records, uninterpreted values and Enum classes modelled from their ClassDef: members in "
        "declaration order, Enum[name], .name / .value, the class's own methods; nothing of the repository is called) runs the EXTRACTED "
        "statements of the loader — whole methods with the helpers of the class they call entered, or the slice that decides a value — on representative specifications. "
        "The operation-type registry is interpreted for every documented name (bijection with the enum members, agreement with to_hyphenated_string and with the observed runner / "
        "param-source registrations); parse_task / parse_parallel / _create_corpora are interpreted on specifications whose keys carry marker values, which must reach the Task / "
        "Documents parameter and attribute of that meaning (parallel defaults end to end, completed-by flags, schedule and sub-task order, dispatch on 'parallel', corpus-level defaults "
        "for 0 / 1 / 2 indices and data streams); _error raises on every path; TrackFileReader.read is interpreted on twelve specifications (version window, not-yet-validated version "
        "values, schema failure, validate-before-build of the same object, reserved / unused parameters between building and returning); parse_task over 40 field combinations rejects "
        "exactly the documented mixes; duplicate task / challenge / operation / corpus names by interpreting the loop around the rejecting site (where no loop around it can be interpreted on "
        "its own - names counted or compared by size, while loops, flattened iteration - the whole function end to end) on collections with and without a repeated "
        "name; lazy map(...) / filter(...) over function references, functools.partial, local helper functions and pure helper functions of the module are interpreted like the "
        "call written in place; objects of the model classes (DocumentCorpus / Documents / Operation / Task / Parallel / Challenge built by their own constructors) compare, and are "
        "found in collections, by the __eq__ their class defines (interpreted); _create_challenges end to end on a track that mixes inline operations with later references by name "
        "(every task has the operation the file says: the table of named operations is left as the operations block defined it); default-challenge, ramp-up-on-parallel, completed-by and indices-vs-data-streams rules as value tables; the accounting object and the reserved names interpreted; every "
        "rendered template registers its variables first (CFG, helpers followed); nested includes resolve relative to the including file; render_template interpreted with Jinja's "
        "environment / template objects modelled by the documented visibility of variables (render context > template-level globals > environment globals for the rendered template and "
        "its includes; environment globals only for imported templates): the user's parameters reach every template, Rally's internal variables win in every template. Extracted constants: documented "
        "operation-parameter values validated against the item schema of the operations block; the include pattern of TemplateSource matched against the spellings of the collect helper "
        "call and of {% include %}; the helpers' Jinja source evaluated and parsed."
    )
    chk.not_decided = ("Jinja rendering semantics beyond the documented visibility of variables in included / imported templates (incl. the text of the built-in macros), "
                       "JSON-schema semantics, free-form operation parameters.")
    SR = ldr.cls("TrackSpecificationReader")
    FR = ldr.cls("TrackFileReader")
    sr_methods = ldr.methods(SR)
    # role: an error helper is a short method of the reader that has no normal exit (O10.3 demands it of _error); a call to one ends the interpretation with `raise`
    ldr_funcs = {f_.name: f_ for f_ in ldr.tree.body if isinstance(f_, (ast.FunctionDef, ast.AsyncFunctionDef))}

    def raised_classes(f_, depth=0):
        """(has a normal exit, {class names it raises; None for one that cannot be told}) - a helper of the class / module that the function hands the work to is followed."""
        g_ = cfg_of(f_)
        normal = g_.exit.id in g_.reachable([g_.entry])
        defs_ = local_defs(f_)
        out = set()
        for n in walk_body(f_):
            if isinstance(n, ast.Raise):
                x = n.exc
                if isinstance(x, ast.Name) and isinstance(defs_.get(x.id), ast.Call):
                    x = defs_[x.id]  # the exception object is built first and raised from a local
                x = x.func if isinstance(x, ast.Call) else x
                out.add(last_attr(x) if isinstance(x, (ast.Name, ast.Attribute)) and (last_attr(x) or "x")[:1].isupper() else None)
        if normal and depth < 2:
            # no raise of its own on some path: does the last statement hand over to a function that never returns normally?
            last = stmts_of(f_.body)[-1] if stmts_of(f_.body) else None
            c = last.value if isinstance(last, (ast.Expr, ast.Return)) and isinstance(last.value, ast.Call) else None
            h = None
            if c is not None and isinstance(c.func, ast.Attribute) and isinstance(c.func.value, ast.Name) and c.func.value.id == "self":
                h = sr_methods.get(c.func.attr)
            elif c is not None and isinstance(c.func, ast.Name):
                h = ldr_funcs.get(c.func.id)
            if h is not None and h is not f_:
                h_normal, h_classes = raised_classes(h, depth + 1)
                if not h_normal:
                    return False, out | h_classes
            elif c is not None and not is_logging_stmt(last) and dotted(c.func) is not None and dotted(c.func).split(".")[0] not in ("logging", "logger", "self", "print", "console"):
                return True, out | {None}  # handed to something outside the class / module: not followed
        return normal, out

    # (a helper that hands the message on to another function of the class / module that never returns normally counts as well)
    raising = {n_ for n_, f_ in sr_methods.items() if len(stmts_of(f_.body)) <= 3 and not raised_classes(f_)[0]}
    raising_funcs = {n_ for n_, f_ in ldr_funcs.items() if len(stmts_of(f_.body)) <= 3 and not raised_classes(f_)[0]}
    # role: a pure helper is a function of the module that computes its result from its arguments alone: no decorator, no * / ** parameters, no yield / global, and every call in it
    # is a builtin the interpreter knows or a method of a value rooted in one of its own parameters / locals (or of a text literal). A call of one is interpreted like the
    # expression written in place (an extracted `_count_defined(alternatives)`); everything else of the module (I/O, template rendering) stays uninterpreted.
    def _is_pure(f_):
        if f_.decorator_list or f_.args.vararg or f_.args.kwarg or isinstance(f_, ast.AsyncFunctionDef):
            return False
        bound = set(params_of(f_)) | {x.id for n in walk_body(f_) for x in ast.walk(n) if isinstance(x, ast.Name) and isinstance(x.ctx, ast.Store)}
        known = Sim().builtins
        for n in walk_body(f_):
            if isinstance(n, (ast.Yield, ast.YieldFrom, ast.Global, ast.Nonlocal, ast.Await, ast.FunctionDef, ast.AsyncFunctionDef, ast.ClassDef, ast.Lambda)):
                return False
            if isinstance(n, ast.Call):
                d_ = dotted(n.func)
                if d_ in known and d_.split(".")[0] not in bound:
                    continue
                if d_ == "isinstance" and len(n.args) == 2 and dotted(n.args[1]) in _SIM_TYPES:
                    continue
                base = n.func
                while isinstance(base, (ast.Attribute, ast.Subscript)):
                    base = base.value
                if isinstance(n.func, ast.Attribute) and ((isinstance(base, ast.Name) and base.id in bound) or (isinstance(base, ast.Constant) and isinstance(base.value, str))):
                    continue
                return False
        return True

    pure_funcs = {n_ for n_, f_ in ldr_funcs.items() if n_ not in raising_funcs and _is_pure(f_)}
    # role: the key reader is the method of the class that is called most often as self.<m>(<spec>, "<literal key>", ...)
    n_reads = {}
    for f_ in sr_methods.values():
        for c in source.calls_in(f_):
            if isinstance(c.func, ast.Attribute) and isinstance(c.func.value, ast.Name) and c.func.value.id == "self" and c.func.attr in sr_methods and len(c.args) >= 2 \
                    and isinstance(c.args[1], ast.Constant) and isinstance(c.args[1].value, str):
                n_reads[c.func.attr] = n_reads.get(c.func.attr, 0) + 1
    if not n_reads or max(n_reads.values()) < 20:
        raise AnchorMissing(f"the method of {SR.name} through which keys of the specification are read (self.<m>(<spec>, \"<key>\", ...); candidates {n_reads})")
    _READER[0] = max(n_reads, key=n_reads.get)
    reader = sr_methods[_READER[0]]
    rd_params = params_of(reader)[1:]
    if len(rd_params) < 2:
        raise AnchorMissing(f"{_READER[0]}(self, <root>, <path>, ...)")
    # roles of its further parameters, from its own body: the default is the parameter it returns, the mandatory flag the parameter it tests
    rd_default = next((n.value.id for n in walk_body(reader) if isinstance(n, ast.Return) and isinstance(n.value, ast.Name) and n.value.id in rd_params[2:]), None)
    rd_mandatory = next((x.id for n in walk_body(reader) if isinstance(n, ast.If) for x in ast.walk(n.test) if isinstance(x, ast.Name) and x.id in rd_params[2:] and x.id != rd_default), None)

    def loader_hook(reads=None, observe=(), override=None, expand=None, oracle=None, strict=()):
        """how the interpreter treats calls on the reader: an error helper raises; self._r(<dict>, key, ...) is the documented lookup (value / default / error when mandatory);
        self._r(<anything else>, key) for a key in `reads` yields the supplied value (role: "what the file says under that key"); calls of the methods in `observe` stay
        uninterpreted (their results are what the rule looks at); any other method of the class is interpreted (an extracted helper), uninterpreted if that fails - unless it
        is named in `strict` (the verdict of the caller depends on the OBJECT it returns: a failure there is "not recognised", never a value to go on with)."""
        def hook(e, env, sim):
            if override and id(e) in override:
                return override[id(e)]
            f = e.func
            if oracle and last_attr(f) in oracle and not (isinstance(f, ast.Attribute) and isinstance(f.value, ast.Name) and f.value.id == "self"):
                return oracle[last_attr(f)]  # a function of another module whose answer the rule fixes for this run (e.g. io.is_archive)
            if isinstance(f, ast.Name) and f.id in raising_funcs and f.id not in env:
                raise _Sig("raise", None, e)  # an error helper written as a function of the module
            if isinstance(f, ast.Name) and f.id in pure_funcs and f.id not in env and f.id not in observe:
                saved = sim.steps
                try:
                    args_, kwargs_ = sim.arguments(e, env)
                    return sim.apply(ldr_funcs[f.id], args_, kwargs_, None, u(e)[:50], skip_first=False)
                except CannotEval:
                    sim.steps = saved
                    return NotImplemented
            if not (isinstance(f, ast.Attribute) and isinstance(f.value, ast.Name) and f.value.id == "self" and ("self" not in env or isinstance(env["self"], SelfObj))):
                return NotImplemented
            if f.attr in raising:
                raise _Sig("raise", None, e)
            if f.attr == reader.name:
                b = bind_args(e, reader)
                if rd_params[0] not in b or rd_params[1] not in b:
                    return NotImplemented
                root, path = sim.ev(b[rd_params[0]], env), sim.ev(b[rd_params[1]], env)
                if isinstance(root, dict) and isinstance(path, str) and rd_default is not None and rd_mandatory is not None:
                    if path in root:
                        return root[path]
                    if rd_mandatory not in b or sim.truth(sim.ev(b[rd_mandatory], env)):
                        raise _Sig("raise", None, e)
                    return sim.ev(b[rd_default], env) if rd_default in b else None
                if reads and isinstance(path, str) and path in reads and not isinstance(root, (dict, list)):
                    return reads[path]
                if isinstance(root, (dict, list)):  # the reader's own body is interpreted (lists of keys, other parameter roles)
                    return sim.invoke(reader, e, env, extra={"self": env["self"]} if "self" in env else None)
                return NotImplemented
            if f.attr in sr_methods and f.attr not in observe and f.attr != reader.name and (expand is None or f.attr in expand):
                saved = sim.steps
                try:
                    return sim.invoke(sr_methods[f.attr], e, env, extra={"self": env["self"]} if "self" in env else None)
                except CannotEval:
                    if f.attr in strict:
                        raise
                    sim.steps = saved
                    return NotImplemented
            return NotImplemented
        return hook

    def handed_value(func, site, expr, reads, rule, what, observe):
        """the value `expr` has at `site` (a call in func) for a specification whose keys in `reads` hold the given values: the statements that decide the names in expr are
        sliced out of what runs before the site and interpreted (None + 'not recognised' if that is not possible)."""
        st = source.enclosing_stmt(site)
        pre = statements_before(st, func)
        keep = set()
        slice_before(pre, _loads(expr), keep)
        try:
            kind, val, _ = simulate(pre, {}, keep, hook=loader_hook(reads, observe), then=expr)
            if isinstance(val, _LazySeq):
                # a lazy map(...) handed on as it is: a one-pass iterator. If a statement on the way reads the same local (a loop over it would use it up: the slice above
                # only follows what BINDS or MUTATES a name), what arrives is not decided here
                last_bind = max([i_ for i_, s_ in enumerate(pre) if isinstance(expr, ast.Name) and expr.id in _defs(s_)[0] and id(s_) in keep] or [-1])
                if not isinstance(expr, ast.Name) or any(isinstance(x, ast.Name) and x.id == expr.id and isinstance(x.ctx, ast.Load) for s_ in pre[last_bind + 1:] for x in ast.walk(s_)):
                    chk.unknown(rule, f"{what} is a lazy iterator (map(...)) that other statements read before it is handed on: what is left of it is not decided", site)
                    return None
                val = list(val)
        except CannotEval as e:
            chk.unknown(rule, f"{what} cannot be interpreted on a representative specification: {e}", site)
            return None
        if kind == "error":
            return _Sig("error", val)
        if kind != "fallthrough":
            chk.unknown(rule, f"{what}: the statements that compute it end in `{kind}` on a representative specification", site)
            return None
        return val

    def mentions(val, tokens):
        """does any of the (frozen) tokens occur anywhere inside the value?"""
        if any(val == t_ for t_ in tokens):
            return True
        if isinstance(val, Opaque):
            return any(mentions(x, tokens) for x in val.sig)
        if isinstance(val, dict):
            return any(mentions(k_, tokens) or mentions(v_, tokens) for k_, v_ in val.items()) or _freeze(val) in tokens
        if isinstance(val, (list, tuple, set, frozenset)):
            return any(mentions(x, tokens) for x in val)
        if isinstance(val, Record):
            return any(mentions(x, tokens) for x in val.fields.values())
        return False

    def parsed_elements(val, *roles):
        """[(method name, frozen first argument)] if val is a list of uninterpreted results of self.<role method>(<spec>, ...), else None."""
        if not isinstance(val, (list, tuple)):
            return None
        by_name = {r.name: r for r in roles}
        out = []
        for v in val:
            if not (isinstance(v, Opaque) and v.sig[0] == "call" and isinstance(v.sig[1], Opaque) and v.sig[1].sig[0] == "attr" and v.sig[1].sig[1] == Opaque("free", "self")
                    and v.sig[1].sig[2] in by_name):
                return None
            args, kwargs = v.sig[2], dict(v.sig[3][1:])
            first = params_of(by_name[v.sig[1].sig[2]])[1]
            if not args and first not in kwargs:
                return None
            out.append((v.sig[1].sig[2], args[0] if args else kwargs[first]))
        return out

    # ---- O10.1 operation-type registry --------------------------------------------------------------------------------------------------------------
    chk.rule("O10.1", "operation-type registry: the string->member chain is a bijection (every member once, literals distinct); each literal equals the hyphenation of the member name "
             "(= to_hyphenated_string); every default-runner / param-source registration names a member; the composite's supported list is a subset of registered names", 60,
             "an operation type written in a track resolves to another operation, or a documented type is rejected as unknown")
    OT = trk.cls("OperationType")
    # members: the names bound in the class body to a value (a tuple on this tree; a constant, auto() or a record built by a call would be one as well), private names left out
    members = [n.targets[0].id for n in OT.body if isinstance(n, ast.Assign) and len(n.targets) == 1 and isinstance(n.targets[0], ast.Name) and not n.targets[0].id.startswith("_")
               and isinstance(n.value, (ast.Tuple, ast.Call, ast.Constant))]
    fh = trk.methods(OT).get("from_hyphenated_string")
    if fh is None or len(members) < 40:
        raise AnchorMissing("OperationType members / from_hyphenated_string")
    fh_static = any(last_attr(d_) == "staticmethod" for d_ in fh.decorator_list)
    if len(params_of(fh)) < (1 if fh_static else 2):
        raise AnchorMissing("from_hyphenated_string(cls, <literal>)")
    vpar = params_of(fh)[0 if fh_static else 1]
    # registry keys: every string literal the parameter is compared with (any orientation, `in` tuples included); one entry per occurrence
    lits = [c.value for n in walk_body(fh) if isinstance(n, ast.Compare) and any(name_of(x) == vpar for x in ast.walk(n)) for c in ast.walk(n) if isinstance(c, ast.Constant) and isinstance(c.value, str)]
    # the enum class itself is a value the interpreter knows (extracted from its ClassDef): iteration in declaration order, Enum[name], .name, the class's own methods — so a
    # table DERIVED from the members (`{m.to_hyphenated_string(): m for m in OperationType}`), a search loop over the members or a name reconstruction are decided like the chain
    ot_model = EnumModel.of(OT)
    ot_enums = {OT.name: ot_model} if ot_model is not None else {}
    ot_cls = ot_model.cls if ot_model is not None else Opaque("free", "OperationType")
    trk_funcs = {f_.name: f_ for f_ in trk.tree.body if isinstance(f_, ast.FunctionDef)}
    _mod_vals, _in_progress, _cached = {}, set(), {}

    def module_values(mod, names, enums=None, hook=None):
        """values of module-level names as the module's own top-level statements leave them: the statements that bind or fill a name (a literal, a comprehension over an Enum
        class, a loop that fills a table) are sliced out of the module body and interpreted in order. A name that cannot be interpreted is left out (it stays uninterpreted)."""
        out = {}
        for nm_ in sorted(names):
            keep = set()
            slice_before(mod.tree.body, {nm_}, keep)
            if not keep:
                continue
            env = {}
            try:
                kind, _, _ = simulate(mod.tree.body, env, keep, hook=hook, enums=enums)
            except CannotEval:
                continue
            if kind == "fallthrough" and nm_ in env:
                out[nm_] = env[nm_]
        return out

    def trk_values(f_):
        """the module-level names of track.py that the function reads, interpreted once (a table filled lazily by the function keeps its contents between calls, as in Python)."""
        if f_.name not in _mod_vals:
            if f_.name in _in_progress:
                return {}
            _in_progress.add(f_.name)
            try:
                bound = set(params_of(f_)) | {x.id for x in ast.walk(f_) if isinstance(x, ast.Name) and isinstance(x.ctx, ast.Store)}
                _mod_vals[f_.name] = module_values(trk, {x.id for x in ast.walk(f_) if isinstance(x, ast.Name)} - bound - set(trk_funcs) - set(ot_enums), ot_enums, trk_hook)
            finally:
                _in_progress.discard(f_.name)
        return _mod_vals[f_.name]

    def trk_hook(e, env_, sim):
        """a module-level function of track.py called by name is entered (an extracted helper, e.g. a cached table builder); caching decorators do not change what it returns."""
        if isinstance(e.func, ast.Name) and e.func.id in trk_funcs and e.func.id not in env_:
            f_ = trk_funcs[e.func.id]
            if any(last_attr(d_.func if isinstance(d_, ast.Call) else d_) not in ("lru_cache", "cache") for d_ in f_.decorator_list):
                return NotImplemented
            if f_.decorator_list and not e.args and not e.keywords:  # a cached function without arguments: interpreted once, as the cache does
                if f_.name not in _cached:
                    _cached[f_.name] = sim.invoke(f_, e, env_, extra=trk_values(f_))
                return _cached[f_.name]
            return sim.invoke(f_, e, env_, extra=trk_values(f_))
        return NotImplemented

    fh_env = trk_values(fh)
    # a table looked up by the literal may hold further keys than the documented names: they are probed too
    table_keys = [k_ for v_ in fh_env.values() if isinstance(v_, dict) for k_ in v_ if isinstance(k_, str)]

    def resolve(lit):
        """outcome of the function for this literal: its body is interpreted (if-chain, separate ifs, `in` tuples, a literal or derived table looked up by the literal, a search
        over the members, helpers of the module entered — all the same)."""
        return simulate(stmts_of(fh.body), {**fh_env, **({} if fh_static else {params_of(fh)[0]: ot_cls}), vpar: lit}, hook=trk_hook, enums=ot_enums)

    def member_of(v):
        """X if the value is <track.>OperationType.X."""
        if isinstance(v, Opaque) and v.sig[0] == "attr" and isinstance(v.sig[1], Opaque) and (v.sig[1] == Opaque("free", "OperationType") or (v.sig[1].sig[0] == "attr" and v.sig[1].sig[2] == "OperationType")):
            return v.sig[2]
        return None

    def outcome_of(kind, val):
        """member: returns OperationType.<X> | rejects: raises | other: a definite value that is no member (None, a text, falling off the end) | unknown: an uninterpreted value
        (e.g. the entry of a table this check could not evaluate) - nothing is concluded from that."""
        if kind == "return" and member_of(val) is not None:
            return "member"
        if kind in ("raise", "error"):
            return "rejects"
        if kind in ("return", "fallthrough") and not _has_opaque(val):
            return "other"
        return "unknown"

    # role: what the callers treat as "not one of Rally's operation types" - the exception classes handled around the calls of the function in the loader (KeyError on this tree)
    caught = set()
    for c in source.calls_in(ldr.tree, attr=fh.name, local=False):
        tr = next((a for a in source.ancestors(c) if isinstance(a, ast.Try) and any(c is x for b_ in a.body for x in ast.walk(b_))), None)
        for h in tr.handlers if tr is not None else []:
            caught |= {"Exception"} if h.type is None else {last_attr(x) for x in (h.type.elts if isinstance(h.type, ast.Tuple) else [h.type])}
    caught = {c for c in caught if c} or {"KeyError"}

    def is_caught(exc_name):
        import builtins as _b
        if exc_name in caught or caught & {"Exception", "BaseException"}:
            return True
        a = getattr(_b, exc_name, None)
        return isinstance(a, type) and any(isinstance(getattr(_b, c, None), type) and issubclass(a, getattr(_b, c)) for c in caught)

    pairs, undecided = [], set()
    try:
        for lit in dict.fromkeys(lits + table_keys + [hyphenate(m) for m in members]):
            kind, val, node = resolve(lit)
            oc = outcome_of(kind, val)
            if oc == "member":
                pairs.append((lit, member_of(val), node))
            elif oc == "unknown":
                undecided.add(lit)
                if len(undecided) <= 2:
                    chk.unknown("O10.1", f"registry outcome for '{lit}' is not `return OperationType.<Member>`: {kind} {str(val)[:60]}", node if node is not None else fh)
        kind, val, node = resolve("\x00no-such-operation-type")
        oc = outcome_of(kind, val)
        exc_name = (val if kind == "raise" else str(val).split(" ")[0].rstrip(":")) if oc == "rejects" else None
        if oc == "unknown" or (oc == "rejects" and (not isinstance(exc_name, str) or not exc_name[:1].isupper())):
            chk.unknown("O10.1", f"the outcome of from_hyphenated_string for a name that is no operation type is not recognised: {kind} {str(val)[:60]}", node if node is not None else fh)
        else:
            ok = oc == "rejects" and is_caught(exc_name)
            chk.ob("O10.1", "unknown literal raises KeyError", ok, node if node is not None else fh,
                   f"{kind} {short(node, 60) if kind == 'raise' and node is not None else val}" + ("" if ok or oc != "rejects" else f" - the loader handles {sorted(caught)} as 'user-defined operation type'"))
    except CannotEval as e:
        chk.unknown("O10.1", f"from_hyphenated_string cannot be interpreted on a literal: {e}", fh)
        pairs = None
    mems = [p[1] for p in pairs or []]
    chk.ob("O10.1", "literals are distinct", len(lits) == len(set(lits)), fh, f"duplicates: {sorted({x for x in lits if lits.count(x) > 1})}")
    chk.ob("O10.1", "each member is returned by exactly one literal", len(mems) == len(set(mems)), fh, f"duplicates: {sorted({x for x in mems if mems.count(x) > 1})}")
    for m in members if pairs is not None else []:
        if hyphenate(m) in undecided:
            continue  # reported as not recognised above: nothing is concluded for this member
        chk.ob("O10.1", f"member {m} reachable from its documented name '{hyphenate(m)}'", (hyphenate(m), m) in [(l, mm) for l, mm, _ in pairs], OT,
               (f"returned for {[l for l, mm, _ in pairs if mm == m]} instead" if m in mems else "no literal returns this member") if (hyphenate(m), m) not in [(l, mm) for l, mm, _ in pairs] else "",
               key=f"{_T}:OperationType.from_hyphenated_string:{m}")
    for lit, mem, nd in pairs or []:
        if mem not in members:
            chk.ob("O10.1", f"literal '{lit}' returns a declared member", False, nd, f"OperationType.{mem} is not declared")
    th = trk.methods(OT).get("to_hyphenated_string")
    if th is None:
        raise AnchorMissing("OperationType.to_hyphenated_string")
    # decided on values: the body is interpreted for every member name; it must yield the documented hyphenation (the key the registry above is checked against)
    wrong = []
    try:
        for m in members:
            # self is the member itself (its .name is the member name; a table keyed by members finds it), read-only module-level tables and helpers of track.py as above
            me_ = ot_model.members[m] if ot_model is not None and m in ot_model.members else Record(name=m)
            kind, val, _ = simulate(stmts_of(th.body), {**trk_values(th), (params_of(th) or ["self"])[0]: me_}, hook=trk_hook, enums=ot_enums)
            if kind == "return" and _has_opaque(val):
                raise CannotEval(f"for {m} it returns the uninterpreted {str(val)[:60]}")
            if kind != "return" or val != hyphenate(m):
                wrong.append(f"{m} -> {repr(val) if kind == 'return' else kind}")
        chk.ob("O10.1", "to_hyphenated_string is the documented hyphenation", not wrong, th, "" if not wrong else f"{len(wrong)} member(s) hyphenated differently: {wrong[:4]}")
    except CannotEval as e:
        chk.unknown("O10.1", f"to_hyphenated_string cannot be interpreted on the member names: {e}", th)
    reg = rn.func("register_default_runners")

    def observed_calls(stmts, keep, callee, env=None, funcs=None):
        """interprets the statements and records every call whose callee's last name component is `callee`: [(call node, argument values, keyword values)] — whether the calls are
        written one by one, in a loop over a table or in a helper (a function of `funcs`, entered) does not matter."""
        seen = []

        def hook(e, env_, sim):
            if last_attr(e.func) == callee:
                seen.append((e, [sim.ev(a, env_) for a in e.args if not isinstance(a, ast.Starred)], {k.arg: sim.ev(k.value, env_) for k in e.keywords if k.arg}))
                return None
            if funcs and isinstance(e.func, ast.Name) and e.func.id in funcs and e.func.id not in env_:
                return sim.invoke(funcs[e.func.id], e, env_)
            return NotImplemented

        kind, _, node = simulate(stmts, dict(env or {}), keep, hook=hook, enums=ot_enums)
        if kind not in ("fallthrough", "return"):
            raise CannotEval(f"interpretation ends in `{kind}` at line {getattr(node, 'lineno', '?')}")
        return seen

    regd = set()
    regd_known = False
    try:
        rn_funcs = {f_.name: f_ for f_ in rn.tree.body if isinstance(f_, ast.FunctionDef) and f_.name not in ("register_runner", reg.name)}
        regs = observed_calls(reg.body, None, "register_runner", funcs=rn_funcs)
        n_unres = 0
        for c, args, kwargs in regs:
            first = args[0] if args else kwargs.get(params_of(rn.func("register_runner"))[0])
            mem = member_of(first)
            if mem is None:
                n_unres += 1
                continue
            regd.add(mem)
            if mem not in members:
                chk.ob("O10.1", f"runner registered for declared member {mem}", False, c, "not a member of OperationType")
        if n_unres:
            chk.unknown("O10.1", f"{n_unres} register_runner(...) call(s) in register_default_runners whose operation type is not an OperationType member expression", reg)
        elif not regs:
            chk.unknown("O10.1", "no register_runner(...) call observed when register_default_runners is interpreted", reg)
        else:
            regd_known = True
            chk.ob("O10.1", "default runners registered by enum member", len(regd) >= 50, reg, f"{len(regd)} members have a default runner; without: {sorted(set(members) - regd)}")
    except CannotEval as e:
        chk.unknown("O10.1", f"register_default_runners cannot be interpreted: {e}", reg)
    rr = rn.func("register_runner")
    rf = rn.func("runner_for")
    # role: the registry is the module-level name that register_runner stores into (registry[key] = ...)
    stores = [n.targets[0] for n in walk_body(rr) if isinstance(n, ast.Assign) and len(n.targets) == 1 and isinstance(n.targets[0], ast.Subscript) and isinstance(n.targets[0].value, ast.Name)
              and rn.module_constant(n.targets[0].value.id) is not None]
    if len({t_.value.id for t_ in stores}) != 1:
        chk.unknown("O10.1", f"the module-level registry that register_runner stores into was not located ({len(stores)} candidate store(s))", rr)
    else:
        registry = stores[0].value.id
        # decided on values: the statements of register_runner that decide the key of the store are interpreted for an enum member and for a user-defined type name (a text);
        # the key must be the member's hyphenated name resp. the text itself - whatever converts it (the method, a helper, a conditional expression)
        rr_params = params_of(rr)
        keyed, how = None, ""
        if rr_params and ot_model is not None and members:
            st_ = source.enclosing_stmt(stores[0])
            pre_ = statements_before(st_, rr)
            keep_ = set()
            slice_before(pre_, _loads(stores[0].slice), keep_)  # the initial value of the parameter is supplied below; what re-binds it on the way is part of the slice
            rn_funcs_ = {f_.name: f_ for f_ in rn.tree.body if isinstance(f_, ast.FunctionDef) and f_.name not in (rr.name, reg.name)}

            def key_hook(e, env_, sim):
                if isinstance(e.func, ast.Name) and e.func.id in rn_funcs_ and e.func.id not in env_:
                    return sim.invoke(rn_funcs_[e.func.id], e, env_)
                return NotImplemented

            try:
                got_ = []
                for arg_ in (ot_model.members[members[0]], ot_model.members[members[-1]], "my-own-operation-type"):
                    kind, val, _ = simulate(pre_, {rr_params[0]: arg_}, keep_, hook=key_hook, then=stores[0].slice, enums=ot_enums)
                    if kind != "fallthrough" or (_has_opaque(val) and not isinstance(val, EnumMember)):
                        raise CannotEval(f"the key is {kind} {str(val)[:40]}")
                    got_.append(val)  # a text, or the member itself when nothing converts it
                want_ = [hyphenate(members[0]), hyphenate(members[-1]), "my-own-operation-type"]
                keyed, how = got_ == want_, f"keys for OperationType.{members[0]} / OperationType.{members[-1]} / a user-defined type name: {got_}"
            except CannotEval as e:
                how = str(e)
        if keyed is None and any(isinstance(c, ast.Call) and last_attr(c.func) == th.name for c in walk_body(rr)):
            keyed, how = True, f"{th.name}() applied to an OperationType key"
        if keyed is None:
            chk.unknown("O10.1", f"how register_runner derives the key of `{registry}` from an OperationType member is not recognised ({how[:120]})", rr)
        else:
            chk.ob("O10.1", "runner registry keyed by the hyphenated string", keyed, rr, f"registry `{registry}`; {how}")
        # the lookup: the key the registry is subscripted / asked with in runner_for is the text it is called with (the operation's type as written in the track)
        lookups = [(n, n.slice) for n in walk_body(rf) if isinstance(n, ast.Subscript) and name_of(n.value) == registry and isinstance(n.ctx, ast.Load)] + \
                  [(n, n.args[0]) for n in walk_body(rf) if isinstance(n, ast.Call) and isinstance(n.func, ast.Attribute) and n.func.attr == "get" and name_of(n.func.value) == registry and n.args]
        if not lookups or not params_of(rf):
            chk.unknown("O10.1", f"no lookup in the registry `{registry}` (subscript / .get) located in runner_for", rf)
        else:
            n_, key_ = lookups[0]
            try:
                pre_ = statements_before(source.enclosing_stmt(n_), rf)
                keep_ = set()
                slice_before(pre_, _loads(key_), keep_)
                probe_ = hyphenate(next((m for m in members if "-" in hyphenate(m)), members[0]))  # a documented name with a hyphen, as written in a track
                kind, val, _ = simulate(pre_, {params_of(rf)[0]: probe_}, keep_, then=key_, enums=ot_enums)
                if kind != "fallthrough" or _has_opaque(val):
                    raise CannotEval(f"{kind} {str(val)[:40]}")
                chk.ob("O10.1", "runner lookup by the same (hyphenated string) key", val == probe_, rf, f"registry `{registry}`; runner_for({probe_!r}) looks up {val!r}")
            except CannotEval as e:
                chk.unknown("O10.1", f"the key runner_for looks up in `{registry}` cannot be interpreted: {e}", n_)
    # module-level registrations of the parameter sources: the statements that contain them (and what they read) are interpreted, so a loop over a table counts like the
    # statements written one by one
    ps_stmts = [s_ for s_ in pr.tree.body if not isinstance(s_, (ast.FunctionDef, ast.AsyncFunctionDef, ast.ClassDef))
                and any(isinstance(x, ast.Call) and last_attr(x.func) == "register_param_source_for_operation" for x in ast.walk(s_))]
    keep_ps = {id(x) for s_ in ps_stmts for x in [s_] + list(_sub_stmts(s_))}
    for s_ in ps_stmts:
        slice_before(pr.tree.body[:[i for i, x in enumerate(pr.tree.body) if x is s_][0]], _loads(s_), keep_ps)
    try:
        for c, args, kwargs in observed_calls(pr.tree.body, keep_ps, "register_param_source_for_operation"):
            mem = member_of(args[0]) if args else None
            if mem is None:
                chk.unknown("O10.1", f"a parameter source is registered for something that is not an OperationType member expression: {short(c, 70)}", c)
            else:
                chk.ob("O10.1", f"param source registered for declared member {mem}", mem in members, c, "", key=f"{_P}:param-source:{mem}")
    except CannotEval as e:
        chk.unknown("O10.1", f"the module-level parameter-source registrations cannot be interpreted: {e}", pr.tree.body[0])
    CO = rn.cls("Composite")
    sup = [n for n in ast.walk(CO) if isinstance(n, ast.Assign) and len(n.targets) == 1 and is_self_attr(n.targets[0], "supported_op_types")]
    if sup and regd_known:
        try:
            names = Sim().ev(sup[0].value, module_env_of(rn, _loads(sup[0].value)))  # a literal list / tuple / set, in place or behind a module-level name
        except (CannotEval, _Sig):
            names = None
        if not isinstance(names, (list, tuple, set, frozenset)) or not all(isinstance(x, str) for x in names):
            chk.unknown("O10.1", f"the operation types the composite runner supports are not a collection of literals: {short(sup[0].value, 60)}", sup[0])
        else:
            bad = [x for x in names if x not in {hyphenate(m) for m in regd}]
            chk.ob("O10.1", "composite's supported operation types all have a registered runner", not bad, sup[0], f"unregistered: {bad}")

    # ---- O10.2 field flow ----------------------------------------------------------------------------------------------------------------------------
    chk.rule("O10.2", "each documented task key reaches the Task parameter and attribute of that meaning; the five inheritable keys default to the parameter that parse_parallel fills from the "
             "SAME key of the parallel element (positional agreement); completed-by flags derive from comparing the task name with the parallel's completed-by / 'any'; schedule order is "
             "append order; document-set keys reach the Documents parameter of that meaning with corpus-level defaults; the corpus-level target-index / target-data-stream / target-type are "
             "read from the corpus specification for every size (0, 1, 2) of the track's own indices / data-streams sections (value table)", 40,
             "a track's warm-up iterations load as iterations (or similar): the race runs something else than the file says, silently")
    pt = method(ldr, SR, "parse_task")
    pp = method(ldr, SR, "parse_parallel")
    if len(params_of(pt)) < 2 or len(params_of(pp)) < 2:
        raise AnchorMissing("parse_task(self, <task spec>, ...) / parse_parallel(self, <parallel spec>, ...)")
    roles = {pt.name, pp.name}  # calls of these stay uninterpreted when statements of the reader are interpreted: their results are what the rules look at
    # methods of the reader that construct model objects (track.<Class>(...)) are "parsers": when statements are interpreted their calls stay uninterpreted values
    builders = {n_ for n_, f_ in sr_methods.items() if any(isinstance(c, ast.Call) and (dotted(c.func) or "").startswith("track.") and (last_attr(c.func) or "x")[0].isupper() for c in walk_body(f_))}
    tctor = [c for c in source.calls_in(pt) if dotted(c.func) == "track.Task"]
    if not tctor:
        raise AnchorMissing("track.Task(...) in parse_task")
    TK = trk.cls("Task")
    tinit = method(trk, TK, "__init__")
    t_params = params_of(tinit)[1:]
    for param in TASK_KEYS.values():
        if param not in t_params:
            raise AnchorMissing(f"Task.__init__ has no parameter `{param}`")

    def call_env(func, values):
        """environment of a call of func: declared defaults, then the given values (by parameter name)."""
        a = func.args
        names = params_of(func)
        env = {}
        for n_, d_ in list(zip(names[len(names) - len(a.defaults):], a.defaults)) + [(k.arg, d_) for k, d_ in zip(a.kwonlyargs, a.kw_defaults) if d_ is not None]:
            try:
                env[n_] = Sim().ev(d_, {})
            except (CannotEval, _Sig):
                pass
        env.update(values)
        return env

    def capture(func, env, is_target, callee_params, observe, oracle=None, consts=None):
        """interprets the whole body of func on env until a call satisfying is_target is reached (directly, in a comprehension or in a helper of the class): -> {parameter: value}
        of that call. CannotEval if it is not reached."""
        base = loader_hook(observe=observe, oracle=oracle)

        def hook(e, env_, sim):
            if is_target(e):
                args_, kwargs_ = sim.arguments(e, env_)  # (a keyword table spread with ** counts like keywords written out)
                vals = dict(zip(callee_params, args_))
                vals.update(kwargs_)
                raise _Sig("stop", vals, e)
            return base(e, env_, sim)

        kind, val, node = simulate(func.body, env, None, hook, consts=consts)
        if kind != "stop":
            msg = f"interpreting {func.name} ends in `{kind}`" + (f" ({val})" if kind == "error" else "") + f" at line {getattr(node, 'lineno', '?')} before the call is reached"
            raise (Rejected(msg, kind, node) if kind in ("raise", "error") else CannotEval(msg))
        return val

    def full_hook(observe, oracle=None, model=(), strict=()):
        """like loader_hook, and the constructors of the model classes in `model` [(class, __init__)] are interpreted too: the object is a Record with the attributes __init__ stores."""
        return modelled(loader_hook(observe=observe, oracle=oracle, strict=strict), model)

    def modelled(base, model, oracle=None):
        """the hook `base`, and before it: the functions of other modules whose answer the rule fixes (oracle), the constructors of the model classes in `model` interpreted."""
        def hook(e, env_, sim):
            if oracle and last_attr(e.func) in oracle and not (isinstance(e.func, ast.Attribute) and isinstance(e.func.value, ast.Name) and e.func.value.id == "self"):
                return oracle[last_attr(e.func)]
            for cls_node, init, *opts in model:
                if last_attr(e.func) == cls_node.name and (dotted(e.func) or "").split(".")[0] in ("track", cls_node.name):
                    obj = Inst(cls_node)  # (equality / membership of such objects: the class's own __eq__, see Inst)
                    if opts and opts[0] == "tolerant":
                        args_, kwargs_ = sim.arguments(e, env_)
                        sim.apply(init, args_, kwargs_, {params_of(init)[0]: obj}, u(e)[:50], tolerant=True)
                    else:
                        sim.invoke(init, e, env_, extra={params_of(init)[0]: obj})
                    return obj
            return base(e, env_, sim)

        return hook

    def is_task_ctor(e):
        return last_attr(e.func) == TK.name and (dotted(e.func) or "").split(".")[0] in ("track", TK.name)

    def is_parse_task(e):
        return isinstance(e.func, ast.Attribute) and isinstance(e.func.value, ast.Name) and e.func.value.id == "self" and e.func.attr == pt.name

    def same(a, b):
        return type(a) is type(b) and a == b

    # Decided on VALUES: parse_task is interpreted on a task specification that writes every documented key with a distinct marker value; the value that reaches each parameter of
    # Task(...) must be the marker of the key of that meaning — whatever locals, helpers or keyword order lie in between
    markers = {"name": "task-name-marker", "tags": ["tag-marker"], "meta": {"meta-key": "meta-marker"}, "warmup-iterations": 11, "iterations": 22, "warmup-time-period": 66,
               "time-period": 44, "ramp-up-time-period": 55, "clients": 7, "schedule": "schedule-marker"}
    iteration_keys, period_keys = ("warmup-iterations", "iterations"), ("warmup-time-period", "time-period", "ramp-up-time-period")
    p_spec, p_ops = params_of(pt)[1], (params_of(pt)[2] if len(params_of(pt)) > 2 else None)
    op_entry = Record(name="op-1")
    observe_all = roles | builders
    try:
        # two valid tasks (an iteration-based and a time-based one: both kinds of keys on one task is what the loader must reject), so that validation may run before Task(...)
        by_kind = {}
        for kind_, drop in (("iterations", period_keys), ("periods", iteration_keys)):
            by_kind[kind_] = capture(pt, call_env(pt, {p_spec: {"operation": "op-1", **{k_: v_ for k_, v_ in markers.items() if k_ not in drop}}, **({p_ops: {"op-1": op_entry}} if p_ops else {})}),
                                     is_task_ctor, t_params, observe_all)
        tb = {p_: (by_kind["periods"] if k_ in period_keys else by_kind["iterations"]).get(p_, call_env(tinit, {}).get(p_)) for k_, p_ in TASK_KEYS.items()}
        bare = {"operation": "op-1"}
        tb0 = capture(pt, call_env(pt, {p_spec: bare, **({p_ops: {"op-1": op_entry}} if p_ops else {})}), is_task_ctor, t_params, observe_all)
        tb_inline = capture(pt, call_env(pt, {p_spec: dict(bare), **({p_ops: {}} if p_ops else {})}), is_task_ctor, t_params, observe_all)
    except CannotEval as e:
        raise AnchorMissing(f"parse_task cannot be interpreted on a representative task specification up to Task(...): {e}")
    t_defaults = call_env(tinit, {})
    for key, param in TASK_KEYS.items():
        v = tb.get(param, t_defaults.get(param))
        other = [k_ for k_, m_ in markers.items() if same(v, m_)]
        chk.ob("O10.2", f"task key '{key}' -> Task({param}=...)", same(v, markers[key]), tctor[0],
               f"for a task that writes every key, Task({param}=...) gets {v!r}" + (f", the value of '{other[0]}'" if other and other[0] != key else ("" if other else " — not the value written in the file")),
               key=f"{_L}:parse_task:key:{key}")
    # Task.__init__ interpreted on marker arguments: the attribute of that name holds the argument
    try:
        obj = Record()
        amark = {p_: f"arg-{p_}" for p_ in t_params}
        kind, _, node = simulate(tinit.body, {params_of(tinit)[0]: obj, **amark})
        if kind not in ("fallthrough", "return"):
            raise CannotEval(f"ends in `{kind}` at line {getattr(node, 'lineno', '?')}")
        for key, param in TASK_KEYS.items():
            if param not in ("tags", "meta_data"):
                holders = [a_ for a_, v_ in obj.fields.items() if same(v_, amark[param])]
                # ... or its private twin when a property of that name hands it out
                twin = "_" + param in holders and any(isinstance(f_, ast.FunctionDef) and f_.name == param and any(last_attr(d_) in ("property", "cached_property") for d_ in f_.decorator_list) for f_ in TK.body)
                chk.ob("O10.2", f"Task.{param} stores its parameter", param in holders or twin, tinit, f"stored in {['self.' + a_ for a_ in holders] or 'no attribute'}",
                       key=f"{_T}:Task.__init__:{param}")
    except CannotEval as e:
        chk.unknown("O10.2", f"Task.__init__ cannot be interpreted on marker arguments: {e}", tinit)
    # the operation is the entry of the operations table (or the inline operation parsed from the element), the raw task spec is handed on, the name defaults to the operation's
    op_inline = tb_inline.get("operation")
    ok = tb0.get("operation") is op_entry and same(tb0.get("params"), bare) and isinstance(op_inline, Opaque) and op_inline.sig[0] == "call" and mentions(op_inline, ["op-1"])
    chk.ob("O10.2", "operation and raw task spec handed to the task", ok, tctor[0],
           "" if ok else f"operation from the table: {tb0.get('operation')!r}; inline: {op_inline!r}; params: {tb0.get('params')!r}"[:200])
    chk.ob("O10.2", "task name defaults to the operation name", same(tb0.get("name"), "op-1") and tb_inline.get("name") == Opaque("attr", op_inline, "name"), tctor[0],
           f"a task without a name is called {tb0.get('name')!r}")
    # parse_parallel: the element's values for the five inheritable keys and its completed-by reach parse_task and, for a task that does not write the key itself, Task(...) —
    # end to end, so the names and the order of the parameters in between do not matter (they only have to agree)
    ptc = [c for c in source.calls_in(pp) if u(c.func) == "self.parse_task"]
    pp_spec, pp_ops = params_of(pp)[1], (params_of(pp)[2] if len(params_of(pp)) > 2 else None)
    pmark = {"warmup-iterations": 111, "iterations": 222, "warmup-time-period": 666, "time-period": 444, "ramp-up-time-period": 555}
    sub_a = {"operation": "op-1", "name": "t-a"}

    def through_parallel(completed_by, drop=period_keys):
        """(what parse_task is called with, what Task(...) is called with) for the only task `t-a` (operation `op-1`) of a parallel element that writes the inheritable keys of one
        kind (iteration counts or time periods: a valid element)."""
        par = {**{k_: v_ for k_, v_ in pmark.items() if k_ not in drop}, "clients": 9, "tasks": [dict(sub_a)], **({"completed-by": completed_by} if completed_by is not None else {})}
        handed = capture(pp, call_env(pp, {pp_spec: par, **({pp_ops: {"op-1": op_entry}} if pp_ops else {})}), is_parse_task, params_of(pt)[1:], observe_all - {pp.name})
        return handed, capture(pt, call_env(pt, handed), is_task_ctor, t_params, observe_all)

    try:
        by_kind_p = {"iterations": through_parallel("t-a", period_keys), "periods": through_parallel("t-a", iteration_keys)}
        for key, param in INHERITED.items():
            handed, tbp = by_kind_p["periods" if key in period_keys else "iterations"]
            chk.ob("O10.2", f"parallel key '{key}' -> parse_task({param}=...)", any(same(v_, pmark[key]) for v_ in handed.values()), ptc[0] if ptc else pp,
                   f"parse_task is called with {sorted(k_ for k_, v_ in handed.items() if same(v_, pmark[key])) or 'no argument'} holding the element's '{key}'", key=f"{_L}:parse_parallel:default:{key}")
            v = tbp.get(TASK_KEYS[key], t_defaults.get(TASK_KEYS[key]))
            other = [k_ for k_, m_ in pmark.items() if same(v, m_)]
            chk.ob("O10.2", f"task key '{key}' defaults to the parallel element's value", same(v, pmark[key]), tctor[0],
                   f"a task that does not write '{key}' inside a parallel element that does gets {v!r}" + (f", the element's '{other[0]}'" if other and other[0] != key else ""),
                   key=f"{_L}:parse_task:default:{key}")
        chk.ob("O10.2", "parallel key 'completed-by' -> parse_task(completed_by_name=...)", any(same(v_, "t-a") for v_ in by_kind_p["iterations"][0].values()), ptc[0] if ptc else pp, "")
        rows = []
        for cb, want in (("t-a", (True, False)), ("another-task", (False, False)), ("op-1", (False, False)), ("any", (False, True)), (None, (False, False))):
            _, t_ = through_parallel(cb)
            got_ = tuple(Sim().truth(t_.get(p_, t_defaults.get(p_))) for p_ in ("completes_parent", "any_completes_parent"))
            if got_ != want:
                rows.append(f"completed-by {cb!r}: task 't-a' (operation 'op-1') gets completes_parent / any_completes_parent = {got_}, expected {want}")
        chk.ob("O10.2", "completed-by flags: name == completed-by / completed-by == 'any'", not rows, tctor[0], "; ".join(rows)[:300])
    except CannotEval as e:
        chk.unknown("O10.2", f"parse_parallel / parse_task cannot be interpreted on a representative parallel element: {e}", pp)
    pr_ = [c for c in source.calls_in(pp) if dotted(c.func) == "track.Parallel"]
    if not pr_:
        raise AnchorMissing("track.Parallel(...) in parse_parallel")
    prb = bind_args(pr_[0], method(trk, trk.cls("Parallel"), "__init__"))
    if prb.get("clients") is None or prb.get("tasks") is None:
        raise AnchorMissing("Parallel(<tasks>, <clients>) in parse_parallel")
    pkeys = {"clients": 9, "warmup-iterations": 111, "iterations": 222, "warmup-time-period": 333, "time-period": 444, "ramp-up-time-period": 555, "completed-by": "cb-marker"}
    got = handed_value(pp, pr_[0], prb.get("clients"), pkeys, "O10.2", "the client count handed to Parallel(...)", observe_all)
    if got is not None and not isinstance(got, _Sig):
        other = [k_ for k_, m_ in pkeys.items() if same(got, m_)]
        chk.ob("O10.2", "parallel key 'clients' -> Parallel(clients)", same(got, 9), pr_[0], f"Parallel(clients=...) gets {got!r}" + (f", the value of '{other[0]}'" if other else ""))
    # role: the sub-task list is whatever is handed to Parallel(tasks=...). Decided on values: the statements that compute it are interpreted for a parallel element whose 'tasks'
    # are [A, B, C] (three distinct specifications, deliberately not in alphabetical order); the list must be [parse_task(A, ...), parse_task(B, ...), parse_task(C, ...)] —
    # whatever the loop / comprehension / helper that builds it looks like
    sub_in = [{"operation": "zz-first"}, {"operation": "mm-second"}, {"operation": "aa-third"}]
    got = handed_value(pp, pr_[0], prb.get("tasks"), {"tasks": sub_in}, "O10.2", "the sub-task list handed to Parallel(...)", {pt.name, pp.name})
    if isinstance(got, _Sig):
        chk.ob("O10.2", "sub-tasks kept in file order", False, pr_[0], f"for a valid parallel element with three tasks the statements that build the sub-task list end in a Python error: {got.value}")
    elif got is not None:
        els = parsed_elements(got, pt)
        if els is None and not mentions(got, [_freeze(x) for x in sub_in]):
            chk.ob("O10.2", "sub-tasks kept in file order", False, pr_[0], f"what is handed to Parallel(tasks=...) does not depend on the 'tasks' written in the file: {str(got)[:100]}")
        elif els is None:
            chk.unknown("O10.2", f"the sub-task list handed to Parallel(...) is not a list of parse_task(...) results: {str(got)[:120]}", pr_[0])
        else:
            want = [("parse_task", _freeze(x)) for x in sub_in]
            chk.ob("O10.2", "sub-tasks kept in file order", els == want, pr_[0],
                   "" if els == want else f"for tasks [A, B, C] the parallel element gets {[('ABC?'[[w[1] for w in want].index(e_[1])] if e_[1] in [w[1] for w in want] else '?') for e_ in els]}")
    cc = method(ldr, SR, "_create_challenges")
    # role: the schedule is whatever is handed to track.Challenge(schedule=...). Decided on values as well: for a challenge whose 'schedule' is [T1, {"parallel": P}, T2] the
    # statements that compute it (in _create_challenges and in the helpers of the class it calls) must yield [parse_task(T1, ...), parse_parallel(P, ...), parse_task(T2, ...)]
    chctor = [c for c in source.calls_in(cc) if dotted(c.func) == "track.Challenge"]
    if not chctor:
        raise AnchorMissing("track.Challenge(...) in _create_challenges")
    chb = bind_args(chctor[0], method(trk, trk.cls("Challenge"), "__init__"))
    if chb.get("schedule") is None:
        raise AnchorMissing("the schedule argument of track.Challenge(...) in _create_challenges")
    sched_local = name_of(chb.get("schedule"))
    par_el = Opaque("input", "the value of 'parallel'")
    sched_in = [{"operation": "zz-first"}, {"parallel": par_el}, {"operation": "aa-last"}]
    got = handed_value(cc, chctor[0], chb.get("schedule"), {"schedule": sched_in}, "O10.2", "the schedule handed to Challenge(...)", {pt.name, pp.name})
    if isinstance(got, _Sig):
        chk.ob("O10.2", "schedule kept in file order", False, chctor[0], f"for the valid schedule [T1, parallel, T2] the statements that build the schedule end in a Python error: {got.value}")
    elif got is not None:
        els = parsed_elements(got, pt, pp)
        if els is None and not mentions(got, [_freeze(x) for x in sched_in] + [par_el]):
            chk.ob("O10.2", "schedule kept in file order", False, chctor[0], f"what is handed to Challenge(schedule=...) does not depend on the 'schedule' written in the file: {str(got)[:100]}")
        elif els is None:
            chk.unknown("O10.2", f"the schedule handed to Challenge(...) is not a list of parse_task(...) / parse_parallel(...) results: {str(got)[:120]}", chctor[0])
        else:
            want = [("parse_task", _freeze(sched_in[0])), ("parse_parallel", par_el), ("parse_task", _freeze(sched_in[2]))]
            alt = [("parse_task", _freeze(sched_in[0])), ("parse_parallel", _freeze(sched_in[1])), ("parse_task", _freeze(sched_in[2]))]
            specs, wspecs = [e_[1] for e_ in els], [w[1] for w in want]
            in_order = specs == wspecs or specs == [w[1] for w in alt]
            chk.ob("O10.2", "schedule kept in file order", in_order, chctor[0],
                   "" if in_order else f"for the schedule [T1, parallel, T2] the challenge gets {len(els)} element(s) in the order {[('T1', 'parallel', 'T2')[wspecs.index(x)] if x in wspecs else '?' for x in specs]}")
            ok = els == want or (not in_order and sorted(map(repr, els)) == sorted(map(repr, want)))
            chk.ob("O10.2", "parallel elements and plain tasks dispatched on the 'parallel' key", ok, chctor[0],
                   "" if ok else f"for the schedule [T1, parallel, T2]: {[(m_, ('T1', 'P', 'T2')[wspecs.index(x)] if x in wspecs else ('the whole element' if x in [a_[1] for a_ in alt] else '?')) for m_, x in els]}")
    # documents
    cr = method(ldr, SR, "_create_corpora")
    dctor = [c for c in source.calls_in(cr) if dotted(c.func) == "track.Documents"]
    if not dctor:
        raise AnchorMissing("track.Documents(...) in _create_corpora")
    DC = trk.cls("Documents")
    DI = method(trk, DC, "__init__")
    d_params = params_of(DI)[1:]
    for param in list(DOC_KEYS.values()) + ["document_file", "document_archive"]:
        if param not in d_params:
            raise AnchorMissing(f"Documents.__init__ has no parameter `{param}`")
    if len(params_of(cr)) < 4:
        raise AnchorMissing("_create_corpora(self, <corpora>, <indices>, <data streams>)")
    # constants of the model classes the loader compares values with (track.Documents.SOURCE_FORMAT_BULK): extracted literals
    track_consts = {f"track.{c_.name}.{st_.targets[0].id}": st_.value.value for c_ in trk.classes() for st_ in c_.body
                    if isinstance(st_, ast.Assign) and len(st_.targets) == 1 and isinstance(st_.targets[0], ast.Name) and isinstance(st_.value, ast.Constant)}
    bulk = track_consts.get("track.Documents.SOURCE_FORMAT_BULK", "bulk")

    def is_doc_ctor(e):
        return last_attr(e.func) == DC.name and (dotted(e.func) or "").split(".")[0] in ("track", DC.name)

    def documents_for(corpus_extra, doc_extra, archive=True, indices=(), data_streams=()):
        """what Documents(...) is called with for the only document set of the only corpus (the given keys written on the corpus / on the document set)."""
        src = "docs-marker.json.bz2" if archive else "docs-marker.json"
        doc = {"source-file": src, "document-count": 1001, **doc_extra}
        corpus = {"name": "corpus-1", **corpus_extra, "documents": [doc]}
        env = call_env(cr, {params_of(cr)[1]: [corpus], params_of(cr)[2]: list(indices), params_of(cr)[3]: list(data_streams)})
        return capture(cr, env, is_doc_ctor, d_params, observe_all - {cr.name}, oracle={"is_archive": archive}, consts=track_consts)

    d_defaults = call_env(DI, {})
    dmark = {"base-url": "http://doc-level-base-url", "source-format": bulk, "document-count": 1001, "compressed-bytes": 1002, "uncompressed-bytes": 1003, "target-index": "doc-level-index",
             "target-type": "doc-level-type", "target-data-stream": "doc-level-stream", "meta": {"meta-key": "doc-level-meta"}, "includes-action-and-meta-data": True}
    cmark = {"base-url": "http://corpus-level-base-url", "source-format": bulk, "target-index": "corpus-level-index", "target-type": "corpus-level-type",
             "target-data-stream": "corpus-level-stream", "includes-action-and-meta-data": True}
    # every one of these corpora is valid by docs/track.rst (a track without indices / data-streams sections of its own, e.g. one that only defines templates): a run that
    # ends in a rejection before Documents(...) is reached falsifies what depends on it
    plans = {
        # document set that writes everything an index-targeting set may write / a data-stream-targeting one / one whose file carries its own action lines
        "doc-index": (({}, {k_: v_ for k_, v_ in dmark.items() if k_ not in ("target-data-stream", "includes-action-and-meta-data")}), {}),
        "doc-stream": (({}, {"target-data-stream": dmark["target-data-stream"]}), {}),
        "doc-meta-lines": (({}, {"includes-action-and-meta-data": True}), {}),
        # the same on the corpus, the document set writing only what is mandatory
        "corpus-index": (({k_: v_ for k_, v_ in cmark.items() if k_ not in ("target-data-stream", "includes-action-and-meta-data")}, {}), {}),
        "corpus-stream": (({"target-data-stream": cmark["target-data-stream"]}, {}), {}),
        "corpus-meta-lines": (({"includes-action-and-meta-data": True}, {}), {}),
        "plain-file": (({}, {"target-index": dmark["target-index"]}), {"archive": False}),
    }
    runs, rejected = {}, {}
    for r_, (a_, kw_) in plans.items():
        try:
            runs[r_] = documents_for(*a_, **kw_)
        except Rejected as e:
            runs[r_], rejected[r_] = {}, f"the valid corpus of run '{r_}' is rejected ({e.kind} at line {getattr(e.node, 'lineno', '?')})"
        except CannotEval as e:
            raise AnchorMissing(f"_create_corpora cannot be interpreted on a representative corpus up to Documents(...): {e}")

    def reaches(run_, param, value):
        return run_ not in rejected and same(runs[run_].get(param, d_defaults.get(param)), value)

    for key, param in DOC_KEYS.items():
        doc_run = {"target-data-stream": "doc-stream", "includes-action-and-meta-data": "doc-meta-lines"}.get(key, "doc-index")
        wrong = []
        if doc_run in rejected:
            wrong.append(rejected[doc_run])
        elif not reaches(doc_run, param, dmark[key]):
            v = runs[doc_run].get(param, d_defaults.get(param))
            other = [k_ for k_, m_ in dmark.items() if same(v, m_) and k_ != key]
            wrong.append(f"written on the document set: Documents({param}=...) gets {v!r}" + (f", the value of '{other[0]}'" if other else ""))
        if key in cmark and key != "source-format":
            c_run = {"target-data-stream": "corpus-stream", "includes-action-and-meta-data": "corpus-meta-lines"}.get(key, "corpus-index")
            if c_run in rejected:
                wrong.append(rejected[c_run])
            elif not reaches(c_run, param, cmark[key]):
                wrong.append(f"written on the corpus only: Documents({param}=...) gets {runs[c_run].get(param, d_defaults.get(param))!r}")
        chk.ob("O10.2", f"document key '{key}' -> Documents({param}=...)", not wrong, dctor[0], "; ".join(wrong)[:300], key=f"{_L}:_create_corpora:key:{key}")
    arch, plain = runs["doc-index"], runs["plain-file"]
    ok = "doc-index" not in rejected and "plain-file" not in rejected and same(arch.get("document_archive"), "docs-marker.json.bz2") and mentions(arch.get("document_file"), ["docs-marker.json.bz2"]) and not same(arch.get("document_file"), "docs-marker.json.bz2") \
        and same(plain.get("document_file"), "docs-marker.json") and plain.get("document_archive", d_defaults.get("document_archive")) is None
    chk.ob("O10.2", "source-file -> document file / archive", ok, dctor[0],
           "" if ok else f"archive: file={arch.get('document_file')!r} archive={arch.get('document_archive')!r}; plain file: file={plain.get('document_file')!r} archive={plain.get('document_archive')!r}"[:300])
    # every document set is loaded from ITS OWN specification and the defaults of ITS corpus: what Documents(...) gets for a document set does not depend on the document sets
    # written before it in the same corpus, nor on the corpora written before its corpus (no value carried from one iteration of the loops to the next). Decided on VALUES:
    # _create_corpora is interpreted as a whole on two corpora with several document sets (the first ones overriding every key that has a corpus-level default, the later ones
    # writing only what is mandatory) and every Documents(...) call is compared, parameter by parameter, with the call of the run in which that document set is the only one
    # of the only corpus (same corpus-level keys).
    def all_documents(corpora):
        env = call_env(cr, {params_of(cr)[1]: corpora, params_of(cr)[2]: [], params_of(cr)[3]: []})
        # (the corpus and its document sets are objects built by their own constructors, so that code which looks at the corpora built so far is interpreted as well)
        dco_ = trk.cls("DocumentCorpus")
        base = modelled(loader_hook(observe=observe_all - {cr.name}, oracle={"is_archive": True}), [(dco_, method(trk, dco_, "__init__")), (DC, DI)])
        seen = []

        def hook(e, env_, sim):
            if is_doc_ctor(e):
                args_, kwargs_ = sim.arguments(e, env_)
                vals = dict(zip(d_params, args_))
                vals.update(kwargs_)
                seen.append(vals)
            return base(e, env_, sim)

        kind, _, node = simulate(cr.body, env, None, hook, consts=track_consts)
        return kind, node, seen

    def doc_set(i, **extra):
        return {"source-file": f"docs-{i}.json.bz2", "document-count": 1000 + i, "target-index": f"own-index-{i}", **extra}

    sib_corpora = [
        {"name": "corpus-1", "base-url": "http://corpus-1-base-url", "target-index": "corpus-1-index", "target-type": "corpus-1-type", "documents": [
            doc_set(1, **{"base-url": "http://doc-1-base-url", "target-type": "doc-1-type", "compressed-bytes": 11, "uncompressed-bytes": 12, "meta": {"k": "doc-1-meta"}}),
            {k_: v_ for k_, v_ in doc_set(2).items() if k_ != "target-index"},
            doc_set(3, **{"includes-action-and-meta-data": True}),
            {k_: v_ for k_, v_ in doc_set(4).items() if k_ != "target-index"}]},
        {"name": "corpus-2", "documents": [doc_set(5), doc_set(6, **{"base-url": "http://doc-6-base-url", "source-format": bulk}), doc_set(7)]},
        {"name": "corpus-3", "includes-action-and-meta-data": True, "documents": [doc_set(8, **{"includes-action-and-meta-data": False}), {"source-file": "docs-9.json.bz2", "document-count": 1009}]},
        {"name": "corpus-4", "documents": [doc_set(10)]},
    ]
    try:
        kind_all, node_all, seen_all = all_documents(sib_corpora)
        solo = {}
        for c_ in sib_corpora:
            for d_ in c_["documents"]:
                k1, n1, s1 = all_documents([{**c_, "documents": [d_]}])
                if k1 != "return" or len(s1) != 1:
                    raise CannotEval(f"a corpus with the single document set {d_['source-file']} ends in `{k1}` at line {getattr(n1, 'lineno', '?')} with {len(s1)} Documents(...) call(s)")
                solo[d_["source-file"]] = s1[0]
        if kind_all not in ("return", "raise", "error"):
            raise CannotEval(f"ends in `{kind_all}` at line {getattr(node_all, 'lineno', '?')}")
        by_file = {}
        for vals in seen_all:
            owner = [f_ for f_ in solo if same(vals.get("document_archive"), f_) or same(vals.get("document_file"), f_)]
            if len(owner) != 1 or owner[0] in by_file:
                raise CannotEval("the Documents(...) calls cannot be related to the document sets by their source file")
            by_file[owner[0]] = vals
        for key, param in DOC_KEYS.items():
            wrong = []
            if kind_all != "return":
                wrong.append(f"four valid corpora (each document set is accepted on its own) are rejected together: `{kind_all}` at line {getattr(node_all, 'lineno', '?')}")
            for f_, alone in solo.items():
                if wrong:
                    break
                if f_ not in by_file:
                    wrong.append(f"no Documents(...) for {f_}")
                    continue
                a_, b_ = alone.get(param, d_defaults.get(param)), by_file[f_].get(param, d_defaults.get(param))
                if not (same(a_, b_) or (a_ is None and b_ is None)):
                    wrong.append(f"{f_}: {param}={b_!r} after its siblings, {a_!r} when it is the only document set of its corpus")
            chk.ob("O10.2", f"document key '{key}': what a document set is loaded with does not depend on the document sets / corpora written before it", not wrong, dctor[0],
                   "; ".join(wrong)[:300] + (" — a value is carried from one document set (or corpus) to the next" if wrong else ""), key=f"{_L}:_create_corpora:sibling-independence:{key}")
    except CannotEval as e:
        chk.unknown("O10.2", f"_create_corpora cannot be interpreted on corpora with several document sets: {e}", dctor[0])

    # Documents.__init__ interpreted on marker arguments: the attribute of that name (or its private twin behind a property) holds the argument
    try:
        obj = Record()
        amark = {p_: f"arg-{p_}" for p_ in d_params}
        kind, _, node = simulate(DI.body, {params_of(DI)[0]: obj, **amark})
        if kind not in ("fallthrough", "return"):
            raise CannotEval(f"ends in `{kind}` at line {getattr(node, 'lineno', '?')}")
        for param in DOC_KEYS.values():
            if param == "meta_data":
                continue
            holders = [a_ for a_, v_ in obj.fields.items() if same(v_, amark[param])]
            chk.ob("O10.2", f"Documents.{param} stores its parameter", any(a_ in (param, "_" + param) for a_ in holders), DI, f"stored in {['self.' + a_ for a_ in holders] or 'no attribute'}",
                   key=f"{_T}:Documents.__init__:{param}")
    except CannotEval as e:
        chk.unknown("O10.2", f"Documents.__init__ cannot be interpreted on marker arguments: {e}", DI)

    # the corpus-level defaults target-index / target-data-stream / target-type are "exactly those written in the file" whatever the track's OWN indices / data-streams sections
    # contain (a track whose indices come from templates has none), and a default invented from the FIRST element of a collection is only sound when the collection has exactly
    # one element (otherwise the key stays mandatory downstream). Both decided on VALUES: the statements that run before the document loop are sliced to those that decide the
    # local the document-level read falls back to and interpreted for len(indices), len(data_streams) in {0, 1, 2} (and 0..2 types of the first index), once for a corpus that
    # writes the key and once for one that does not; nothing is read off the if/elif shape, the spelling of the tests or the place where the default is computed.
    # roles: the document loop iterates over self._r(<corpus spec>, "documents"); a document-level read is self._r(<its loop variable>, KEY, default_value=<corpus-level local>)
    doc_loops = [a for a in source.ancestors(dctor[0]) if isinstance(a, ast.For) and isinstance(a.iter, ast.Call) and r_key(a.iter)[0] == "documents"]
    if not doc_loops or name_of(doc_loops[0].target) is None:
        raise AnchorMissing("loop over self._r(<corpus spec>, 'documents') around track.Documents(...) in _create_corpora")
    doc_loop = doc_loops[0]
    corpus_var, doc_var = r_root(doc_loop.iter), doc_loop.target.id
    corpus_loop = next((a for a in source.ancestors(doc_loop) if isinstance(a, ast.For) and name_of(a.target) == corpus_var), None)
    if corpus_loop is None or len(params_of(cr)) < 4:
        raise AnchorMissing("loop over the corpus specifications around the document loop / _create_corpora(self, <corpora>, <indices>, <data streams>)")
    p_idx, p_ds = params_of(cr)[2], params_of(cr)[3]
    before_docs = statements_before(corpus_loop, cr) + statements_before(doc_loop, cr)
    written = "written-on-the-corpus"
    for key in ("target-index", "target-data-stream", "target-type"):
        reads = [c for c in ast.walk(doc_loop) if isinstance(c, ast.Call) and r_key(c)[0] == key and r_root(c) == doc_var]
        fallbacks = {name_of(bind_args(c, reader).get(rd_default)) for c in reads}
        if len(fallbacks) != 1 or None in fallbacks:
            raise AnchorMissing(f"document-level read self._r({doc_var}, '{key}', default_value=<corpus-level local>) in _create_corpora (found fall-backs {sorted(map(str, fallbacks))})")
        level_local = fallbacks.pop()
        keep = set()
        slice_before(before_docs, {level_local}, keep, inputs=(p_idx, p_ds, corpus_var))
        if not keep:
            raise AnchorMissing(f"assignment of the corpus-level local `{level_local}` before the document loop of _create_corpora")
        last_kept = [s_ for s_ in before_docs if id(s_) in keep][-1]

        def level_value(ni, nd, nt, has_key):
            env = {p_idx: [Record(name=f"index-{j}", types=[f"type-{k_}" for k_ in range(nt)]) for j in range(ni)], p_ds: [Record(name=f"stream-{j}") for j in range(nd)],
                   corpus_var: {"name": "corpus-1", **({key: written} if has_key else {})}}
            kind, _, node = simulate(before_docs, env, keep, hook=loader_hook(observe=roles))
            if kind != "fallthrough":
                return f"<{kind} at line {getattr(node, 'lineno', '?')}>"
            if level_local not in env:
                raise CannotEval(f"`{level_local}` is not bound on this path")
            return env[level_local]

        for ni, nd in ((0, 0), (0, 1), (0, 2), (1, 0), (2, 0)):  # both sections at once is rejected before (O10.5)
            lost, invented = [], []
            try:
                for nt in ((0, 1, 2) if ni else (0,)):
                    v = level_value(ni, nd, nt, True)
                    if v != written:
                        lost.append(f"{nt} type(s): {level_local} = {v!r}")
                    v = level_value(ni, nd, nt, False)
                    allowed = [None] + (["index-0"] if ni == 1 else []) + (["stream-0"] if nd == 1 else []) + (["type-0"] if ni == 1 and nt == 1 else [])
                    if not any(v is a_ or (a_ is not None and v == a_) for a_ in allowed):
                        invented.append(f"{nt} type(s): {level_local} = {v!r}")
            except CannotEval as e:
                chk.unknown("O10.2", f"the statements that decide `{level_local}` in _create_corpora cannot be interpreted for {ni} index(es) / {nd} data stream(s): {e}", last_kept)
                break
            chk.ob("O10.2", f"corpus-level '{key}' is read from the corpus specification when the track defines {ni} index(es) and {nd} data stream(s)", not lost, last_kept,
                   "" if not lost else f"{'; '.join(lost)} — the value written on the corpus is dropped: documents without their own '{key}' lose it (or the track is rejected as having no target)",
                   key=f"{_L}:TrackSpecificationReader._create_corpora:corpus-level-default:{key}:indices={ni}:data-streams={nd}")
            chk.ob("O10.2", f"corpus-level '{key}' that is not written falls back to the track's ONLY index / data stream / type, to nothing when there are {ni} index(es) and {nd} data stream(s)",
                   not invented, last_kept,
                   "" if not invented else f"{'; '.join(invented)} — with none or several elements a missing mandatory target is silently replaced by the first one (or the loader ends in a Python error)",
                   key=f"{_L}:_create_corpora:first-element-default:{key}:indices={ni}:data-streams={nd}")

    # ---- O10.3 error helper -----------------------------------------------------------------------------------------------------------------------------------
    chk.rule("O10.3", "the error helper raises a track syntax error on every path", 1, "a detected rule violation is only logged and the invalid track is loaded")
    ef = method(ldr, SR, "_error")
    ef_normal, ef_classes = raised_classes(ef)
    # a syntax error of the track: the class itself or a class of the loader module derived from it
    syntax_errors = {"TrackSyntaxError"} | {c_.name for c_ in ldr.classes() if any(last_attr(b_) == "TrackSyntaxError" for b_ in c_.bases)}
    if None in ef_classes and not (ef_classes & syntax_errors and not ef_normal):
        chk.unknown("O10.3", f"the exception class the error helper raises (or the function it hands the message to) is not recognised: {short(stmts_of(ef.body)[-1], 60) if stmts_of(ef.body) else ''}", ef)
    else:
        ok = not ef_normal and bool(ef_classes) and ef_classes - {None} <= syntax_errors
        chk.ob("O10.3", "_error has no normal exit", ok, ef, f"{'a normal exit is reachable; ' if ef_normal else ''}raises {sorted(c_ for c_ in ef_classes if c_)}")

    # ---- O10.4 validation dominates construction -----------------------------------------------------------------------------------------------------------------
    chk.rule("O10.4", "schema validation and the version window check dominate the call that builds the track; their failures are re-raised as errors; the schema constrains a key "
             "identically wherever it may be written, and its operations block accepts every value docs/track.rst documents for an operation parameter (tiny instances validated against the "
             "extracted item schema)", 4,
             "a track violating the schema (or of an unsupported version) is loaded")
    rd = method(ldr, FR, "read")
    fr_methods = ldr.methods(FR)
    # roles: the schema is the attribute that the constructor fills by parsing track-schema.json; the builder is the attribute it fills with a TrackSpecificationReader; the
    # specification is what json.loads makes of the rendered text
    sch = method(ldr, FR, "__init__")
    schema_attrs = {n.targets[0].attr for n in walk_body(sch) if isinstance(n, ast.Assign) and len(n.targets) == 1 and is_self_attr(n.targets[0]) and "json.load" in u(n.value)}
    builder_attrs = {n.targets[0].attr for n in walk_body(sch) if isinstance(n, ast.Assign) and len(n.targets) == 1 and is_self_attr(n.targets[0]) and isinstance(n.value, ast.Call)
                     and last_attr(n.value.func) == SR.name}
    if len(schema_attrs) != 1 or len(builder_attrs) != 1:
        raise AnchorMissing(f"TrackFileReader.__init__: the schema attribute (filled from parsed JSON: {sorted(schema_attrs)}) / the builder attribute (a {SR.name}: {sorted(builder_attrs)})")
    schema_attr, builder_attr = next(iter(schema_attrs)), next(iter(builder_attrs))
    cvals = {st_.targets[0].id: st_.value.value for st_ in FR.body if isinstance(st_, ast.Assign) and len(st_.targets) == 1 and isinstance(st_.targets[0], ast.Name)
             and isinstance(st_.value, ast.Constant) and isinstance(st_.value.value, int) and not isinstance(st_.value.value, bool)}
    lo_, hi_ = cvals.get("MINIMUM_SUPPORTED_TRACK_VERSION"), cvals.get("MAXIMUM_SUPPORTED_TRACK_VERSION")
    if lo_ is None or hi_ is None or lo_ > hi_:
        raise AnchorMissing("supported track version bounds (class constants of TrackFileReader)")
    fr_consts = {f"{FR.name}.{k_}": v_ for k_, v_ in cvals.items()}

    # Decided on VALUES: TrackFileReader.read is interpreted as a whole (its helpers entered) on one representative specification per row; Jinja, json.loads, jsonschema and the
    # accounting object answer what the row says. Observed: whether / in which order validate(...) and the builder are called and with what, and how the run ends.
    def read_run(spec, valid=True, reserved=(), unused=()):
        log = []
        built = Opaque("input", "the track that the builder returns")

        def hook(e, env_, sim):
            f = e.func
            la = last_attr(f)
            d = dotted(f) or ""
            if d == "json.loads":
                return spec
            if la == "validate" and (d.startswith("jsonschema") or isinstance(f, ast.Attribute)):  # jsonschema.validate(spec, schema) or <a validator object>.validate(spec)
                args = [sim.ev(a, env_) for a in e.args] + [sim.ev(k.value, env_) for k in e.keywords]
                log.append(("validate", args))
                if not valid:
                    raise _Sig("raise", None, e, "ValidationError")
                return None
            if isinstance(f, ast.Attribute) and isinstance(f.value, ast.Name) and f.value.id == "self":
                if f.attr == builder_attr:
                    log.append(("build", [sim.ev(a, env_) for a in e.args] + [sim.ev(k.value, env_) for k in e.keywords]))
                    return built
                if f.attr in fr_methods and f.attr != rd.name:
                    return sim.invoke(fr_methods[f.attr], e, env_, extra={"self": env_["self"]})
            if la == iu.name:
                return list(reserved)
            if la == un.name:
                return list(unused)
            return NotImplemented

        env = call_env(rd, {params_of(rd)[0]: SelfObj(), **{p_: f"<{p_}>" for p_ in params_of(rd)[1:]}})
        kind, val, node = simulate(rd.body, env, None, hook, consts=fr_consts)
        return kind, val, node, log, built

    def order_ok(log, spec):
        """validate(spec, self.<schema>) was called, and before the builder was called with the same specification."""
        kinds = [k_ for k_, _ in log]
        if kinds != ["validate", "build"]:
            return False
        v_args, b_args = log[0][1], log[1][1]
        return len(v_args) >= 1 and v_args[0] is spec and (len(v_args) < 2 or v_args[1] == Opaque("attr", Opaque("free", "self"), schema_attr)) and any(a_ is spec for a_ in b_args)

    CT = ldr.cls("CompleteTrackParams")
    un = method(ldr, CT, "unused_user_defined_track_params")
    iu = method(ldr, CT, "internal_user_defined_track_params")
    try:
        good = {"version": lo_, "challenges": []}
        runs_r = {
            "valid": (good, read_run(good)), "valid, highest version": ((s_ := {"version": hi_}), read_run(s_)), "no version": ((s_ := {"challenges": []}), read_run(s_)),
            "version below the minimum": ((s_ := {"version": lo_ - 1}), read_run(s_)), "version above the maximum": ((s_ := {"version": hi_ + 1}), read_run(s_)),
            "version null": ((s_ := {"version": None}), read_run(s_)), "version a list": ((s_ := {"version": [lo_]}), read_run(s_)), "version not numeric": ((s_ := {"version": "two"}), read_run(s_)),
            "top level is a list": ((s_ := ["not", "an", "object"]), read_run(s_, valid=False)), "schema violated": ((s_ := {"version": lo_, "bogus": 1}), read_run(s_, valid=False)),
            "reserved parameter": ((s_ := dict(good)), read_run(s_, reserved=["now"])), "unused parameter": ((s_ := dict(good)), read_run(s_, unused=["no_such_param"])),
        }
        read_site = rd

        def ends(r_):
            k_, v_, n_, _, _ = runs_r[r_][1]
            return f"{r_}: {k_}" + (f" {v_}" if k_ in ("raise", "error") else "") + (f" at line {n_.lineno}" if n_ is not None and hasattr(n_, "lineno") else "")

        for r_, (spec_, (k_, v_, n_, log_, built_)) in runs_r.items():
            if k_ not in ("raise", "error", "return"):
                raise CannotEval(f"run `{r_}` ends in `{k_}`")
        accepted = [r_ for r_ in ("valid", "valid, highest version", "no version")]
        if not any(x[0] == "validate" for r_ in runs_r for x in runs_r[r_][1][3]) and not any(last_attr(c.func) == "validate" for f_ in fr_methods.values() for c in source.calls_in(f_)):
            raise CannotEval("no call of jsonschema.validate(...) / <validator>.validate(...) is reached on any specification: how the schema is applied is not recognised")
        ok = all(runs_r[r_][1][0] == "return" and order_ok(runs_r[r_][1][3], runs_r[r_][0]) for r_ in accepted) \
            and all("build" not in [x[0] for x in runs_r[r_][1][3]] for r_ in ("schema violated", "top level is a list"))
        chk.ob("O10.4", "jsonschema.validate(track_spec, schema) dominates construction of the same spec", ok, read_site,
               "; ".join(f"{r_}: calls {[(x[0]) for x in runs_r[r_][1][3]]}, ends in {runs_r[r_][1][0]}" for r_ in accepted + ["schema violated"])[:300])
        bad = [ends(r_) for r_ in ("schema violated", "top level is a list") if not (runs_r[r_][1][0] == "raise" and runs_r[r_][1][1] == "TrackSyntaxError")]
        chk.ob("O10.4", "validation errors re-raised as track syntax errors", not bad, read_site, "; ".join(bad)[:300])
        rows = {"version below the minimum": True, "version above the maximum": True, "valid": False, "valid, highest version": False}
        bad = [ends(r_) for r_, must in rows.items() if (runs_r[r_][1][0] == "raise") != must or (must and runs_r[r_][1][3])]
        chk.ob("O10.4", "version window check (below minimum / above maximum raise) dominates construction", not bad, read_site,
               f"supported versions {lo_}..{hi_}; " + ("rejected before validation: " + str([lo_ - 1, hi_ + 1]) if not bad else "; ".join(bad))[:300])
        bad = [ends(r_) for r_ in ("version null", "version a list", "version not numeric") if runs_r[r_][1][0] != "raise" or runs_r[r_][1][1] in ("TypeError", "ValueError", "AttributeError", "KeyError")]
        chk.ob("O10.4", "conversion of the not-yet-validated version value cannot escape as a Python error", not bad, read_site,
               "" if not bad else "; ".join(bad) + " — `\"version\": null` (or a list / text) ends in a Python error instead of a track syntax error", key=f"{_L}:TrackFileReader.read:version-conversion-guarded")
        k_, v_, n_, log_, _ = runs_r["top level is a list"][1]
        ok = k_ == "raise" and "validate" in [x[0] for x in log_]
        chk.ob("O10.4", "the not-yet-validated specification is only subscripted as an object after an isinstance(dict) test", ok, read_site,
               "" if ok else ends("top level is a list") + " — a specification that is no JSON object must reach the schema validation, not a Python error",
               key=f"{_L}:TrackFileReader.read:version-read-guarded")
        chk.ob("O10.4", "pre-validation version read located", True, read_site, f"{len(runs_r)} specifications interpreted")
        read_runs = runs_r
    except CannotEval as e:
        chk.unknown("O10.4", f"TrackFileReader.read cannot be interpreted on a representative specification: {e}", rd)
        read_runs = None
    # which file: the *.json file names written in the constructor, or in the helpers of the class / functions of the module it calls (named constants are already literals, N9)
    def json_names(f_):
        return {c.value.replace("\\", "/").split("/")[-1] for c in ast.walk(f_) if isinstance(c, ast.Constant) and isinstance(c.value, str) and c.value.endswith(".json")}

    called = [fr_methods[c.func.attr] for c in source.calls_in(sch) if isinstance(c.func, ast.Attribute) and isinstance(c.func.value, ast.Name) and c.func.value.id == "self" and c.func.attr in fr_methods] + \
             [ldr_funcs[c.func.id] for c in source.calls_in(sch) if isinstance(c.func, ast.Name) and c.func.id in ldr_funcs]
    schema_files = json_names(sch) | set().union(*[json_names(f_) for f_ in called] or [set()])
    if not schema_files:
        chk.unknown("O10.4", "the name of the schema file that TrackFileReader.__init__ parses is not written in the constructor or in a helper it calls", sch)
    else:
        chk.ob("O10.4", "the schema is Rally's track-schema.json", "track-schema.json" in schema_files, sch, f"schema attribute(s) filled from parsed JSON: {sorted(schema_attrs)}; file(s) named: {sorted(schema_files)}")
    # sibling cross-check inside the schema: a task key is constrained identically wherever it may be written (plain task, parallel element, task inside a parallel element;
    # corpus level and document level)
    import json as _json

    try:
        sj = _json.loads(repo.text(_S))
        items = sj["definitions"]["schedule"]["items"]["properties"]
        par = items["parallel"]["properties"]
        sub = par["tasks"]["items"]["properties"]
        corp = sj["properties"]["corpora"]["items"]["properties"]
        docs_ = corp["documents"]["items"]["properties"]
    except (KeyError, ValueError, TypeError) as e:
        raise AnchorMissing(f"task / parallel / corpus definitions in track-schema.json ({type(e).__name__}: {e})")

    def _strip(o):
        if isinstance(o, dict):
            return {k_: _strip(v_) for k_, v_ in o.items() if k_ != "description"}
        if isinstance(o, list):
            return [_strip(x_) for x_ in o]
        return o

    n_sib = 0
    for group, copies in (("task", (("plain task", items), ("parallel element", par), ("task in parallel", sub))), ("corpus", (("corpus", corp), ("document set", docs_)))):
        for k_ in sorted(set().union(*[set(d_) for _, d_ in copies])):
            if k_ in ("parallel", "tasks", "documents"):
                continue
            have = [(nm, _json.dumps(_strip(d_[k_]), sort_keys=True)) for nm, d_ in copies if k_ in d_]
            if len(have) < 2:
                continue
            n_sib += 1
            ok = len({v_ for _, v_ in have}) == 1
            chk.ob("O10.4", f"schema: '{k_}' is constrained identically in every place it may be written ({group})", ok, sch,
                   "" if ok else "; ".join(f"{nm}: {v_[:70]}" for nm, v_ in have) + " — a value rejected in one place is accepted in another", key=f"esrally/resources/track-schema.json:sibling:{group}:{k_}")
    chk.ob("O10.4", "schema sibling definitions located", n_sib >= 14, sch, f"{n_sib} shared key(s)")
    # WHICH JSON-schema dialect decides "violates the schema": two sites cooperate - the `$schema` member of track-schema.json and the call the loader applies the schema with
    # (jsonschema.validate(spec, schema) selects the validator class from `$schema`; jsonschema.validate(..., cls=X) and X(schema).validate(spec) apply X whatever the file
    # declares). The dialects differ on values a track can hold: from draft-06 on "type": "integer" admits 8.0, in draft-03/04 it does not. Decided on VALUES: the validator the
    # loader ends up with (role resolution below; the class is looked up in the jsonschema package, which is used as an evaluator of the extracted constant schema as for the
    # operations block) validates tiny tracks that write an integer-typed key once as 7 and once as 7.0: the first must pass, the second must be rejected.
    _draft_cls = re.compile(r"^Draft(\d+)Validator$")

    def validator_role(f_, c):
        """("declared", None) / ("class", name) / None for the validate call c in f_: which validator class decides."""
        d = dotted(c.func) or ""
        if d in ("jsonschema.validate", "validate", "jsonschema.validators.validate"):
            cls_e = arg_of(c, 2, "cls")
            if cls_e is None:
                return ("declared", None)
            return ("class", last_attr(cls_e)) if _draft_cls.match(last_attr(cls_e) or "") else None
        if not isinstance(c.func, ast.Attribute):
            return None
        recv = c.func.value
        if is_self_attr(recv):
            vals = [n.value for m_ in fr_methods.values() for n in walk_body(m_) if isinstance(n, ast.Assign) and any(is_self_attr(t_) and t_.attr == recv.attr for t_ in n.targets)]
            recv = vals[0] if len(vals) == 1 else None
        elif isinstance(recv, ast.Name):
            recv = local_defs(f_).get(recv.id)
        if not isinstance(recv, ast.Call):
            return None
        if _draft_cls.match(last_attr(recv.func) or ""):
            return ("class", last_attr(recv.func))
        if isinstance(recv.func, ast.Call) and last_attr(recv.func.func) == "validator_for":
            return ("declared", None)
        return None

    val_sites = [(f_, c) for f_ in fr_methods.values() for c in source.calls_in(f_) if last_attr(c.func) == "validate"]
    int_places = (("task", items, lambda k_, v_: {"description": "d", "schedule": [{"operation": "op-1", k_: v_}]}),
                  ("parallel element", par, lambda k_, v_: {"description": "d", "schedule": [{"parallel": {k_: v_, "tasks": [{"operation": "op-1"}]}}]}),
                  ("document set", docs_, lambda k_, v_: {"description": "d", "corpora": [{"name": "c", "documents": [{"source-file": "f.json", k_: v_}]}]}))
    if len(val_sites) != 1:
        chk.unknown("O10.4", f"the dialect the schema is applied with: {len(val_sites)} validate(...) calls in {FR.name} (expected one)", rd)
    else:
        v_func, v_call = val_sites[0]
        role = validator_role(v_func, v_call)
        declared = sj.get("$schema")
        v_cls = why_not = None
        try:
            import jsonschema as _js
        except ImportError:
            _js = None
        if role is None:
            why_not = f"which validator class `{short(v_call, 60)}` applies is not recognised"
        elif _js is None:
            why_not = "the jsonschema package (used as the evaluator of the extracted schema) is not importable"
        elif role[0] == "class":
            v_cls, applied = getattr(_js, role[1], None), f"{role[1]} hard-wired in the loader; the file declares $schema {declared!r}"
            if v_cls is None:
                why_not = f"jsonschema has no class {role[1]}"
        else:
            v_cls, applied = _js.validators.validator_for(sj), f"selected from the $schema {declared!r} of the file"
        if why_not:
            chk.unknown("O10.4", f"the dialect the schema is applied with: {why_not}", v_call)
        else:
            validator = None
            for place, props, build in int_places:
                for k_ in sorted(props):
                    if not (isinstance(props[k_], dict) and props[k_].get("type") == "integer"):
                        continue
                    try:
                        validator = validator or v_cls(sj)
                        as_int, as_float = [next(iter(validator.iter_errors(build(k_, x_))), None) for x_ in (7, 7.0)]
                    except Exception as e:  # malformed schema: surfaces from inside the library
                        chk.unknown("O10.4", f"the schema cannot be applied to a tiny track ({type(e).__name__}: {e})"[:200], v_call)
                        continue
                    if as_int is not None:
                        chk.unknown("O10.4", f"a tiny track writing `\"{k_}\": 7` on a {place} is not accepted by the schema ({as_int.message[:80]}): no valid baseline for the dialect probe", v_call)
                        continue
                    chk.ob("O10.4", f"schema dialect: `\"{k_}\": 7.0` on a {place} (an integer-valued float where the schema demands an integer) is rejected by the validator the loader applies",
                           as_float is not None, v_call, f"validator: {applied}" + ("" if as_float is not None else f" — 7.0 passes as an integer: the track is loaded with a float {k_}"),
                           key=f"{_S}:dialect:{place}:{k_}")
    # the schema may only reject what the documentation rules out: an operation defined in the top-level `operations` block with a value docs/track.rst documents for that
    # operation type (and that the same operation written inline in the schedule — untyped there — loads with) must pass the block's item schema. The item schema is an extracted
    # constant; tiny instances {"name", "operation-type", KEY: VALUE} are validated against it (jsonschema if importable — the library the loader itself applies — else the local
    # draft-04 subset below). Nothing of the repository runs.
    try:
        op_items = sj["properties"]["operations"]["items"]
        if not isinstance(op_items, dict) or not isinstance(op_items.get("properties"), dict):
            raise KeyError("items.properties")
    except (KeyError, TypeError) as e:
        raise AnchorMissing(f"properties.operations.items of track-schema.json ({type(e).__name__}: {e})")
    op_schema = dict(op_items)
    for k_ in ("$schema", "definitions"):
        if k_ in sj:
            op_schema.setdefault(k_, sj[k_])
    accepts = schema_acceptor(op_schema)
    n_doc = 0
    for optype, k_, v_ in DOCUMENTED_OPERATION_VALUES:
        try:
            bare = accepts({"name": "op", "operation-type": optype})
            why = accepts({"name": "op", "operation-type": optype, k_: v_})
        except Unsupported as e:
            chk.unknown("O10.4", f"the item schema of the operations block uses a keyword this check does not interpret: {e}", sch)
            break
        n_doc += 1
        ok = bare is None and why is None
        chk.ob("O10.4", f"schema (operations block): the documented `\"{k_}\": {_json.dumps(v_)}` of a {optype} operation is accepted", ok, sch,
               "" if ok else f"{why or bare} — a valid, documented operation is rejected with a track syntax error when it is defined in the operations block (inline in the schedule it loads)",
               key=f"{_S}:operations-block:{optype}:{k_}:{_json.dumps(v_)}", why="a valid track that follows docs/track.rst is rejected with a track syntax error instead of being loaded")
    chk.ob("O10.4", "documented operation values validated against the operations block", n_doc == len(DOCUMENTED_OPERATION_VALUES), sch, f"{n_doc} value(s)")

    # ---- O10.5 documented rules ------------------------------------------------------------------------------------------------------------------------------------
    chk.rule("O10.5", "documented rules reject: duplicate task / challenge / operation / corpus names (dedupe idiom: membership test on the set/dict the same loop fills); none or several default "
             "challenges; iterations mixed with time periods and ramp-up without sufficient warm-up (decision table over 48 abstract tasks, of which the sixteen without a ramp-up are the value "
             "table {warmup-iterations, iterations} x {warmup-time-period, time-period}: ANY iteration field with ANY time-period field is rejected); ramp-up only on the parallel element; unknown or "
             "ambiguous completed-by; indices together with data streams; reserved and unused track parameters between building and returning the track", 50,
             "a specification violating that rule is loaded and run instead of being rejected")

    def closure(func, stop=(), depth=3):
        """func and the methods of the reader it (transitively) calls through self.<m>(...); the methods named in `stop` are not entered."""
        out, todo = [func], [(func, 0)]
        while todo:
            f, d = todo.pop()
            if d >= depth:
                continue
            for c in source.calls_in(f):
                if isinstance(c.func, ast.Attribute) and isinstance(c.func.value, ast.Name) and c.func.value.id == "self" and c.func.attr in sr_methods and c.func.attr not in stop:
                    m = sr_methods[c.func.attr]
                    if all(m is not x for x in out):
                        out.append(m)
                        todo.append((m, d + 1))
        return out

    def reject_sites(funcs, words):
        """the statements in funcs that reject (call of an error helper / raise) with a message mentioning all the words (the message may be built through one local)."""
        out = []
        for f in funcs:
            defs = local_defs(f)
            for n in walk_body(f):
                if isinstance(n, ast.Call) and isinstance(n.func, ast.Attribute) and isinstance(n.func.value, ast.Name) and n.func.value.id == "self" and n.func.attr in raising and n.args:
                    msgs = [n.args[0]]
                elif isinstance(n, ast.Call) and isinstance(n.func, ast.Name) and n.func.id in raising_funcs and n.args:
                    msgs = list(n.args)
                elif isinstance(n, ast.Raise) and n.exc is not None:
                    msgs = [n.exc]
                else:
                    continue
                text = " ".join(str(c.value) for msg in msgs for c in ast.walk(source.inline_node(msg, defs)) if isinstance(c, ast.Constant) and isinstance(c.value, str)).lower()
                if all(w in text for w in words):
                    out.append(n)
        return out

    def loop_verdict(site_stmt, L, loops, f, cases, expand=(), hook_of=None):
        """interprets the loop L (sliced to what decides whether site_stmt is reached) with what initialises its state, once per case (label, make_input, must_reject).
        -> [(label, must_reject, outcome kind)]; CannotEval if the slice cannot be interpreted."""
        from sa.cfg import guards as _guards
        keep = set()
        seeds = set()
        for t, _pol in _guards(site_stmt, stop=L, path_sensitive=True):
            seeds |= _loads(t)
        names = slice_inside(L, seeds, keep, must=[site_stmt])
        kill = {x.id for a in loops if a is L or any(p_ is L for p_ in source.ancestors(a)) for x in ast.walk(a.target) if isinstance(x, ast.Name)}
        it = L.iter
        inputs, override_id = set(), None
        pre = statements_before(L, f)
        # where the representative collection is supplied: as what the loop runs over (a name; a read of a key through the reader) or, when that is itself computed from something
        # (names collected first, duplicates counted first, enumerate(...)), as one of the names it is computed from — each such binding is one reading of "the collection of
        # specifications"
        if isinstance(it, ast.Name):
            inputs = {it.id}
            bindings = [inputs]
        elif isinstance(it, ast.Call) and isinstance(it.func, ast.Attribute) and is_self_attr(it.func):
            override_id = id(it)
            bindings = [inputs]
        else:
            inputs = {n_ for n_ in _loads(it) if n_ not in Sim().builtins and n_ not in ("collections", "itertools")}
            if not inputs:
                raise CannotEval(f"the collection the loop at line {L.lineno} runs over is not computed from a name: {short(it, 50)}")
            bindings = [{n_} for n_ in sorted(inputs)]
        if inputs and not override_id:
            frontier, seen_b = list(inputs), set(inputs)
            for _ in range(3):
                nxt = []
                for nm_ in frontier:
                    d_ = next((x for x in reversed(pre) if isinstance(x, ast.Assign) and nm_ in _defs(x)[0]), None)
                    for up in sorted(_loads(d_.value)) if d_ is not None else []:
                        if up not in seen_b and up not in Sim().builtins:
                            seen_b.add(up)
                            nxt.append(up)
                            bindings.append({up})
                frontier = nxt
        out, errors = [], []
        for bound in bindings:
            keep_b = set(keep)
            slice_before(pre, names - kill, keep_b, bound)
            rows = []
            try:
                for label, make, must in cases:
                    value = make()
                    hk_ = loader_hook(expand=set(expand), override={override_id: value} if override_id else None)
                    kind, _, node = simulate(pre + [L], {n: value for n in bound}, keep_b, hook=hook_of(hk_) if hook_of is not None else hk_, consts=track_consts if hook_of is not None else None)
                    if kind == "error":
                        raise CannotEval(f"on the collection `{label}` the interpretation ends in a Python error at line {getattr(node, 'lineno', '?')}")
                    rows.append((label, must, kind))
                out.append(rows)
            except CannotEval as e:
                errors.append(str(e))
        if not out:
            raise CannotEval("; ".join(errors)[:200])
        return out

    def dedupe(func, words, hint, cases, stop=(), whole=None, hook_of=None):
        """duplicate names are rejected — decided on VALUES: the loop around the rejecting site is interpreted on a collection without and with a repeated name (cases); it must
        run through on the former and reject on the latter, whatever container / membership idiom it uses (set + in, dict, setdefault, Counter, comparing lengths, ...).
        Where no loop around the site can be interpreted (no loop at all: the names are counted / compared by size first; a while loop; a flattened iteration), `whole(collection)`
        interprets the FUNCTION end to end on a specification built from the same collections (-> outcome kind).
        -> (site, loop or None, function) that was decided, or None."""
        fs = closure(func, stop)
        sites = reject_sites(fs, words)
        if not sites:
            chk.unknown("O10.5", f"no rejecting site for duplicate {hint} names located in {func.name} or the helpers it calls (message words {list(words)})", func)
            return None
        verdicts, errors = [], []
        for site in sites:
            st, f, expand = source.enclosing_stmt(site), source.enclosing_func(site), ()
            loops = [a for a in source.ancestors(st) if isinstance(a, ast.For) and source.enclosing_func(a) is f]
            if not loops:
                # the test sits in a helper that is called from inside the loop: decide the calling loop with that helper interpreted
                callers = [c for g_ in fs for c in source.calls_in(g_) if isinstance(c.func, ast.Attribute) and isinstance(c.func.value, ast.Name) and c.func.value.id == "self" and c.func.attr == f.name
                           and sr_methods.get(f.name) is f]
                if len(callers) != 1:
                    errors.append(f"the rejecting site at line {site.lineno} is not inside a loop")
                    continue
                expand = (f.name,)
                st, f = source.enclosing_stmt(callers[0]), source.enclosing_func(callers[0])
                loops = [a for a in source.ancestors(st) if isinstance(a, ast.For) and source.enclosing_func(a) is f]
            for L in reversed(loops):  # outermost first
                try:
                    for rows_ in loop_verdict(st, L, loops, f, cases, expand, hook_of):
                        verdicts.append((site, L, f, rows_))
                except CannotEval as e:
                    errors.append(f"loop at line {L.lineno}: {e}")
        if not verdicts and whole is not None:
            try:
                rows_ = []
                for label, make, must in cases:
                    kind = whole(make())
                    if kind not in ("raise", "return", "fallthrough"):
                        raise CannotEval(f"on the collection `{label}` the interpretation of {func.name} ends in `{kind}`")
                    rows_.append((label, must, kind))
                verdicts.append((sites[0], None, func, rows_))
            except CannotEval as e:
                errors.append(f"{func.name} as a whole: {e}")
        good = [v for v in verdicts if all((k_ == "raise") == must for _, must, k_ in v[3])]
        if not verdicts:
            chk.unknown("O10.5", f"the loop around the rejecting site for duplicate {hint} names cannot be interpreted on a representative collection: {'; '.join(errors)[:300]}", sites[0])
            return None
        site, L, f, rows = (good or verdicts)[0]
        wrong = [f"{label}: {'rejected' if k_ == 'raise' else 'accepted'} (must be {'rejected' if must else 'accepted'})" for label, must, k_ in rows if (k_ == "raise") != must]
        chk.ob("O10.5", f"duplicate {hint} names rejected (dedupe idiom)", bool(good), site,
               (f"loop at line {L.lineno}" if L is not None else f"{f.name} as a whole (no loop around the site could be interpreted on its own)") + f" interpreted on {len(rows)} collection(s): " + ("rejects exactly the ones with a repeated name" if good else "; ".join(wrong)), key=f"{_L}:{func.name}:dedupe:{hint}")
        return (site, L, f) if good else None

    def flat_cases():
        a, b, c = {"name": "aa"}, {"name": "bb"}, {"name": "cc"}
        return [("three different names", lambda: [dict(a), dict(b), dict(c)], False), ("the first name again as the third", lambda: [dict(a), dict(b), dict(a)], True),
                ("the same name twice in a row", lambda: [dict(b), dict(b)], True), ("one element", lambda: [dict(a)], False)]

    def task_cases():
        t = lambda n_: Record(name=n_)  # noqa: E731 — distinct task objects, equal only by name
        return [("[a], [b, c]", lambda: [[t("aa")], [t("bb"), t("cc")]], False), ("[a], [b, a] (same name in a later element)", lambda: [[t("aa")], [t("bb"), t("aa")]], True),
                ("[a], [b, b] (same name twice inside one parallel element)", lambda: [[t("aa")], [t("bb"), t("bb")]], True), ("[a], [a]", lambda: [[t("aa")], [t("aa")]], True)]

    # the same collections as whole specifications, for the functions interpreted end to end (fallback of dedupe)
    def is_parse_parallel(e):
        return isinstance(e.func, ast.Attribute) and isinstance(e.func.value, ast.Name) and e.func.value.id == "self" and e.func.attr == pp.name

    def outcome_of(func, values, hook, consts=None):
        kind, _, _node = simulate(func.body, call_env(func, {**values, "self": SelfObj()}), None, hook, consts=consts)
        return kind

    CH = trk.cls("Challenge")
    challenge_model = [(CH, method(trk, CH, "__init__"), "tolerant")]

    # A reference by name resolves to the operation the file defines under that name. Decided on VALUES, end to end: _create_challenges is interpreted as a whole with the
    # reader's own methods entered (parse_operations / parse_operation / parse_parallel / parse_task) and Operation / Task / Parallel / Challenge built by their constructors,
    # on a track whose schedule mixes INLINE operations (one named like an entry of the operations block, one named like a built-in operation type, one inside a parallel
    # element) with later tasks - in the same schedule, inside the parallel element and in a second challenge - that refer to those names as plain strings. The table of named
    # operations is shared by all tasks of all challenges: whatever is parsed on the way must leave it as the operations block defined it.
    OPC, PAC = trk.cls("Operation"), trk.cls("Parallel")
    reader_model = [(OPC, method(trk, OPC, "__init__")), (TK, tinit), (PAC, method(trk, PAC, "__init__"))] + challenge_model
    documented_names = {hyphenate(m): m for m in members}

    def references_run():
        blk1, blk2, inl1, inl2, inl3 = 5000, "logs-from-the-block", 1111, 2222, "logs-inline"
        spec = {
            "operations": [{"name": "op-1", "operation-type": "bulk", "bulk-size": blk1}, {"name": "op-2", "operation-type": "search", "index": blk2}],
            "challenges": [
                {"name": "c1", "default": True, "schedule": [
                    {"name": "t-inline-1", "operation": {"name": "op-1", "operation-type": "bulk", "bulk-size": inl1}},
                    {"name": "t-inline-2", "operation": {"name": "force-merge", "operation-type": "force-merge", "max-num-segments": inl2}},
                    {"name": "t-ref-1", "operation": "op-1"},
                    {"parallel": {"tasks": [{"name": "t-inline-3", "operation": {"name": "op-2", "operation-type": "search", "index": inl3}}, {"name": "t-ref-2", "operation": "op-2"}]}},
                ]},
                {"name": "c2", "schedule": [{"name": "t-ref-3", "operation": "op-1"}, {"name": "t-ref-4", "operation": "force-merge"}, {"name": "t-ref-5", "operation": "op-2"}]},
            ],
        }
        # (task name, what the file says its operation is, a value that only that operation carries, values that only OTHER operations of that name carry)
        expect = [("t-inline-1", "the inline operation written in the task", inl1, [blk1]), ("t-inline-2", "the inline operation written in the task", inl2, []),
                  ("t-inline-3", "the inline operation written in the task", inl3, [blk2]),
                  ("t-ref-1", "`op-1` of the operations block", blk1, [inl1]), ("t-ref-2", "`op-2` of the operations block", blk2, [inl3]), ("t-ref-3", "`op-1` of the operations block", blk1, [inl1]),
                  ("t-ref-4", "the parameter-less built-in operation `force-merge`", "force-merge", [inl2]), ("t-ref-5", "`op-2` of the operations block", blk2, [inl3])]
        base = full_hook(set(), model=reader_model, strict=set(sr_methods))

        def hook(e, env_, sim):
            if last_attr(e.func) == fh.name and "OperationType" in (dotted(e.func) or ""):
                # the registry answers as O10.1 establishes: the member of the documented name, KeyError for any other text
                args_, _ = sim.arguments(e, env_)
                if len(args_) == 1 and isinstance(args_[0], str) and ot_model is not None:
                    if args_[0] in documented_names:
                        return ot_model.members[documented_names[args_[0]]]
                    raise _Sig("raise", None, e, "KeyError")
            return base(e, env_, sim)

        kind, val, node = simulate(cc.body, call_env(cc, {params_of(cc)[1]: spec, "self": SelfObj()}), None, hook, consts=track_consts, enums=ot_enums, max_depth=9)
        if kind in ("raise", "error"):
            return kind, node, []
        if kind != "return":
            raise CannotEval(f"ends in `{kind}` at line {getattr(node, 'lineno', '?')}")
        tasks, todo, seen_ = {}, [val], set()
        while todo:
            x = todo.pop()
            if id(x) in seen_:
                continue
            seen_.add(id(x))
            if isinstance(x, Inst) and x.cls is TK and isinstance(x.fields.get("name"), str):
                tasks[x.fields["name"]] = x
            elif isinstance(x, Record):
                todo += [v_ for v_ in x.fields.values() if isinstance(v_, (Record, list, tuple))]
            elif isinstance(x, (list, tuple)):
                todo += list(x)
        wrong = []
        for tname, what, own, foreign in expect:
            if tname not in tasks or not isinstance(tasks[tname].fields.get("operation"), Record):
                raise CannotEval(f"the task `{tname}` (or its operation) is not among the objects the interpreted {cc.name} returns")
            op_ = tasks[tname].fields["operation"]
            if _has_opaque(op_.fields.get("name")) or _has_opaque(op_.fields.get("params")):
                raise CannotEval(f"the operation of `{tname}` has uninterpreted attributes")
            if not mentions(op_, [own]) or any(mentions(op_, [x_]) for x_ in foreign):
                wrong.append(f"task `{tname}`: the file says {what}, the loaded task has the operation `{op_.fields.get('name')}` with the parameters {op_.fields.get('params')!r}"[:200])
        return kind, node, wrong

    try:
        kind_, node_, wrong_ = references_run()
        chk.ob("O10.2", "a task that refers to an operation by name gets the operation the operations block defines under that name (a bare built-in type name: the parameter-less "
               "operation of that type), whatever inline operations the tasks parsed before it define - in the same schedule, in a parallel element or in an earlier challenge", not wrong_,
               tctor[0],
               (f"{cc.name} interpreted end to end on a track with 2 named, 3 inline operations and 5 references by name: " + ("every task has the operation the file says" if kind_ == "return" else
                f"the track is rejected ({kind_} at line {getattr(node_, 'lineno', '?')})")) if not wrong_ else ("; ".join(wrong_) + " - the table of named operations was changed while the schedule was parsed")[:400],
               key=f"{_L}:{SR.name}:named-operation-references")
    except CannotEval as e:
        chk.unknown("O10.2", f"{cc.name} cannot be interpreted end to end (operations block, inline operations and references by name): {e}"[:300], cc)

    def whole_tasks(coll):
        """_create_challenges on one challenge whose schedule has a plain task per one-element group and a parallel element per larger group; what parse_task / parse_parallel are
        CALLED WITH decides the element they yield: an object that iterates over its leaf tasks (Task yields itself, Parallel its tasks), named as the file says."""
        def spec_of(t_):
            return {"operation": "op-1", "name": t_.fields["name"]}

        sched = [spec_of(g_[0]) if len(g_) == 1 else {"parallel": {"tasks": [spec_of(t_) for t_ in g_]}} for g_ in coll]
        base = full_hook(observe_all - {cc.name}, model=challenge_model)

        def hook(e, env_, sim):
            if is_parse_task(e) or is_parse_parallel(e):
                fn = pt if is_parse_task(e) else pp
                spec_e = bind_args(e, fn).get(params_of(fn)[1])
                v = sim.ev(spec_e, env_) if spec_e is not None else None
                if fn is pt and isinstance(v, dict) and isinstance(v.get("name"), str):
                    return Record(name=v["name"], __iter__=[Record(name=v["name"])])
                if fn is pp and isinstance(v, dict) and isinstance(v.get("tasks"), list) and all(isinstance(t_, dict) and isinstance(t_.get("name"), str) for t_ in v["tasks"]):
                    return Record(tasks=[Record(name=t_["name"]) for t_ in v["tasks"]], __iter__=[Record(name=t_["name"]) for t_ in v["tasks"]])
                raise CannotEval(f"{u(e)[:50]} is not called with an element of the schedule written in the file")
            return base(e, env_, sim)

        return outcome_of(cc, {params_of(cc)[1]: {"challenges": [{"name": "c1", "default": True, "schedule": sched}]}}, hook)

    def whole_challenges(coll):
        return outcome_of(cc, {params_of(cc)[1]: {"challenges": [{**el, "schedule": [], **({"default": True} if i_ == 0 else {})} for i_, el in enumerate(coll)]}}, full_hook(observe_all - {cc.name}, model=challenge_model))

    def whole_operations(coll):
        po = method(ldr, SR, "parse_operations")
        return outcome_of(po, {params_of(po)[1]: [{**el, "operation-type": "bulk"} for el in coll]}, full_hook(observe_all - {po.name}))

    # the corpus and its document sets are objects of the model (DocumentCorpus / Documents built by their own constructors): a duplicate that is looked for by comparing or
    # looking up OBJECTS is decided by the equality those classes define, on the attributes the objects have at that moment
    DCo = trk.cls("DocumentCorpus")
    corpus_model = [(DCo, method(trk, DCo, "__init__")), (DC, DI)]

    def corpus_cases():
        """corpora as a schema-valid track writes them: each has a document set (minItems 1), and two corpora that share a NAME differ in everything else (identical entries are
        what the schema's uniqueItems already refuses) - the documented rule is about the name alone."""
        def c(name, n_):
            return {"name": name, "meta": {"variant": n_}, "documents": [{"source-file": f"docs-{n_}.json.bz2", "document-count": 1000 + n_, "target-index": "idx"}]}

        return [("three different names", lambda: [c("aa", 1), c("bb", 2), c("cc", 3)], False), ("the first name again as the third, with other documents", lambda: [c("aa", 1), c("bb", 2), c("aa", 3)], True),
                ("the same name twice in a row, with other documents", lambda: [c("bb", 1), c("bb", 2)], True), ("the same corpus written twice", lambda: [c("aa", 1), c("aa", 1)], True),
                ("one corpus", lambda: [c("aa", 1)], False)]

    def whole_corpora(coll):
        docs = [{"source-file": "docs-marker.json.bz2", "document-count": 1001, "target-index": "idx"}]
        return outcome_of(cr, {params_of(cr)[1]: [{"documents": [dict(d_) for d_ in docs], **el} for el in coll], params_of(cr)[2]: [], params_of(cr)[3]: []},
                          full_hook(observe_all - {cr.name}, oracle={"is_archive": True}, model=corpus_model), consts=track_consts)

    found = dedupe(cc, ("multiple tasks with the name", "unique"), "task", task_cases(), stop=roles, whole=whole_tasks)
    if found is not None and found[1] is None:
        chk.ob("O10.5", "duplicate task names are looked for in the schedule that is handed to the challenge", True, found[0],
               "decided end to end: the tasks of the schedule written in the file (plain and inside parallel elements, as parse_task / parse_parallel are called with them) reach the check")
    elif found is not None:
        # ... and it is the schedule handed to the challenge that is looked at (data flow: the collection the loop runs over is that local, directly or as the argument of the helper)
        site, L, f = found
        src = L.iter
        if f is not cc and name_of(src) in params_of(f):
            calls_f = [c for c in source.calls_in(cc) if isinstance(c.func, ast.Attribute) and isinstance(c.func.value, ast.Name) and c.func.value.id == "self" and c.func.attr == f.name]
            src = bind_args(calls_f[0], f).get(name_of(src)) if len(calls_f) == 1 else None
        elif f is not cc:
            src = None
        # the expression is evaluated with the schedule local holding three marker elements: it must yield exactly those, in order
        probe = [Opaque("input", "element-1"), Opaque("input", "element-2"), Opaque("input", "element-3")]
        try:
            val = Sim().ev(src, {sched_local: list(probe)}) if src is not None and sched_local is not None else None
        except (CannotEval, _Sig):
            val = None
        if not isinstance(val, (list, tuple)) or any(isinstance(x, Opaque) and x.sig[0] == "free" for x in val):
            # the loop does not run over the schedule local element by element (a flattened view of it, a list computed from it, ...): decided end to end instead
            try:
                rows_ = [(label, must, whole_tasks(make())) for label, make, must in task_cases()]
                wrong = [f"{label}: {'rejected' if k_ == 'raise' else 'accepted'} (must be {'rejected' if must else 'accepted'})" for label, must, k_ in rows_ if (k_ == "raise") != must]
                if any(k_ not in ("raise", "return", "fallthrough") for _, _, k_ in rows_):
                    raise CannotEval(f"{cc.name} ends in {[k_ for _, _, k_ in rows_]}")
                chk.ob("O10.5", "duplicate task names are looked for in the schedule that is handed to the challenge", not wrong, L,
                       f"checked: `{short(L.iter, 40)}`; decided end to end on {len(rows_)} schedule(s) written in the file" + ("" if not wrong else ": " + "; ".join(wrong))[:300])
            except CannotEval as e:
                chk.unknown("O10.5", f"cannot relate the collection checked for duplicate task names ({short(L.iter, 40)}) to the schedule handed to Challenge(...): {e}"[:300], L)
        else:
            chk.ob("O10.5", "duplicate task names are looked for in the schedule that is handed to the challenge", list(val) == probe, L,
                   f"checked: `{short(src, 40)}`; handed to the challenge: `{sched_local}`" + ("" if list(val) == probe else f" — for a schedule of three elements only {len(val)} of them are checked / in another order"))
    dedupe(cc, ("duplicate", "challenge"), "challenge", flat_cases(), stop=roles, whole=whole_challenges)
    dedupe(method(ldr, SR, "parse_operations"), ("duplicate", "operation"), "operation", flat_cases(), stop=roles, whole=whole_operations)
    dedupe(cr, ("duplicate", "corpus"), "corpus", corpus_cases(), stop=roles, whole=whole_corpora, hook_of=lambda base_: modelled(base_, corpus_model, oracle={"is_archive": True}))
    # default challenge rules — value table: _create_challenges is interpreted as a whole (helpers of the class entered, Challenge(...) / parse_* results uninterpreted) on a
    # concrete track specification per row (schedules left empty: they play no part here); it either rejects or returns the challenges
    def challenges_outcome(specs):
        spec = {"challenges": [{"name": n_, "schedule": [], **({"default": d_} if d_ is not None else {})} for n_, d_ in specs]}
        env = call_env(cc, {params_of(cc)[1]: spec, "self": SelfObj()})
        # (the challenges are objects with the attributes Challenge.__init__ stores, so that a rule written over `c.default` of the challenges built so far is decided as well)
        kind, val, node = simulate(cc.body, env, None, full_hook(observe_all - {cc.name}, model=challenge_model))
        if kind not in ("raise", "return"):
            raise CannotEval(f"ends in `{kind}` at line {getattr(node, 'lineno', '?')}")
        if kind == "return" and not (isinstance(val, (list, tuple)) and len(val) == len(specs)):
            raise CannotEval(f"returns {str(val)[:60]} for {len(specs)} challenge(s)")
        return kind == "raise"

    def challenge_table(title, rows, site):
        wrong = []
        try:
            for desc_, specs, must in rows:
                if challenges_outcome(specs) != must:
                    wrong.append(f"{desc_}: {'accepted' if must else 'rejected'} (documented: {'reject' if must else 'accept'})")
        except CannotEval as e:
            chk.unknown("O10.5", f"_create_challenges cannot be interpreted on a representative track ({title}): {e}", cc)
            return
        chk.ob("O10.5", title, not wrong, site, f"{len(rows)} track(s) interpreted" + ("" if not wrong else ": " + "; ".join(wrong))[:300])

    two = reject_sites(closure(cc, roles), ("default challenges",))
    challenge_table("several default challenges rejected", [
        ("two challenges, the first one default", [("c1", True), ("c2", None)], False),
        ("two challenges, the second one default", [("c1", False), ("c2", True)], False),
        ("two challenges, both default", [("c1", True), ("c2", True)], True),
        ("three challenges, the first and the last default", [("c1", True), ("c2", None), ("c3", True)], True),
    ], two[0] if two else cc)
    none = reject_sites(closure(cc, roles), ("no default challenge",))
    challenge_table("no default challenge rejected (after all challenges were read)", [
        ("a single challenge without a default flag (it is the default)", [("c1", None)], False),
        ("two challenges, none default", [("c1", None), ("c2", False)], True),
        ("three challenges, only the last one default", [("c1", None), ("c2", None), ("c3", True)], False),
    ], none[0] if none else cc)
    # mixing rules: value table. parse_task is interpreted as a whole (Task(...) through Task.__init__, helpers of the class entered) on a concrete task specification per row:
    # it either rejects (an error helper / raise is reached) or returns the task — wherever the validation is written (behind the construction, before it, in a helper)
    n_rows = n_four = 0
    task_model = [(TK, tinit)]
    for wi, it, wt, tp, ru in itertools.product([False, True], [False, True], [False, True], [False, True], ["none", "le", "gt"]):
        if ru != "none" and not wt and ru == "le":
            continue  # ramp-up compared with a missing warm-up: covered by the 'gt' representative
        spec = {"operation": "op-1", **({"warmup-iterations": 100} if wi else {}), **({"iterations": 100} if it else {}), **({"warmup-time-period": 60} if wt else {}),
                **({"time-period": 600} if tp else {}), **({} if ru == "none" else {"ramp-up-time-period": 30 if ru == "le" else 120})}
        try:
            kind, _, node = simulate(pt.body, call_env(pt, {p_spec: spec, **({p_ops: {"op-1": op_entry}} if p_ops else {}), "self": SelfObj()}), None,
                                     full_hook(observe_all - {pt.name}, model=task_model))
            if kind not in ("raise", "return"):
                raise CannotEval(f"ends in `{kind}` at line {getattr(node, 'lineno', '?')}")
        except CannotEval as e:
            chk.unknown("O10.5", f"parse_task cannot be interpreted on the task specification {spec}: {e}", pt)
            n_rows = None
            break
        rejected = kind == "raise"
        # documented rule (property text; the loader's own message: "mixing time periods and iterations is not allowed"): ANY of the two iteration-counted fields together with ANY of the two
        # time-period fields, not only the two crossed pairs (a task carrying iterations AND a time period runs time-based: the iteration count in the file is silently ignored)
        mixed = (wi or it) and (wt or tp)
        want = mixed or ((wi or it) and ru != "none") or (ru != "none" and not wt) or (ru == "gt" and wt)
        n_rows += 1
        fields = [k for k, v in (("warmup-iterations", wi), ("iterations", it), ("warmup-time-period", wt), ("time-period", tp)) if v]
        desc = ", ".join(fields) or "no iteration/time fields"
        desc += {"none": "", "le": ", ramp-up <= warm-up", "gt": ", ramp-up > warm-up period (or no warm-up period)"}[ru]
        # the sixteen rows without a ramp-up ARE the value table over the four fields {warmup-iterations, iterations, warmup-time-period, time-period} x {absent, present}; they carry a
        # stable construct key of their own (one per combination of fields), the rows with a ramp-up keep theirs
        if ru == "none":
            n_four += 1
            row_key = f"{_L}:TrackSpecificationReader.parse_task:mixing:[{'+'.join(fields) or 'none'}]"
            detail = f"code {'rejects' if rejected else 'accepts'}; documented: {'reject' if want else 'accept'}"
            if want and not rejected:
                detail += (f" — the validation of parse_task has no arm for this combination: the task is loaded with both {fields[0]} and {fields[-1]}, "
                           "the driver schedules it time-based and ignores the iteration count written in the file")
        else:
            row_key = f"{_L}:parse_task:mix:{wi}|{it}|{wt}|{tp}|{ru}"
            detail = f"code {'rejects' if rejected else 'accepts'}; documented: {'reject' if want else 'accept'}"
        chk.ob("O10.5", f"task with {desc}: {'rejected' if want else 'accepted'}", rejected == want, pt, detail, key=row_key)
    if n_rows is not None:
        chk.ob("O10.5", "mixing-rule table evaluated", n_rows >= 40, pt, f"{n_rows} abstract tasks")
        chk.ob("O10.5", "four-field table (iteration fields x time-period fields, no ramp-up) evaluated on all sixteen combinations", n_four == 16, pt, f"{n_four} combination(s)")
    # rules of the parallel element — value tables as well: parse_parallel is interpreted as a whole (parse_task and Task.__init__ entered, so its sub-tasks are objects with the
    # attributes the loader gives them) on a concrete element per row; it either rejects or returns the Parallel
    def parallel_outcome(par):
        kind, _, node = simulate(pp.body, call_env(pp, {pp_spec: par, **({pp_ops: {"op-1": op_entry}} if pp_ops else {}), "self": SelfObj()}), None,
                                 full_hook(observe_all - {pt.name, pp.name}, model=task_model, strict={pt.name}))
        if kind not in ("raise", "return"):
            raise CannotEval(f"ends in `{kind}` at line {getattr(node, 'lineno', '?')}")
        return kind == "raise"

    def table(title, rows, site, key=None):
        """rows: [(description, parallel element, must_reject)]"""
        wrong = []
        try:
            for desc_, par, must in rows:
                if parallel_outcome(par) != must:
                    wrong.append(f"{desc_}: {'accepted' if must else 'rejected'} (documented: {'reject' if must else 'accept'})")
        except CannotEval as e:
            chk.unknown("O10.5", f"parse_parallel cannot be interpreted on a representative parallel element ({title}): {e}", pp)
            return
        chk.ob("O10.5", title, not wrong, site, f"{len(rows)} parallel element(s) interpreted" + ("" if not wrong else ": " + "; ".join(wrong))[:300], key=key)

    ta, tb_ = {"operation": "op-1", "name": "t-a"}, {"operation": "op-1", "name": "t-b"}
    wp = {"warmup-time-period": 120, "time-period": 600}
    ru_err = reject_sites([pp], ("ramp-up-time-period",))
    table("a task inside a parallel element may not set its own ramp-up", [
        ("no ramp-up anywhere", {**wp, "tasks": [dict(ta), dict(tb_)]}, False),
        ("ramp-up on the parallel element only (inherited by its tasks)", {**wp, "ramp-up-time-period": 60, "tasks": [dict(ta), dict(tb_)]}, False),
        ("the second task sets a ramp-up, the parallel element has none", {**wp, "tasks": [dict(ta), {**tb_, "ramp-up-time-period": 60}]}, True),
        ("the first task sets a ramp-up, the parallel element has none", {**wp, "tasks": [{**ta, "ramp-up-time-period": 60}, dict(tb_)]}, True),
        ("a task sets another ramp-up than the parallel element", {**wp, "ramp-up-time-period": 60, "tasks": [dict(ta), {**tb_, "ramp-up-time-period": 30}]}, True),
        ("a task repeats the ramp-up of the parallel element", {**wp, "ramp-up-time-period": 60, "tasks": [dict(ta), {**tb_, "ramp-up-time-period": 60}]}, False),
    ], ru_err[0] if ru_err else pp)
    # the rules about iterations / time periods / ramp-up are rules about what a task ENDS UP with: a value inherited from the enclosing parallel element counts like one written on
    # the task (inside a parallel element the ramp-up is ALWAYS inherited: a task may not write its own). Same value-table technique: the element either rejects or is returned
    t_own = {"operation": "op-1", "name": "t-b", "warmup-time-period": 30}
    ru_sites = reject_sites(closure(pt, roles), ("ramp-up",))
    table("ramp-up without sufficient warm-up is rejected when the ramp-up (or the warm-up) is inherited from the parallel element", [
        ("element: ramp-up 60, warm-up 120 (inherited by both tasks)", {"warmup-time-period": 120, "time-period": 600, "ramp-up-time-period": 60, "tasks": [dict(ta), dict(tb_)]}, False),
        ("element: ramp-up 60, warm-up 60 (equal)", {"warmup-time-period": 60, "time-period": 600, "ramp-up-time-period": 60, "tasks": [dict(ta), dict(tb_)]}, False),
        ("element: ramp-up 120, no warm-up period anywhere", {"time-period": 600, "ramp-up-time-period": 120, "tasks": [dict(ta), dict(tb_)]}, True),
        ("element: ramp-up 120, warm-up 60", {"warmup-time-period": 60, "time-period": 600, "ramp-up-time-period": 120, "tasks": [dict(ta), dict(tb_)]}, True),
        ("element: ramp-up 60, warm-up 120; the second task overrides the warm-up with 30", {"warmup-time-period": 120, "time-period": 600, "ramp-up-time-period": 60, "tasks": [dict(ta), dict(t_own)]}, True),
        ("element: ramp-up 60, no warm-up; the tasks write their own warm-up of 120 / 30", {"time-period": 600, "ramp-up-time-period": 60, "tasks": [{**ta, "warmup-time-period": 120}, dict(t_own)]}, True),
        ("element: ramp-up 20, no warm-up; the tasks write their own warm-up of 120 / 30", {"time-period": 600, "ramp-up-time-period": 20, "tasks": [{**ta, "warmup-time-period": 120}, dict(t_own)]}, False),
        ("element: ramp-up 60 and iterations (inherited by both tasks)", {"iterations": 100, "ramp-up-time-period": 60, "tasks": [dict(ta), dict(tb_)]}, True),
    ], ru_sites[0] if ru_sites else pt, key=f"{_L}:parse_parallel+parse_task:inherited-ramp-up-needs-warm-up")
    table("iterations mixed with time periods are rejected when one of the two is inherited from the parallel element", [
        ("element: warm-up iterations and iterations (inherited)", {"warmup-iterations": 10, "iterations": 100, "tasks": [dict(ta), dict(tb_)]}, False),
        ("element: warm-up period and time period (inherited)", {"warmup-time-period": 60, "time-period": 600, "tasks": [dict(ta), dict(tb_)]}, False),
        ("element: warm-up iterations; the second task writes a time period", {"warmup-iterations": 10, "tasks": [dict(ta), {**tb_, "time-period": 600}]}, True),
        ("element: time period; the first task writes warm-up iterations", {"time-period": 600, "tasks": [{**ta, "warmup-iterations": 10}, dict(tb_)]}, True),
        ("element: warm-up period; the second task writes iterations", {"warmup-time-period": 60, "tasks": [dict(ta), {**tb_, "iterations": 100}]}, True),
        ("element: iterations; the first task writes a warm-up period", {"iterations": 100, "tasks": [{**ta, "warmup-time-period": 60}, dict(tb_)]}, True),
    ], pt, key=f"{_L}:parse_parallel+parse_task:inherited-mixing")
    no_task = reject_sites([pp], ("completed-by", "no task with this name"))
    table("unknown completed-by task rejected", [
        ("completed-by names the first task", {"completed-by": "t-a", "tasks": [dict(ta), dict(tb_)]}, False),
        ("completed-by names the last task", {"completed-by": "t-b", "tasks": [dict(ta), dict(tb_)]}, False),
        ("completed-by names no task of the element", {"completed-by": "t-x", "tasks": [dict(ta), dict(tb_)]}, True),
        ("completed-by names the operation of a renamed task", {"completed-by": "op-1", "tasks": [dict(ta), dict(tb_)]}, True),
        ("completed-by: any", {"completed-by": "any", "tasks": [dict(ta), dict(tb_)]}, False),
        ("no completed-by", {"tasks": [dict(ta), dict(tb_)]}, False),
    ], no_task[0] if no_task else pp)
    multi = reject_sites([pp], ("completed-by", "multiple tasks"))
    table("ambiguous completed-by (several tasks with that name) rejected", [
        ("two tasks carry the completed-by name", {"completed-by": "t-a", "tasks": [dict(ta), dict(tb_), dict(ta)]}, True),
        ("two tasks carry the completed-by name, next to each other", {"completed-by": "t-a", "tasks": [dict(ta), dict(ta)]}, True),
        ("one task carries it, two others share another name", {"completed-by": "t-a", "tasks": [dict(ta), dict(tb_), dict(tb_)]}, False),
    ], multi[0] if multi else pp)
    # indices + data streams — value table: the reader's __call__ is interpreted as a whole (_create_corpora entered; _create_index / _create_data_stream / _create_challenges /
    # Track(...) uninterpreted) on a concrete track specification per row. "On every path": with and without corpora
    call = method(ldr, SR, "__call__")
    both = [n for f in (call, cr) for n in walk_body(f) if isinstance(n, ast.Raise) and "cannot both be specified" in u(n.exc)]
    c_params = params_of(call)

    def track_outcome(spec):
        env = call_env(call, {c_params[1]: "track-1", c_params[2]: spec, "self": SelfObj()})
        kind, _, node = simulate(call.body, env, None, full_hook((observe_all | {cc.name}) - {cr.name, call.name}, oracle={"is_archive": False}), consts=track_consts)
        if kind not in ("raise", "return"):
            raise CannotEval(f"ends in `{kind}` at line {getattr(node, 'lineno', '?')}")
        return kind == "raise"

    idx1, ds1 = [{"name": "index-1"}], [{"name": "stream-1"}]
    corp_i = [{"name": "corpus-1", "documents": [{"source-file": "docs.json", "document-count": 10, "target-index": "index-1"}]}]
    corp_d = [{"name": "corpus-1", "documents": [{"source-file": "docs.json", "document-count": 10, "target-data-stream": "stream-1"}]}]
    rows = [("indices only, no corpora", {"indices": idx1}, False), ("data streams only, no corpora", {"data-streams": ds1}, False), ("neither", {}, False),
            ("indices and data streams, no corpora", {"indices": idx1, "data-streams": ds1}, True),
            ("indices with a corpus", {"indices": idx1, "corpora": corp_i}, False), ("data streams with a corpus", {"data-streams": ds1, "corpora": corp_d}, False),
            ("indices and data streams with a corpus targeting the index", {"indices": idx1, "data-streams": ds1, "corpora": corp_i}, True),
            ("indices and data streams with a corpus targeting the data stream", {"indices": idx1, "data-streams": ds1, "corpora": corp_d}, True)]
    try:
        res = [(d_, must, track_outcome(spec_)) for d_, spec_, must in rows]
        wrong = [f"{d_}: {'rejected' if r_ else 'accepted'}" for d_, must, r_ in res if r_ != must and "no corpora" not in d_ and d_ != "neither"]
        chk.ob("O10.5", "indices together with data streams rejected", not wrong, both[0] if both else call, f"{len(rows)} track(s) interpreted" + ("" if not wrong else ": " + "; ".join(wrong))[:300])
        wrong = [f"{d_}: {'rejected' if r_ else 'accepted'}" for d_, must, r_ in res if r_ != must and ("no corpora" in d_ or d_ == "neither")]
        chk.ob("O10.5", "the indices / data-streams exclusion is tested on every path to the Track construction", not wrong, both[0] if both else call,
               "" if not wrong else "; ".join(wrong) + " — the only remaining test sits behind the corpora: a track with both lists and no corpora is loaded",
               key=f"{_L}:TrackSpecificationReader.__call__:both-rejected-on-every-path")
    except CannotEval as e:
        chk.unknown("O10.5", f"TrackSpecificationReader.__call__ cannot be interpreted on a representative track: {e}", call)
    # reserved / unused track params between building and returning: the same interpreted runs of TrackFileReader.read — the accounting object answers with a non-empty list
    for what, r_ in (("reserved", "reserved parameter"), ("unused", "unused parameter")):
        if read_runs is None:
            chk.unknown("O10.5", f"{what} track parameters: TrackFileReader.read could not be interpreted (see O10.4)", rd)
            continue
        k_, v_, n_, log_, built_ = read_runs[r_][1]
        k0, v0, _, _, built0 = read_runs["valid"][1]
        ok = k_ == "raise" and v_ == "TrackConfigError" and "build" in [x[0] for x in log_] and k0 == "return" and v0 is built0
        chk.ob("O10.5", f"{what} track parameters rejected between building and returning the track", ok, n_ if n_ is not None else rd,
               f"with a {what} parameter read ends in {k_} {v_ if k_ != 'return' else ''} after {[x[0] for x in log_]}; without: {k0}" + ("" if k0 != "return" or v0 is built0 else " of something else than the built track"))
    # the accounting object, decided on values: built by its own constructor for the user parameters {used, unused, now}, told that the track defines {used, other};
    # unused must be {unused, now} minus nothing else, reserved must be {now} (`now` is one of Rally's internal globals). The module function that lists the internal
    # variables is interpreted too (called without arguments, as the accounting does).
    CT = ldr.cls("CompleteTrackParams")
    ct_methods = ldr.methods(CT)
    un = method(ldr, CT, "unused_user_defined_track_params")
    iu = method(ldr, CT, "internal_user_defined_track_params")
    pop_m = method(ldr, CT, "populate_track_defined_params")
    div = ldr.func("default_internal_template_vars")
    mod_funcs = {f_.name: f_ for f_ in ldr.tree.body if isinstance(f_, (ast.FunctionDef, ast.AsyncFunctionDef))}

    def accounting_hook(e, env_, sim):
        f = e.func
        if isinstance(f, ast.Attribute) and isinstance(f.value, ast.Name) and f.value.id == "self" and f.attr in ct_methods and isinstance(env_.get("self"), SelfObj):
            return sim.invoke(ct_methods[f.attr], e, env_, extra={"self": env_["self"]})
        if isinstance(f, ast.Name) and f.id in mod_funcs and f.id not in env_:
            return sim.invoke(mod_funcs[f.id], e, env_)
        return NotImplemented

    def ct_call(obj, m, **kw):
        kind, val, node = simulate(m.body, call_env(m, {params_of(m)[0]: obj, **kw}), None, accounting_hook)
        if kind not in ("return", "fallthrough"):
            raise CannotEval(f"{m.name} ends in `{kind}` at line {getattr(node, 'lineno', '?')}")
        return val

    try:
        acct = SelfObj()
        ct_init = method(ldr, CT, "__init__")
        ct_call(acct, ct_init, **{params_of(ct_init)[1]: {"used": 1, "unused": 2, "now": 3}})
        ct_call(acct, pop_m, **{params_of(pop_m)[1]: ["used", "other"]})
        ct_call(acct, pop_m, **{params_of(pop_m)[1]: ["other-2"]})
        got_un, got_iu = ct_call(acct, un), ct_call(acct, iu)
        for title, got_, want_, m_ in (("unused == user-specified minus track-defined parameters", got_un, {"unused", "now"}, un),
                                      ("reserved == user-specified intersected with Rally's internal globals", got_iu, {"now"}, iu)):
            if not isinstance(got_, (list, tuple, set, frozenset)):
                chk.unknown("O10.5", f"{m_.name} does not yield a collection of names on representative parameters: {str(got_)[:60]}", m_)
            else:
                chk.ob("O10.5", title, set(got_) == want_ and len(list(got_)) == len(want_), m_, f"user parameters used / unused / now, track defines used / other: {sorted(got_)}")
    except CannotEval as e:
        chk.unknown("O10.5", f"the parameter accounting of CompleteTrackParams cannot be interpreted on representative parameters: {e}", CT)
    # the reserved names are a FIXED set: the function that lists Rally's internal globals returns them whatever its arguments are (it is called without arguments when the
    # reserved / unused parameters are computed and with the real values when the track is rendered) — interpreted for both kinds of call
    want_g = {"build_flavor", "serverless_operator", "now", "glob"}
    try:
        key_sets = []
        for label, kw in (("no arguments", {}), ("the values of a race", {p_: v_ for p_, v_ in zip(params_of(div), (Opaque("input", "glob helper"), Opaque("input", "clock"), "default", True))})):
            kind, val, node = simulate(div.body, call_env(div, kw), None, None)
            if kind != "return" or not isinstance(val, dict) or not isinstance(val.get("globals"), dict):
                raise CannotEval(f"called with {label} it does not return a mapping with a 'globals' mapping ({kind}: {str(val)[:60]})")
            key_sets.append((label, set(val["globals"])))
        missing = {label: sorted(want_g - ks) for label, ks in key_sets if not want_g <= ks}
        ok = not missing
        chk.ob("O10.5", "Rally's internal globals (the reserved names) are listed unconditionally", ok, div,
               f"globals listed: {sorted(key_sets[0][1])}" + ("" if ok else f"; missing when called with {missing} — a user parameter of that name is neither rejected as reserved nor as unused"),
               key=f"{_L}:default_internal_template_vars:reserved-names-fixed")
    except CannotEval as e:
        chk.unknown("O10.5", f"default_internal_template_vars cannot be interpreted: {e}", div)
    from rules.C05 import throughput_pattern_rule

    throughput_pattern_rule(chk, "O10.2", trk)
    # operation missing / unknown source format
    try:
        kind, _, node = simulate(pt.body, call_env(pt, {p_spec: {"name": "t-a", "clients": 2}, **({p_ops: {"op-1": op_entry}} if p_ops else {}), "self": SelfObj()}), None,
                                 full_hook(observe_all - {pt.name}, model=task_model))
        chk.ob("O10.5", "task without operation rejected", kind == "raise", node if node is not None else pt, f"a task specification without 'operation': parse_task ends in `{kind}`")
    except CannotEval as e:
        chk.unknown("O10.5", f"parse_task cannot be interpreted on a task specification without an operation: {e}", pt)

    # ---- O10.6 parameter accounting ----------------------------------------------------------------------------------------------------------------------------------
    chk.rule("O10.6", "every template that is rendered has its undeclared variables registered with the accounting object before rendering (track file and every included index / template body); "
             "nested includes resolve relative to the including file; the parts Jinja itself pulls in at render time ({% include %}, any spelling of the collect helper call) are seen by the "
             "accounting too", 5,
             "a track parameter used only in an included body is reported as unused (valid track rejected) / parts vanish from the assembled track")
    ra = ldr.func("register_all_params_in_track")
    rt0 = ldr.func("render_template")
    ra_params = params_of(ra)
    if len(ra_params) < 2:
        raise AnchorMissing("register_all_params_in_track(<assembled source>, <accounting object>)")

    def registrations(f, src_text):
        """call sites in f that register the variables of the source `src_text` with an accounting object: a direct call of the registering function, or a call of a function of
        the module / a method of the same class that does so with the parameter this argument is bound to (an extracted helper)."""
        out = []
        cls_ = source.enclosing_class(f)
        for c in source.calls_in(f):
            if last_attr(c.func) == ra.name:
                b = bind_args(c, ra, skip_self=False)
                acc = b.get(ra_params[1])
                if b.get(ra_params[0]) is not None and u(b[ra_params[0]]) == src_text and acc is not None and not source.is_const(acc, None) and not (isinstance(acc, ast.Constant) and acc.value is None):
                    out.append(c)
                continue
            h = None
            if isinstance(c.func, ast.Name):
                h = mod_funcs.get(c.func.id)
            elif isinstance(c.func, ast.Attribute) and isinstance(c.func.value, ast.Name) and c.func.value.id == "self" and cls_ is not None:
                h = ldr.methods(cls_).get(c.func.attr)
            if h is None or h is f or h is ra:
                continue
            hb = bind_args(c, h)
            for p_, a_ in hb.items():
                if u(a_) == src_text and registrations(h, p_) and cfg_of(h).dominated_by_nodes(cfg_of(h).exit, [cfg_of(h).node_of(x) for x in registrations(h, p_)]):
                    out.append(c)
        return out

    for f in ldr.functions():
        rcalls = [c for c in source.calls_in(f) if last_attr(c.func) == "render_template" and f.name != "render_template"]
        for rc in rcalls:
            g = cfg_of(f)
            src = bind_args(rc, rt0, skip_self=False).get(params_of(rt0)[0])
            if src is None:
                chk.unknown("O10.6", f"{source.qualname(f)}: the template source handed to render_template(...) was not located", rc)
                continue
            regs = registrations(f, u(src))
            ok = bool(regs) and g.dominated_by_nodes(g.node_of(rc), [g.node_of(x) for x in regs])
            chk.ob("O10.6", f"{source.qualname(f)}: variables registered before rendering the same source", ok, rc,
                   "" if ok else f"{len(regs)} registration(s) of `{short(src, 40)}` with an accounting object in {f.name} (or a helper it calls); none on every path to the rendering")
    # registration, decided on values: the registering function is interpreted with Jinja's answers fixed (find_undeclared_variables -> {p1, p2}); the accounting object must be
    # told exactly that set, found in what was parsed from the assembled source
    told, parsed = [], []

    def ra_hook(e, env_, sim):
        la = last_attr(e.func)
        if la == "find_undeclared_variables":
            parsed.extend(sim.ev(a, env_) for a in e.args)
            return {"p1", "p2"}
        if la == pop_m.name:
            told.extend(sim.ev(a, env_) for a in e.args)
            return None
        return accounting_hook(e, env_, sim)

    try:
        src_mark = "assembled-source-marker"
        kind, _, node = simulate(ra.body, call_env(ra, {ra_params[0]: src_mark, ra_params[1]: SelfObj()}), None, ra_hook)
        if kind not in ("fallthrough", "return"):
            raise CannotEval(f"ends in `{kind}` at line {getattr(node, 'lineno', '?')}")
        ok = len(told) == 1 and isinstance(told[0], (set, frozenset, list, tuple)) and set(told[0]) == {"p1", "p2"} and len(parsed) == 1 and mentions(parsed[0], [src_mark])
        chk.ob("O10.6", "registration collects the undeclared variables of the assembled source", ok, ra,
               f"accounting told {told!r}; undeclared variables looked for in {parsed!r}"[:200])
    except CannotEval as e:
        chk.unknown("O10.6", f"register_all_params_in_track cannot be interpreted: {e}", ra)
    pop = pop_m
    try:
        seen_all = any(isinstance(v_, (set, frozenset, list, tuple)) and {"used", "other", "other-2"} <= set(v_) for v_ in acct.fields.values())
        chk.ob("O10.6", "registrations accumulate (update, not replace)", seen_all, pop, f"after registering [used, other] and then [other-2] the accounting object holds "
               f"{ {k_: sorted(v_) for k_, v_ in acct.fields.items() if isinstance(v_, (set, frozenset, list, tuple))} }")
    except NameError:
        chk.unknown("O10.6", "the accounting object could not be interpreted (see O10.5)", pop)
    TS = ldr.cls("TemplateSource")
    ri = method(ldr, TS, "replace_includes")
    rec = [c for c in source.calls_in(ri) if isinstance(c.func, ast.Attribute) and isinstance(c.func.value, ast.Name) and c.func.value.id == "self" and c.func.attr == ri.name]
    # role: the base path is the parameter of replace_includes that is joined (os.path.join) with a matched pattern
    joins = [(c, c.args[0].id) for c in source.calls_in(ri) if dotted(c.func) == "os.path.join" and c.args and name_of(c.args[0]) in params_of(ri)]
    if not rec or not joins:
        chk.unknown("O10.6", f"replace_includes: the recursive call for nested includes / the os.path.join of its base-path parameter were not located ({len(rec)} / {len(joins)})", ri)
    else:
        base_param = joins[0][1]
        bp = bind_args(rec[0], ri).get(base_param)
        # role: the included file's path is the single-assignment local handed to dirname(...); it must be the including base path joined with the matched pattern
        inc_local = name_of(bp.args[0]) if isinstance(bp, ast.Call) and len(bp.args) == 1 else None
        shape_ok = bp is not None and isinstance(bp, ast.Call) and last_attr(bp.func) == "dirname" and inc_local is not None and pat.is_(local_defs(ri).get(inc_local), f"os.path.join({base_param}, E_pattern)")
        # decided on values: the statements that compute the base path handed to the recursive call are interpreted for the base path /tracks/t1 and the matched pattern
        # sub/part-*.json (the loop variable around the call); path functions of os.path / esrally.utils.io on texts are the posixpath ones. Expected: /tracks/t1/sub
        import posixpath as _pp
        path_funcs = {"os.path.join": _pp.join, "os.path.dirname": _pp.dirname, "io.dirname": _pp.dirname, "os.path.normpath": _pp.normpath, "io.normalize_path": _pp.normpath,
                      "os.path.basename": _pp.basename, "io.basename": _pp.basename, "os.path.split": lambda x: list(_pp.split(x))}

        def path_hook(e, env_, sim):
            d_ = dotted(e.func)
            if d_ in path_funcs and d_.split(".")[0] not in env_ and not e.keywords:
                args_ = [sim.ev(a, env_) for a in e.args]
                if all(isinstance(a, str) for a in args_):
                    return path_funcs[d_](*args_)
            return NotImplemented

        nested = None
        if bp is not None:
            env_ = {base_param: "/tracks/t1"}
            for a in source.ancestors(rec[0]):
                if isinstance(a, ast.For) and source.enclosing_func(a) is ri and isinstance(a.target, ast.Name):
                    env_[a.target.id] = "sub/part-*.json"
            pre_ = statements_before(source.enclosing_stmt(rec[0]), ri)
            keep_ = set()
            slice_before(pre_, _loads(bp), keep_)
            try:
                kind, val, _ = simulate(pre_, env_, keep_, hook=path_hook, then=bp)
                if kind == "fallthrough" and isinstance(val, str):
                    nested = val
            except CannotEval:
                pass
        if nested is not None:
            chk.ob("O10.6", "nested includes resolve relative to the included file's directory", _pp.normpath(nested) == "/tracks/t1/sub", rec[0],
                   f"base_path={u(bp)}: the parts of /tracks/t1/sub/part-*.json are resolved against {nested!r}")
        elif shape_ok:
            chk.ob("O10.6", "nested includes resolve relative to the included file's directory", True, rec[0], f"base_path={u(bp)}")
        else:
            chk.unknown("O10.6", f"the base path handed to the recursive replace_includes call cannot be evaluated on a representative include: {u(bp) if bp is not None else None}", rec[0])
    # included text is inserted verbatim: a non-constant replacement handed to re.sub must be a function (a string is a TEMPLATE: backslashes and group references in the
    # included JSON would be re-interpreted)
    n_sub = 0
    for f_ in ldr.methods(TS).values():
        fdefs_ = {x.name for x in ast.walk(f_) if isinstance(x, (ast.FunctionDef, ast.Lambda)) and hasattr(x, "name")}
        for c in source.calls_in(f_):
            if last_attr(c.func) not in ("sub", "subn") or not isinstance(c.func, ast.Attribute):
                continue
            is_mod = dotted(c.func) in ("re.sub", "re.subn")
            repl = source.arg_of(c, 1 if is_mod else 0, "repl")
            if repl is None:
                continue
            n_sub += 1
            rdef = local_defs(f_).get(repl.id) if isinstance(repl, ast.Name) else None
            fn_ok = isinstance(repl, ast.Lambda) or (isinstance(repl, ast.Name) and (repl.id in fdefs_ or isinstance(rdef, ast.Lambda))) \
                or (isinstance(repl, ast.Attribute) and isinstance(repl.value, ast.Name) and repl.value.id == "self")
            const_ok = isinstance(repl, ast.Constant) and isinstance(repl.value, str) and "\\" not in repl.value
            esc_ok = isinstance(repl, ast.Call) and last_attr(repl.func) == "replace" and "\\" in u(repl)
            if not (fn_ok or const_ok or esc_ok) and not isinstance(repl, (ast.Name, ast.Subscript, ast.JoinedStr, ast.BinOp, ast.Constant)) \
                    and not (isinstance(repl, ast.Call) and last_attr(repl.func) in ("join", "format", "read", "read_glob_files", "replace_includes")):
                chk.unknown("O10.6", f"TemplateSource.{f_.name}: cannot tell whether the replacement `{short(repl, 50)}` handed to re.sub is a function or a text", c)
                continue
            chk.ob("O10.6", f"TemplateSource.{f_.name}: substituted text is inserted verbatim (function replacement)", fn_ok or const_ok or esc_ok, c,
                   short(c, 80) + ("" if (fn_ok or const_ok or esc_ok) else " — the replacement is a string built from file contents: re.sub treats it as a template, so `\\t`, `\\n`, `\\\\` and `\\1` in the included part change"),
                   key=f"{_L}:TemplateSource.{f_.name}:sub-verbatim")
    if n_sub >= 1:
        chk.ob("O10.6", "include substitution located", True, ri, f"{n_sub} re.sub site(s) in TemplateSource")
    else:
        chk.unknown("O10.6", "no re.sub / pattern.sub call located in TemplateSource: how the included parts are inserted is not recognised", ri)
    # parts reach the rendered track in two ways: textually (the pattern replace_includes substitutes) or through Jinja itself at render time ({% include %}, also the fall-back
    # inside the collect macro). Track parameters used in a part are substituted in both cases (globals are visible in includes), so the accounting that decides "unused
    # track parameter" has to see those parts as well.
    # role: the inlining pattern is the compiled regular expression whose findall / finditer / sub is applied to the fragment in replace_includes (a class-level constant)
    appl = [c.func.value for c in source.calls_in(ri) if isinstance(c.func, ast.Attribute) and c.func.attr in ("findall", "finditer", "sub", "subn", "search")]
    pat_attrs = {x.attr for x in appl if isinstance(x, ast.Attribute) and dotted(x) is not None and dotted(x).split(".")[0] in ("TemplateSource", "self", "cls")}
    pat_globals = {x.id for x in appl if isinstance(x, ast.Name)}  # ... or a module-level constant
    inline_res = []
    for n in [n_ for body_, names_ in ((TS.body, pat_attrs), (ldr.tree.body, pat_globals)) for n_ in body_
              if isinstance(n_, ast.Assign) and len(n_.targets) == 1 and name_of(n_.targets[0]) in names_]:
        if isinstance(n.value, ast.Call) and dotted(n.value.func) == "re.compile" and n.value.args and isinstance(n.value.args[0], ast.Constant) and isinstance(n.value.args[0].value, str):
            flags = 0
            fl = arg_of(n.value, 1, "flags")
            for x in ([] if fl is None else [x_ for x_ in ast.walk(fl) if isinstance(x_, ast.Attribute)]):
                if dotted(x) is None or not dotted(x).startswith("re.") or not isinstance(getattr(re, x.attr, None), re.RegexFlag):
                    raise AnchorMissing(f"flags of {u(n.value)[:60]} are not re.<FLAG> constants")
                flags |= getattr(re, x.attr)
            try:
                inline_res.append((n, re.compile(n.value.args[0].value, flags)))
            except re.error as e:
                raise AnchorMissing(f"the inlining pattern of TemplateSource does not compile: {e}")
    if not inline_res:
        raise AnchorMissing("class- or module-level `re.compile(<literal>)` whose findall / sub is applied in TemplateSource.replace_includes")
    part = "parts/*.json"

    def inlined(text):
        """some inlining pattern recognises the text as a reference to `part` (the captured group is what replace_includes globs for)."""
        return any(m is not None and part in m.groups() for m in (rx.search(text) for _, rx in inline_res))

    canonical = '{{ rally.collect(parts="parts/*.json") }}'
    chk.ob("O10.6", "the documented spelling of the collect helper is inlined for parameter accounting", inlined(f'"operations": [ {canonical} ]'), inline_res[0][0], canonical)
    # every spelling of the same call that Jinja parses to the same thing renders the parts too (through the macro) — the accounting must not depend on the spelling
    spellings = {"no blanks inside the braces": '{{rally.collect(parts="parts/*.json")}}', "single quotes": "{{ rally.collect(parts='parts/*.json') }}",
                 "positional argument": '{{ rally.collect("parts/*.json") }}', "whitespace control": '{{- rally.collect(parts="parts/*.json") -}}',
                 "blanks inside the call": '{{ rally.collect( parts = "parts/*.json" ) }}'}
    unseen = [f"{nm}: {sp}" for nm, sp in spellings.items() if not inlined(f'"operations": [ {sp} ]')]
    chk.ob("O10.6", "every spelling of the collect helper call that Jinja renders is recognised for parameter accounting (blanks, quote style, positional argument, whitespace control)",
           not unseen, inline_res[0][0],
           "" if not unseen else f"not recognised by {inline_res[0][1].pattern!r}: {'; '.join(unseen)} — the parts are still rendered (the macro includes them), but the parameters they use "
           "are never registered: a user who sets one gets 'Unused track parameters' and the valid track is rejected",
           key=f"{_L}:TemplateSource.replace_includes:collect-helper-spellings")
    # templates pulled in by Jinja's own {% include "..." %} (documented in docs/adding_tracks.rst): the accounting follows them — it asks Jinja for the referenced templates
    # (meta.find_referenced_templates / a walk over Include nodes) in the code that assembles or registers the source, or a textual inlining pattern recognises the tag
    acct = [ra] + list(ldr.methods(TS).values()) + [f for f in ldr.functions() if f is not ra and any(last_attr(c.func) == "register_all_params_in_track" for c in source.calls_in(f))]
    follows = [c for f in acct for c in ast.walk(f) if isinstance(c, ast.Call) and (
        last_attr(c.func) == "find_referenced_templates"
        or (last_attr(c.func) in ("find_all", "find") and any(isinstance(x, (ast.Attribute, ast.Name)) and last_attr(x) == "Include" for a_ in c.args for x in ast.walk(a_))))]
    tag_inlined = all(inlined(t_) for t_ in ('{% include "parts/*.json" %}', "{% include 'parts/*.json' %}", '{%- include "parts/*.json" -%}'))
    ok = bool(follows) or tag_inlined
    chk.ob("O10.6", "parameter accounting follows the templates Jinja includes at render time ({% include %})", ok, follows[0] if follows else ra,
           "" if ok else f"register_all_params_in_track sees the assembled text only ({len(acct)} function(s) of the assembling / registering code looked at: no find_referenced_templates, no walk "
           "over Include nodes, and the inlining pattern does not recognise the tag): a parameter used only in a part included with {% include %} is reported as unused and the valid track is rejected",
           key=f"{_L}:register_all_params_in_track:jinja-includes-followed")
    lf = method(ldr, TS, "load_template_from_file")
    top = [c for c in walk_body(lf) if isinstance(c, ast.Call) and isinstance(c.func, ast.Attribute) and isinstance(c.func.value, ast.Name) and c.func.value.id == "self" and c.func.attr == ri.name]
    # role: the track's directory is the attribute the file loader of the same method is rooted in (FileSystemLoader(self.<attr>)), i.e. where the track file itself is read from
    roots = {u(c.args[0]) for c in walk_body(lf) if isinstance(c, ast.Call) and last_attr(c.func) == "FileSystemLoader" and c.args}
    if not top or not joins or len(roots) != 1:
        chk.unknown("O10.6", f"load_template_from_file: the call of replace_includes / the directory the track file is loaded from were not located ({len(top)} call(s), roots {sorted(roots)})", lf)
    else:
        lf_defs = local_defs(lf)
        roots = {source.inline(c.args[0], lf_defs) for c in walk_body(lf) if isinstance(c, ast.Call) and last_attr(c.func) == "FileSystemLoader" and c.args}
        bases = [bind_args(c, ri).get(joins[0][1]) for c in top]
        if any(b_ is None for b_ in bases):
            chk.unknown("O10.6", "load_template_from_file: the base path handed to replace_includes was not located", top[0])
        else:
            ok = all(source.inline(b_, lf_defs) in roots for b_ in bases)
            chk.ob("O10.6", "top-level includes resolve relative to the track's directory", ok, top[0], f"includes resolved against {[u(b_) for b_ in bases]}; the track file is loaded from {sorted(roots)}")
    # built-in macros (embedded Jinja source): parsed with jinja2's own parser, never rendered
    rt0 = ldr.func("render_template")

    # role: the helpers' source is the VALUE stored under 'rally.helpers' in a dict of templates built in render_template (a DictLoader's mapping); it is evaluated, so a list /
    # tuple joined in place, a local, a named constant or a concatenation are all the same text
    helper_dicts = [d_ for d_ in walk_body(rt0) if isinstance(d_, ast.Dict) and any(k_ is not None and source.is_const(k_, "rally.helpers") for k_ in d_.keys)]
    if not helper_dicts:
        raise AnchorMissing("a dict with the key 'rally.helpers' (the mapping of the helpers' DictLoader) in render_template")
    helper_src = next(v_ for k_, v_ in zip(helper_dicts[0].keys, helper_dicts[0].values) if k_ is not None and source.is_const(k_, "rally.helpers"))
    hst = source.enclosing_stmt(helper_dicts[0])
    keep_h = set()
    pre_h = statements_before(hst, rt0)
    slice_before(pre_h, _loads(helper_src), keep_h)
    macro_text = None
    try:
        kind, macro_text, _ = simulate(pre_h, module_env_of(ldr, _loads(helper_src) | {n_ for s_ in pre_h if id(s_) in keep_h for n_ in _loads(s_)}), keep_h, then=helper_src)
        if kind != "fallthrough" or not isinstance(macro_text, str):
            chk.unknown("O10.6", f"the source of the 'rally.helpers' template does not evaluate to a text ({kind}: {str(macro_text)[:60]})", helper_dicts[0])
            macro_text = None
    except CannotEval as e:
        chk.unknown("O10.6", f"the source of the 'rally.helpers' template cannot be evaluated: {e}", helper_dicts[0])
    if macro_text is not None:
        try:
            import jinja2
            import jinja2.nodes as jn

            try:
                tree = jinja2.Environment().parse(macro_text)
            except jinja2.TemplateSyntaxError as e:
                tree = None
                chk.ob("O10.6", "built-in macros parsed", False, rt0, f"the 'rally.helpers' template does not parse: {e}")
            if tree is not None:
                n_def = 0
                for f_ in tree.find_all(jn.Filter):
                    if f_.name == "default":
                        n_def += 1
                        boolean = (len(f_.args) >= 2 and not (isinstance(f_.args[1], jn.Const) and f_.args[1].value is False)) or any(k.key == "boolean" and not (isinstance(k.value, jn.Const) and k.value.value is False) for k in f_.kwargs)
                        chk.ob("O10.6", "built-in macro: `default` filter replaces only UNDEFINED values (not boolean mode)", not boolean, rt0,
                               "" if not boolean else "default(x, true) also replaces defined falsy values: a user-supplied 0 / false / '' is silently overridden by the track's default")
                n_macros = len(list(tree.find_all(jn.Macro)))
                chk.ob("O10.6", "built-in macros parsed", n_macros >= 2 and n_def >= 1, rt0, f"{n_macros} macro(s), {n_def} default filter(s)")
        except ImportError:
            chk.adv("O10.6", "jinja2 is not importable in this interpreter: the embedded macro sources were not parsed", rt0)

    # user variables never override internal ones: internal applied after user vars
    rt = ldr.func("render_template")
    g = cfg_of(rt)
    # role: the environment is the local assigned from jinja2.Environment(...) (the one the template is created from)
    envs = set(assigned_from(rt, lambda c: dotted(c.func) == "jinja2.Environment"))
    if len(envs) != 1:
        raise AnchorMissing(f"one local assigned from jinja2.Environment(...) in render_template (found {sorted(envs)})")
    env_local = envs.pop()
    # roles: a write is a statement that stores into a namespace of that environment (`env.<ns>[k] = v`, `getattr(env, <ns>)[k] = v`, `<the same>.update(...)`); whose variables it
    # writes is decided by data flow — the parameter the stored data comes from (through loop variables and locals). The internal-variables parameter is the one that some caller
    # fills from default_internal_template_vars(...) or from a literal {"globals": ..} / {"filters": ..} mapping; the user-variables parameter is the other one that is written.
    rt_params = params_of(rt)
    rt_defs = local_defs(rt)

    def origin_params(stmt, exprs):
        names, seen = set(), set()
        todo = set().union(*[_loads(x) for x in exprs])
        loops = [a for a in source.ancestors(stmt) if isinstance(a, ast.For)]
        while todo:
            nm_ = todo.pop()
            if nm_ in seen:
                continue
            seen.add(nm_)
            if nm_ in rt_params:
                names.add(nm_)
            for a in loops:
                if any(isinstance(x, ast.Name) and x.id == nm_ for x in ast.walk(a.target)):
                    todo |= _loads(a.iter)
            if nm_ in rt_defs:
                todo |= _loads(rt_defs[nm_])
        return names

    # Decided on VALUES first: render_template is interpreted with Jinja's objects modelled by what Jinja documents about them - an Environment has the namespaces `globals`
    # (pre-filled with Jinja's default names), `filters`, `tests`; a template created from it (from_string / get_template, optionally with template-level globals) is rendered
    # with a context (render / generate / stream: dict(*args, **kwargs)). Which variables a template SEES (Jinja API, "The Global Namespace" / "Import Context Behavior"):
    #   the rendered template and everything it {% include %}s: the render context, then the template-level globals, then the environment's globals;
    #   a template it {% import %}s / {% from ... import %}s (without context, the default): the environment's globals ONLY.
    # So a track parameter reaches the macros of an imported part only through the environment's globals, and an internal variable wins only if no channel that shadows the
    # environment's globals (render context, template-level globals) carries the user's value of that name. Nothing is rendered; only the statements of render_template run
    # in the interpreter of this module.
    try:
        import jinja2.defaults as _jd
        jinja_default_globals = sorted(_jd.DEFAULT_NAMESPACE)
    except (ImportError, AttributeError):
        jinja_default_globals = ["range", "dict", "lipsum", "cycler", "joiner", "namespace"]
    _MISSING = Opaque("input", "undefined")

    def jinja_run(vals):
        """-> [what each rendering sees: {"context", "template", "globals", "filters"}] for render_template called with the parameter values `vals`."""
        renders = []

        def kind_of(v):
            return v.fields.get("__jinja__") if isinstance(v, Record) else None

        def hook(e, env_, sim):
            f = e.func
            la = last_attr(f) or ""
            if la.endswith("Environment") and (dotted(f) or "").split(".")[0] in ("jinja2", la) and la not in env_:
                # (its arguments - loaders, options - decide where templates are found and how they are parsed, not which variables they see)
                return Record(__jinja__="environment", globals={n_: Opaque("input", f"Jinja's default global `{n_}`") for n_ in jinja_default_globals}, filters={}, tests={}, policies={})
            if isinstance(f, ast.Attribute) and la in ("from_string", "get_template", "select_template", "get_or_select_template"):
                recv = sim.ev(f.value, env_)
                if kind_of(recv) == "environment":
                    args_, kwargs_ = sim.arguments(e, env_)
                    pos = 1 if la == "from_string" else 2  # from_string(source, globals=None, ...) / get_template(name, parent=None, globals=None)
                    g_ = kwargs_.get("globals", args_[pos] if len(args_) > pos else None)
                    if g_ is not None and not isinstance(g_, dict):
                        raise CannotEval(f"{u(e)[:50]}: template-level globals that are no mapping")
                    return Record(__jinja__="template", environment=recv, globals=dict(g_ or {}))
            if isinstance(f, ast.Attribute) and la in ("render", "generate", "stream"):
                recv = sim.ev(f.value, env_)
                if kind_of(recv) == "template":
                    args_, kwargs_ = sim.arguments(e, env_)
                    ctx = {}
                    for a_ in args_ + [kwargs_]:  # dict(*args, **kwargs)
                        if not isinstance(a_, dict):
                            raise CannotEval(f"{u(e)[:50]}: a render context that is no mapping")
                        ctx.update(a_)
                    j_ = recv.fields["environment"]
                    if not all(isinstance(j_.fields.get(ns_), dict) for ns_ in ("globals", "filters")):
                        raise CannotEval("the namespaces of the Jinja environment are no mappings any more")
                    renders.append({"context": ctx, "template": dict(recv.fields["globals"]), "globals": dict(j_.fields["globals"]), "filters": dict(j_.fields["filters"])})
                    return Opaque("input", "the rendered text")
            if isinstance(f, ast.Name) and f.id in mod_funcs and f.id not in env_ and f.id != rt.name:
                saved = sim.steps
                try:
                    return sim.invoke(mod_funcs[f.id], e, env_)  # an extracted helper of the module (e.g. one that builds the environment)
                except CannotEval:
                    sim.steps = saved
            return NotImplemented

        kind, _, node = simulate(rt.body, call_env(rt, vals), None, hook)
        if kind != "return" or not renders:
            raise CannotEval(f"interpreting {rt.name} ends in `{kind}` at line {getattr(node, 'lineno', '?')} after {len(renders)} rendering(s) of a template created from a jinja2 environment")
        return renders

    def seen_by(r_, name, where):
        for ns_ in (("context", "template", "globals") if where == "main" else ("globals",)):
            if name in r_[ns_]:
                return r_[ns_][name]
        return _MISSING

    writes = []
    for n in walk_body(rt):
        if isinstance(n, ast.Assign) and len(n.targets) == 1 and isinstance(n.targets[0], ast.Subscript):
            tgt, data = n.targets[0].value, [n.targets[0].slice, n.value]
        elif isinstance(n, ast.Expr) and isinstance(n.value, ast.Call) and isinstance(n.value.func, ast.Attribute) and n.value.func.attr == "update":
            tgt, data = n.value.func.value, list(n.value.args) + [k.value for k in n.value.keywords]
        else:
            continue
        if isinstance(tgt, ast.Attribute) and name_of(tgt.value) == env_local:
            writes.append((n, origin_params(n, data)))
        elif pat.is_(tgt, "getattr(V_env, E_kind)", binds={"env": env_local}):
            writes.append((n, origin_params(n, data + [tgt.args[1]])))
    internal_params = set()
    for c in source.calls_in(ldr.tree, attr="render_template", local=False):  # the callers live in the loader module
        if source.enclosing_func(c) is rt:
            continue
        fdefs = local_defs(source.enclosing_func(c)) if source.enclosing_func(c) is not None else {}
        for p_, a_ in bind_args(c, rt, skip_self=False).items():
            a_ = source.inline_node(a_, fdefs)
            if any((isinstance(x, ast.Call) and last_attr(x.func) == "default_internal_template_vars") or
                   (isinstance(x, ast.Dict) and any(k_ is not None and (source.is_const(k_, "globals") or source.is_const(k_, "filters")) for k_ in x.keys)) for x in ast.walk(a_)):
                internal_params.add(p_)
    # roles of the parameters: the source is the first one; the internal variables the one located above; the loader the one handed to the environment's constructor; the user's
    # variables the remaining one
    loader_params = {n_ for c in walk_body(rt) if isinstance(c, ast.Call) and (last_attr(c.func) or "").endswith("Environment") for n_ in _loads(c)} & set(rt_params)
    user_params = [p_ for p_ in rt_params[1:] if p_ not in internal_params and p_ not in loader_params]
    jinja_seen, jinja_why = None, f"the roles of its parameters were not located (internal variables: {sorted(internal_params)}, loader: {sorted(loader_params)}, user variables: {user_params})"
    if len(internal_params) == 1 and len(user_params) == 1:
        try:
            jinja_seen = jinja_run({rt_params[0]: "template-source-marker", user_params[0]: {"bulk_size": 5000, "now": "the user's `now`"},
                                    next(iter(internal_params)): {"globals": {"now": "Rally's `now`", "glob": "Rally's `glob`"}, "filters": {"days_ago": "Rally's `days_ago`"}},
                                    **{p_: Opaque("input", "the track's loader") for p_ in loader_params}})
        except CannotEval as e:
            jinja_why = str(e)
    if jinja_seen is not None:
        got_ = [(seen_by(r_, "bulk_size", "main"), seen_by(r_, "bulk_size", "imported")) for r_ in jinja_seen]
        ok = all(a_ == 5000 and b_ == 5000 for a_, b_ in got_)
        how_ = sorted({ns_ for r_ in jinja_seen for ns_ in ("context", "template", "globals") if "bulk_size" in r_[ns_]})
        names_ = {"context": "the render context of the top-level template", "template": "template-level globals of the top-level template", "globals": "the environment's globals"}
        chk.ob("O10.6", "track parameters are substituted in EVERY template of the rendering: the track file and its included parts, and the templates it imports (their macros see the "
               "environment's globals only)", ok, rt,
               f"render_template interpreted on the user parameter bulk_size=5000: handed to Jinja as {[names_[x_] for x_ in how_] or 'nothing'}" + ("" if ok else
               f"; the track file / an imported template see {['nothing' if x_ is _MISSING else x_ for x_ in got_[0]]} - {{% import %}} / {{% from ... import %}} (without context) pass on the environment's "
               "globals only, so macros of an imported part silently render with their default(...) values while the parameter counts as used")[:420],
               key=f"{_L}:render_template:user-variables-visible-in-imported-templates")

    iv = [n for n, o in writes if o & internal_params]
    uv = [n for n, o in writes if o and not (o & internal_params)]
    if jinja_seen is not None:
        # decided on the values above: in every template of the rendering the name `now` (given by the user AND by Rally) and the filter `days_ago` are Rally's
        got_ = [(seen_by(r_, "now", "main"), seen_by(r_, "now", "imported"), r_["filters"].get("days_ago", _MISSING)) for r_ in jinja_seen]
        ok = all(g_ == ("Rally's `now`", "Rally's `now`", "Rally's `days_ago`") for g_ in got_)
        chk.ob("O10.6", "internal template variables are applied after (and so win over) user variables", ok, iv[0] if iv else rt,
               "" if ok else f"with a track parameter `now` given by the user the track file / an imported template / the filter `days_ago` resolve to {['nothing' if x_ is _MISSING else x_ for x_ in got_[0]]}: "
               "a track parameter named like an internal variable overrides it (or Rally's variable is not installed)")
    elif len(internal_params) != 1 or not iv or not uv:
        chk.unknown("O10.6", f"the statements of render_template that store the user's and Rally's internal variables in the Jinja environment were not both located "
                    f"(internal-variables parameter: {sorted(internal_params)}; {len(iv)} internal / {len(uv)} user write(s) of {len(writes)})", rt)
    else:
        late = [(short(a, 40), short(b, 40)) for a in iv for b in uv if g.path_exists(g.node_of(a), g.node_of(b))]
        chk.ob("O10.6", "internal template variables are applied after (and so win over) user variables", not late, iv[0],
               "" if not late else f"after `{late[0][0]}` the user's variables are still written by `{late[0][1]}`: a track parameter named like an internal variable overrides it")
        # (render_template could not be interpreted on values: {jinja_why}) the user's variables are stored in a namespace of the environment - is it its globals?
        ns_ = {(t_.value.attr if isinstance(t_.value, ast.Attribute) else None) for n_ in uv
               for t_ in [n_.targets[0] if isinstance(n_, ast.Assign) else n_.value.func] if isinstance(t_, (ast.Subscript, ast.Attribute))}
        if ns_ == {"globals"}:
            chk.ob("O10.6", "track parameters are substituted in EVERY template of the rendering: the track file and its included parts, and the templates it imports (their macros see the "
                   "environment's globals only)", True, uv[0], f"the user's variables are stored in `{env_local}.globals` ({len(uv)} statement(s))",
                   key=f"{_L}:render_template:user-variables-visible-in-imported-templates")
        else:
            chk.unknown("O10.6", f"render_template cannot be interpreted on representative variables ({jinja_why[:120]}) and the namespace its {len(uv)} user write(s) store into is not recognised", uv[0])


from sa.selftest import V  # noqa: E402

# the whole string->member method of OperationType as it stands on the pinned tree (regular expression: the chain is replaced as one piece)
_FH_RE = (r"    # pylint: disable=too-many-return-statements\n    @classmethod\n    def from_hyphenated_string\(cls, v\):\n.*?"
          r"raise KeyError\(f\"No enum value for \[\{v\}\]\"\)\n")

# the five inheritable keys of parse_task written as keyword arguments (old) / read through a table and spread with ** (new, the two iteration defaults as given)
_KW_OLD = ("            warmup_iterations=self._r(\n                task_spec, \"warmup-iterations\", error_ctx=op.name, mandatory=False, default_value=default_warmup_iterations\n            ),\n"
           "            iterations=self._r(task_spec, \"iterations\", error_ctx=op.name, mandatory=False, default_value=default_iterations),\n"
           "            warmup_time_period=self._r(\n                task_spec, \"warmup-time-period\", error_ctx=op.name, mandatory=False, default_value=default_warmup_time_period\n            ),\n"
           "            time_period=self._r(task_spec, \"time-period\", error_ctx=op.name, mandatory=False, default_value=default_time_period),\n"
           "            ramp_up_time_period=self._r(\n                task_spec, \"ramp-up-time-period\", error_ctx=op.name, mandatory=False, default_value=default_ramp_up_time_period\n            ),\n")
_KW_TABLE = ("        inheritable = {\n            \"warmup_iterations\": (\"warmup-iterations\", %s),\n            \"iterations\": (\"iterations\", %s),\n"
             "            \"warmup_time_period\": (\"warmup-time-period\", default_warmup_time_period),\n            \"time_period\": (\"time-period\", default_time_period),\n"
             "            \"ramp_up_time_period\": (\"ramp-up-time-period\", default_ramp_up_time_period),\n        }\n"
             "        inherited = {param: self._r(task_spec, key, error_ctx=op.name, mandatory=False, default_value=default) for param, (key, default) in inheritable.items()}\n"
             "        task = track.Task(\n            name=task_name,\n            operation=op,\n            **inherited,\n")

_OPS_OLD = ("        ops = {}\n        for op_spec in ops_specs:\n            op = self.parse_operation(op_spec)\n            if op.name in ops:\n"
            "                self._error(\"Duplicate operation with name '%s'.\" % op.name)\n            else:\n                ops[op.name] = op\n")
_OPS_MAP = ("        ops: dict[str, track.Operation] = {}\n        for op in %s:\n            if op.name in ops:\n                self._error(\"Duplicate operation with name '%%s'.\" %% op.name)\n"
            "            %s\n")
_OPS_WHILE = ("        ops = {}\n        pending = list(ops_specs)\n        while pending:\n            op = self.parse_operation(pending.pop(0))\n            if op.name in ops:\n"
              "                self._error(\"Duplicate operation with name '%%s'.\" %% op.name)\n            %s\n")
_TASK_MSG = "\"Challenge '%s' contains multiple tasks with the name '%s'. Please use the task's name property to assign a unique name for each task.\""
_TASK_DEDUPE = ("            for task in schedule:\n                for sub_task in task:\n                    if sub_task.name in known_task_names:\n                        self._error(\n"
                "                            \"Challenge '%s' contains multiple tasks with the name '%s'. Please use the task's name property to \"\n"
                "                            \"assign a unique name for each task.\" % (name, sub_task.name)\n                        )\n                    else:\n"
                "                        known_task_names.add(sub_task.name)\n")
_TASK_WHILE = ("            idx = 0\n            flat_tasks = [sub_task for task in schedule for sub_task in task]\n            while idx < len(flat_tasks):\n                sub_task = flat_tasks[idx]\n"
               "                if sub_task.name in known_task_names:\n                    self._error(" + _TASK_MSG.replace("%", "%%") + " %% (name, sub_task.name))\n"
               "                known_task_names.add(sub_task.name)\n                idx += %s\n")
_SUBTASKS_OLD = ("        tasks = []\n        for task in self._r(ops_spec, \"tasks\", error_ctx=\"parallel\"):\n            tasks.append(\n                self.parse_task(\n                    task,\n"
                 "                    ops,\n                    challenge_name,\n                    default_warmup_iterations,\n                    default_iterations,\n"
                 "                    default_warmup_time_period,\n                    default_time_period,\n                    default_ramp_up_time_period,\n"
                 "                    completed_by,\n                )\n            )\n")
_COUNT_OLD = "count_defined = len(list(filter(lambda e: e is not None, [schedule, challenge, challenges])))"
_USER_GLOBALS = "    if template_vars:\n        for k, v in template_vars.items():\n            env.globals[k] = v\n    # ensure that user variables never override our internal variables\n"
_RENDER_OLD = "    template = env.from_string(template_source)\n    return template.render()\n"
_INLINE_OP = "            op = self.parse_operation(op_spec, error_ctx=\"inline operation in challenge %s\" % challenge_name)\n"
_CORPUS_DEDUPE = ("            if name in known_corpora_names:\n                self._error(\"Duplicate document corpus name [%s].\" % name)\n            known_corpora_names.add(name)\n")
_CORPUS_CTOR = "            corpus = track.DocumentCorpus(name=name, meta_data=meta_data)\n"

_DOC_BASE_URL_DEFAULT = "            default_base_url = self._r(corpus_spec, \"base-url\", mandatory=False, default_value=None)\n"
_DOC_BASE_URL = "                base_url = self._r(doc_spec, \"base-url\", mandatory=False, default_value=default_base_url)\n"
VARIANTS = [
    V("one registry arm dropped", "break", _T, "        elif v == \"bulk\":\n            return OperationType.Bulk\n", "", "O10.1"),
    V("duplicate literal", "break", _T, "        elif v == \"node-stats\":\n            return OperationType.NodeStats", "        elif v == \"index-stats\":\n            return OperationType.NodeStats", "O10.1"),
    V("literal returns another member", "break", _T, "        elif v == \"scroll-search\":\n            return OperationType.ScrollSearch", "        elif v == \"scroll-search\":\n            return OperationType.Search", "O10.1"),
    V("warmup-iterations/iterations keys swapped", "break", _L, "            iterations=self._r(task_spec, \"iterations\", error_ctx=op.name, mandatory=False, default_value=default_iterations),", "            iterations=self._r(task_spec, \"warmup-iterations\", error_ctx=op.name, mandatory=False, default_value=default_iterations),", "O10.2"),
    V("wrong default for warmup-iterations", "break", _L, "                task_spec, \"warmup-iterations\", error_ctx=op.name, mandatory=False, default_value=default_warmup_iterations", "                task_spec, \"warmup-iterations\", error_ctx=op.name, mandatory=False, default_value=default_iterations", "O10.2"),
    V("parallel passes defaults in the wrong order", "break", _L, "                    default_warmup_time_period,\n                    default_time_period,\n                    default_ramp_up_time_period,", "                    default_time_period,\n                    default_warmup_time_period,\n                    default_ramp_up_time_period,", "O10.2"),
    V("compressed/uncompressed bytes swapped", "break", _L, "                        compressed_size_in_bytes=compressed_bytes,\n                        uncompressed_size_in_bytes=uncompressed_bytes,", "                        compressed_size_in_bytes=uncompressed_bytes,\n                        uncompressed_size_in_bytes=compressed_bytes,", "O10.2"),
    V("_error only logs", "break", _L, "        raise TrackSyntaxError(\"Track '%s' is invalid. %s\" % (self.name, msg))", "        logging.getLogger(__name__).error(\"Track '%s' is invalid. %s\", self.name, msg)", "O10.3"),
    V("validation error swallowed", "break", _L, "        except jsonschema.exceptions.ValidationError as ve:\n            raise TrackSyntaxError(", "        except jsonschema.exceptions.ValidationError as ve:\n            self.logger.warning(", "O10.4"),
    V("dedupe add removed (task names)", "break", _L, "                    else:\n                        known_task_names.add(sub_task.name)", "                    else:\n                        pass", "O10.5"),
    V("dedupe add removed (challenge names)", "break", _L, "            known_challenge_names.add(name)\n", "", "O10.5"),
    V("seed m3: ramp-up rule needs both iteration fields", "break", _L, "        if (task.warmup_iterations is not None or task.iterations is not None) and task.ramp_up_time_period is not None:", "        if task.warmup_iterations is not None and task.iterations is not None and task.ramp_up_time_period is not None:", "O10.5"),
    V("or -> and in a mixing rule", "break", _L, "        if task.warmup_iterations is not None and task.time_period is not None:", "        if task.warmup_iterations is not None and task.time_period is not None and task.iterations is not None:", "O10.5"),
    V("ramp-up may exceed warm-up", "break", _L, "            elif task.warmup_time_period < task.ramp_up_time_period:", "            elif task.warmup_time_period < 0:", "O10.5"),
    V("unused parameters only logged", "break", _L, "            raise exceptions.TrackConfigError(f\"Unused track parameters {sorted(unused_user_defined_track_params)}.\")", "            pass", "O10.5"),
    V("no registration for included templates", "break", _L, "        self.logger.info(\"Loading template [%s].\", description)\n        register_all_params_in_track(contents, self.complete_track_params)", "        self.logger.info(\"Loading template [%s].\", description)", "O10.6"),
    V("seed m2: nested includes relative to the outer base", "break", _L, "                repl[glob_pattern] = self.replace_includes(base_path=io.dirname(full_glob_path), track_fragment=sub_source)", "                repl[glob_pattern] = self.replace_includes(base_path=base_path, track_fragment=sub_source)", "O10.6"),
    V("seed m1: default filter in boolean mode", "break", _L, "{{ value | default(default_value) | tojson }}", "{{ value | default(default_value, true) | tojson }}", "O10.6"),
    V("version window: maximum check compares the wrong way", "break", _L, "        if TrackFileReader.MAXIMUM_SUPPORTED_TRACK_VERSION < track_version:", "        if TrackFileReader.MAXIMUM_SUPPORTED_TRACK_VERSION > track_version:", "O10.4"),
    V("version window: minimum itself rejected", "break", _L, "        if TrackFileReader.MINIMUM_SUPPORTED_TRACK_VERSION > track_version:", "        if TrackFileReader.MINIMUM_SUPPORTED_TRACK_VERSION >= track_version:", "O10.4"),
    V("another spec validated than the one built", "break", _L, "            jsonschema.validate(track_spec, self.track_schema)", "            jsonschema.validate({}, self.track_schema)", "O10.4"),
    V("second default challenge only rejected when selected", "break", _L, "            if default and default_challenge is not None:", "            if default and default_challenge is not None and selected:", "O10.5"),
    V("indices OR data streams rejected", "break", _L, "        if len(indices) > 0 and len(data_streams) > 0:\n            # we guard", "        if len(indices) > 0 or len(data_streams) > 0:\n            # we guard", "O10.5"),
    V("sub-task ramp-up compared with another default", "break", _L, "            if task.ramp_up_time_period != default_ramp_up_time_period:", "            if task.ramp_up_time_period != default_time_period:", "O10.5"),
    V("missing completed-by task check inverted", "break", _L, "            if not has_completion_task:", "            if has_completion_task:", "O10.5"),
    V("Parallel built from another list", "break", _L, "        return track.Parallel(tasks, clients)", "        return track.Parallel(ops, clients)", "O10.2"),
    V("task gets the operation table instead of the operation", "break", _L, "            operation=op,\n", "            operation=ops,\n", "O10.2"),
    # F35 (repaired in rally f556e67): corpus-level target-index / target-data-stream / target-type are read whatever the track's own indices / data-streams sections contain
    V("F35 reverted: corpus-level target-index only read when the track defines indices", "break", _L,
      "            else:\n                corpus_target_idx = self._r(corpus_spec, \"target-index\", mandatory=False)",
      "            elif len(indices) > 0:\n                corpus_target_idx = self._r(corpus_spec, \"target-index\", mandatory=False)", "O10.2"),
    V("F35 reverted: corpus-level target-data-stream only read when the track defines data streams", "break", _L,
      "            else:\n                corpus_target_ds = self._r(corpus_spec, \"target-data-stream\", mandatory=False)",
      "            elif len(data_streams) > 0:\n                corpus_target_ds = self._r(corpus_spec, \"target-data-stream\", mandatory=False)", "O10.2"),
    V("F35 reverted: corpus-level target-type only read when the track defines indices", "break", _L,
      "            else:\n                corpus_target_type = self._r(corpus_spec, \"target-type\", mandatory=False)",
      "            elif len(indices) > 0:\n                corpus_target_type = self._r(corpus_spec, \"target-type\", mandatory=False)", "O10.2"),
    V("F35 equivalent break: corpus-level target-type reset after it was read", "break", _L,
      "                corpus_target_type = self._r(corpus_spec, \"target-type\", mandatory=False)\n",
      "                corpus_target_type = self._r(corpus_spec, \"target-type\", mandatory=False)\n            if len(indices) == 0:\n                corpus_target_type = None\n", "O10.2"),
    # F36 (repaired in rally b7e7eb0): the operations block of the schema accepts the documented pages: "all" and a list of index names
    V("F36 reverted: pages of the operations block is an integer only", "break", _S, "\"anyOf\": [{\"type\": \"integer\", \"minimum\": 1}, {\"enum\": [\"all\"]}],",
      "\"type\": \"integer\",\n            \"minimum\": 1,", "O10.4"),
    V("F36 reverted: index of the operations block is a string only", "break", _S, "\"anyOf\": [{\"type\": \"string\"}, {\"type\": \"array\", \"items\": {\"type\": \"string\"}}],",
      "\"type\": \"string\",", "O10.4"),
    V("F36 equivalent break: the list form of index needs two entries and integers", "break", _S, "\"anyOf\": [{\"type\": \"string\"}, {\"type\": \"array\", \"items\": {\"type\": \"string\"}}],",
      "\"anyOf\": [{\"type\": \"string\"}, {\"type\": \"array\", \"items\": {\"type\": \"integer\"}}],", "O10.4"),
    # preserving
    V("F35 respelled: else -> elif with the complementary test", "keep", _L,
      "            else:\n                corpus_target_idx = self._r(corpus_spec, \"target-index\", mandatory=False)",
      "            elif len(indices) != 1:\n                corpus_target_idx = self._r(corpus_spec, \"target-index\", mandatory=False)"),
    V("F35 respelled: arms swapped under the inverted test", "keep", _L,
      "            if len(data_streams) == 1:\n                corpus_target_ds = self._r(corpus_spec, \"target-data-stream\", mandatory=False, default_value=data_streams[0].name)\n"
      "            else:\n                corpus_target_ds = self._r(corpus_spec, \"target-data-stream\", mandatory=False)\n",
      "            if len(data_streams) != 1:\n                corpus_target_ds = self._r(corpus_spec, \"target-data-stream\", mandatory=False)\n"
      "            else:\n                corpus_target_ds = self._r(corpus_spec, \"target-data-stream\", mandatory=False, default_value=data_streams[0].name)\n"),
    V("F35 respelled: size of the section held in a local, De Morgan in the else test", "keep", _L,
      "            if len(indices) == 1 and len(indices[0].types) == 1:\n                corpus_target_type = self._r(corpus_spec, \"target-type\", mandatory=False, default_value=indices[0].types[0])\n            else:\n",
      "            if len(indices) == 1 and len(indices[0].types) == 1:\n                corpus_target_type = self._r(corpus_spec, \"target-type\", mandatory=False, default_value=indices[0].types[0])\n"
      "            elif len(indices) != 1 or len(indices[0].types) != 1:\n"),
    V("F36 respelled: oneOf / string pattern instead of anyOf / enum", "keep", _S, "\"anyOf\": [{\"type\": \"integer\", \"minimum\": 1}, {\"enum\": [\"all\"]}],",
      "\"oneOf\": [{\"type\": \"integer\", \"minimum\": 1}, {\"type\": \"string\", \"pattern\": \"^all$\"}],"),
    V("F36 respelled: type list instead of anyOf", "keep", _S, "\"anyOf\": [{\"type\": \"string\"}, {\"type\": \"array\", \"items\": {\"type\": \"string\"}}],",
      "\"type\": [\"string\", \"array\"], \"items\": {\"type\": \"string\"},"),
    V("registry literal on the left", "keep", _T, "        elif v == \"bulk\":", "        elif \"bulk\" == v:"),
    V("registry chain split into separate ifs", "keep", _T, "        elif v == \"bulk\":", "        if v == \"bulk\":"),
    V("version window via negated <=", "keep", _L, "        if TrackFileReader.MINIMUM_SUPPORTED_TRACK_VERSION > track_version:", "        if not (TrackFileReader.MINIMUM_SUPPORTED_TRACK_VERSION <= track_version):"),
    V("reserved parameters tested by truthiness", "keep", _L, "        if len(internal_user_defined_track_params) > 0:", "        if internal_user_defined_track_params:"),
    V("keyword arguments in Parallel(...) / validate(...)", "keep", _L, "        return track.Parallel(tasks, clients)", "        return track.Parallel(clients=clients, tasks=tasks)"),
    V("second-default test operands swapped", "keep", _L, "            if default and default_challenge is not None:", "            if default_challenge is not None and default:"),
    V("missing completed-by task check with inverted arms", "keep", _L, "            if not has_completion_task:\n                self._error(", "            if has_completion_task:\n                pass\n            else:\n                self._error("),
    V("keyword reorder in Task(...)", "keep", _L, "            name=task_name,\n            operation=op,", "            operation=op,\n            name=task_name,"),
    V("mixing rule operands swapped", "keep", _L, "        if task.warmup_iterations is not None and task.time_period is not None:", "        if task.time_period is not None and task.warmup_iterations is not None:"),
    V("De Morgan in the ramp-up rule", "keep", _L, "        if (task.warmup_iterations is not None or task.iterations is not None) and task.ramp_up_time_period is not None:", "        if not (task.warmup_iterations is None and task.iterations is None) and task.ramp_up_time_period is not None:"),
    # ---- hardening round 2: refactored shapes that the value-decided rules accept (keep) and the same shapes with the defect inside (break) ----
    V("schedule built by a comprehension", "keep", _L,
      "            schedule = []\n\n            for op in self._r(challenge_spec, \"schedule\", error_ctx=name):\n                if \"parallel\" in op:\n                    task = self.parse_parallel(op[\"parallel\"], ops, name)\n"
      "                else:\n                    task = self.parse_task(op, ops, name)\n                schedule.append(task)\n",
      "            schedule = [\n                self.parse_parallel(op[\"parallel\"], ops, name) if \"parallel\" in op else self.parse_task(op, ops, name)\n"
      "                for op in self._r(challenge_spec, \"schedule\", error_ctx=name)\n            ]\n"),
    V("schedule elements prepended instead of appended", "break", _L, "                schedule.append(task)\n", "                schedule.insert(0, task)\n", "O10.2"),
    V("parallel elements parsed from the whole schedule element", "break", _L, "task = self.parse_parallel(op[\"parallel\"], ops, name)", "task = self.parse_parallel(op, ops, name)", "O10.2"),
    [V("schedule parsing extracted into a helper that drops the last element", "break", _L,
       "            for op in self._r(challenge_spec, \"schedule\", error_ctx=name):\n                if \"parallel\" in op:\n                    task = self.parse_parallel(op[\"parallel\"], ops, name)\n"
       "                else:\n                    task = self.parse_task(op, ops, name)\n                schedule.append(task)\n",
       "            schedule = self._parse_schedule(self._r(challenge_spec, \"schedule\", error_ctx=name), ops, name)\n", "O10.2"),
     V("", "break", _L, "    def _get_challenge_specs(self, track_spec):\n",
       "    def _parse_schedule(self, schedule_spec, ops, challenge_name):\n        schedule = []\n        for op in schedule_spec[:-1]:\n            if \"parallel\" in op:\n"
       "                task = self.parse_parallel(op[\"parallel\"], ops, challenge_name)\n            else:\n                task = self.parse_task(op, ops, challenge_name)\n"
       "            schedule.append(task)\n        return schedule\n\n    def _get_challenge_specs(self, track_spec):\n")],
    [V("task-name check extracted into a helper that is handed another list", "break", _L,
       "            known_task_names = set()\n            for task in schedule:\n                for sub_task in task:\n                    if sub_task.name in known_task_names:\n"
       "                        self._error(\n                            \"Challenge '%s' contains multiple tasks with the name '%s'. Please use the task's name property to \"\n"
       "                            \"assign a unique name for each task.\" % (name, sub_task.name)\n                        )\n                    else:\n"
       "                        known_task_names.add(sub_task.name)\n",
       "            self._check_unique_task_names(schedule[:1], name)\n", "O10.5"),
     V("", "break", _L, "    def _get_challenge_specs(self, track_spec):\n",
       "    def _check_unique_task_names(self, tasks_to_check, challenge_name):\n        known_task_names = set()\n        for task in tasks_to_check:\n            for sub_task in task:\n"
       "                if sub_task.name in known_task_names:\n                    self._error(\"Challenge '%s' contains multiple tasks with the name '%s'. Please assign a unique name for each task.\" % (challenge_name, sub_task.name))\n"
       "                known_task_names.add(sub_task.name)\n\n    def _get_challenge_specs(self, track_spec):\n")],
    V("sub-tasks handed to Parallel in reverse order", "break", _L, "        return track.Parallel(tasks, clients)", "        return track.Parallel(tasks[::-1], clients)", "O10.2"),
    V("corpus dedupe by comparing the size of the set before and after adding", "keep", _L,
      "            if name in known_corpora_names:\n                self._error(\"Duplicate document corpus name [%s].\" % name)\n            known_corpora_names.add(name)\n",
      "            n_known = len(known_corpora_names)\n            known_corpora_names.add(name)\n            if len(known_corpora_names) == n_known:\n                self._error(\"Duplicate document corpus name [%s].\" % name)\n"),
    V("corpus name remembered before it is looked up", "break", _L,
      "            if name in known_corpora_names:\n                self._error(\"Duplicate document corpus name [%s].\" % name)\n            known_corpora_names.add(name)\n",
      "            known_corpora_names.add(name)\n            if name in known_corpora_names:\n                self._error(\"Duplicate document corpus name [%s].\" % name)\n", "O10.5"),
    V("operation dedupe via dict.get", "keep", _L,
      "            if op.name in ops:\n                self._error(\"Duplicate operation with name '%s'.\" % op.name)\n            else:\n                ops[op.name] = op",
      "            if ops.get(op.name) is not None:\n                self._error(\"Duplicate operation with name '%s'.\" % op.name)\n            ops[op.name] = op"),
    V("operations table keyed by something else than the name that is looked up", "break", _L, "                ops[op.name] = op", "                ops[op.type] = op", "O10.5"),
    [V("challenge dedupe in a helper called from the loop", "keep", _L,
       "            if name in known_challenge_names:\n                self._error(\"Duplicate challenge with name '%s'.\" % name)\n            known_challenge_names.add(name)\n",
       "            self._remember_challenge(name, known_challenge_names)\n"),
     V("", "keep", _L, "    def _get_challenge_specs(self, track_spec):\n",
       "    def _remember_challenge(self, challenge_name, known):\n        if challenge_name in known:\n            self._error(\"Duplicate challenge with name '%s'.\" % challenge_name)\n"
       "        known.add(challenge_name)\n\n    def _get_challenge_specs(self, track_spec):\n")],
    [V("challenge dedupe in a helper that forgets to remember the name", "break", _L,
       "            if name in known_challenge_names:\n                self._error(\"Duplicate challenge with name '%s'.\" % name)\n            known_challenge_names.add(name)\n",
       "            self._remember_challenge(name, known_challenge_names)\n", "O10.5"),
     V("", "break", _L, "    def _get_challenge_specs(self, track_spec):\n",
       "    def _remember_challenge(self, challenge_name, known):\n        if challenge_name in known:\n            self._error(\"Duplicate challenge with name '%s'.\" % challenge_name)\n"
       "\n    def _get_challenge_specs(self, track_spec):\n")],
    V("registry: the first two arms become a table lookup", "keep", _T,
      "        if v == \"force-merge\":\n            return OperationType.ForceMerge\n        elif v == \"index-stats\":\n            return OperationType.IndexStats\n        elif v == \"node-stats\":",
      "        first = {\"force-merge\": OperationType.ForceMerge, \"index-stats\": OperationType.IndexStats}\n        if v in first:\n            return first[v]\n        elif v == \"node-stats\":"),
    V("registry: a table entry names another member", "break", _T,
      "        if v == \"force-merge\":\n            return OperationType.ForceMerge\n        elif v == \"index-stats\":\n            return OperationType.IndexStats\n        elif v == \"node-stats\":",
      "        first = {\"force-merge\": OperationType.ForceMerge, \"index-stats\": OperationType.NodeStats}\n        if v in first:\n            return first[v]\n        elif v == \"node-stats\":", "O10.1"),
    V("hyphenation via a regular loop instead of the comprehension", "keep", _T,
      "        return \"\".join([\"-\" + c.lower() if c.isupper() else c for c in self.name]).lstrip(\"-\")",
      "        out = \"\"\n        for c in self.name:\n            out += \"-\" + c.lower() if c.isupper() else c\n        return out.lstrip(\"-\")"),
    V("hyphenation keeps the leading hyphen", "break", _T,
      "        return \"\".join([\"-\" + c.lower() if c.isupper() else c for c in self.name]).lstrip(\"-\")",
      "        return \"\".join([\"-\" + c.lower() if c.isupper() else c for c in self.name])", "O10.1"),
    V("two default runners registered from a table", "keep", _R,
      "    register_runner(track.OperationType.ClusterHealth, Retry(ClusterHealth()), async_runner=True)\n    register_runner(track.OperationType.PutPipeline, Retry(PutPipeline()), async_runner=True)\n",
      "    for op_type, admin_runner in {track.OperationType.ClusterHealth: ClusterHealth(), track.OperationType.PutPipeline: PutPipeline()}.items():\n"
      "        register_runner(op_type, Retry(admin_runner), async_runner=True)\n"),
    V("a table-driven registration names no member", "break", _R,
      "    register_runner(track.OperationType.ClusterHealth, Retry(ClusterHealth()), async_runner=True)\n    register_runner(track.OperationType.PutPipeline, Retry(PutPipeline()), async_runner=True)\n",
      "    for op_type, admin_runner in {track.OperationType.ClusterHealth: ClusterHealth(), track.OperationType.PutPipelines: PutPipeline()}.items():\n"
      "        register_runner(op_type, Retry(admin_runner), async_runner=True)\n", "O10.1"),
    V("corpus-level target-index fallback computed up front (conditional expression)", "keep", _L,
      "            if len(indices) == 1:\n                corpus_target_idx = self._r(corpus_spec, \"target-index\", mandatory=False, default_value=indices[0].name)\n"
      "            else:\n                corpus_target_idx = self._r(corpus_spec, \"target-index\", mandatory=False)\n",
      "            only_index = indices[0] if len(indices) == 1 else None\n"
      "            corpus_target_idx = self._r(corpus_spec, \"target-index\", mandatory=False, default_value=only_index.name if only_index is not None else None)\n"),
    V("corpus-level target-index fallback computed up front from the first of several indices", "break", _L,
      "            if len(indices) == 1:\n                corpus_target_idx = self._r(corpus_spec, \"target-index\", mandatory=False, default_value=indices[0].name)\n"
      "            else:\n                corpus_target_idx = self._r(corpus_spec, \"target-index\", mandatory=False)\n",
      "            only_index = indices[0] if len(indices) >= 1 else None\n"
      "            corpus_target_idx = self._r(corpus_spec, \"target-index\", mandatory=False, default_value=only_index.name if only_index is not None else None)\n", "O10.2"),
    V("template variables stored with dict.update", "keep", _L,
      "        for k, v in template_vars.items():\n            env.globals[k] = v\n    # ensure that user variables never override our internal variables\n    if template_internal_vars:\n"
      "        for macro_type in template_internal_vars:\n            for env_global_key, env_global_value in template_internal_vars[macro_type].items():\n"
      "                getattr(env, macro_type)[env_global_key] = env_global_value\n\n    template = env.from_string(template_source)",
      "        env.globals.update(template_vars)\n    # ensure that user variables never override our internal variables\n    if template_internal_vars:\n"
      "        for env_attribute, internal_vars in template_internal_vars.items():\n            getattr(env, env_attribute).update(internal_vars)\n\n    template = env.from_string(template_source)"),
    V("template variables stored with dict.update, the user's last", "break", _L,
      "    if template_vars:\n        for k, v in template_vars.items():\n            env.globals[k] = v\n    # ensure that user variables never override our internal variables\n    if template_internal_vars:\n"
      "        for macro_type in template_internal_vars:\n            for env_global_key, env_global_value in template_internal_vars[macro_type].items():\n"
      "                getattr(env, macro_type)[env_global_key] = env_global_value\n\n    template = env.from_string(template_source)",
      "    if template_internal_vars:\n        for env_attribute, internal_vars in template_internal_vars.items():\n            getattr(env, env_attribute).update(internal_vars)\n"
      "    if template_vars:\n        env.globals.update(template_vars)\n\n    template = env.from_string(template_source)", "O10.6"),
    V("task validation extracted into a helper", "keep", _L,
      "            params=task_spec,\n        )\n        if task.warmup_iterations is not None and task.time_period is not None:",
      "            params=task_spec,\n        )\n        self._check_task(task, op, challenge_name)\n        return task\n\n    def _check_task(self, task, op, challenge_name):\n"
      "        if task.warmup_iterations is not None and task.time_period is not None:"),
    [V("task validation extracted into a helper, one rule weakened there", "break", _L,
       "            params=task_spec,\n        )\n        if task.warmup_iterations is not None and task.time_period is not None:",
       "            params=task_spec,\n        )\n        self._check_task(task, op, challenge_name)\n        return task\n\n    def _check_task(self, task, op, challenge_name):\n"
       "        if task.warmup_iterations is not None and task.time_period is not None:", "O10.5"),
     V("", "break", _L, "            elif task.warmup_time_period < task.ramp_up_time_period:", "            elif task.warmup_time_period < 0:")],
    [V("optional task keys read through a helper", "keep", _L,
       "            iterations=self._r(task_spec, \"iterations\", error_ctx=op.name, mandatory=False, default_value=default_iterations),",
       "            iterations=self._optional(task_spec, \"iterations\", op, default_iterations),"),
     V("", "keep", _L, "    def parse_operations(self, ops_specs):\n",
       "    def _optional(self, spec, key, op, default):\n        return self._r(spec, key, error_ctx=op.name, mandatory=False, default_value=default)\n\n    def parse_operations(self, ops_specs):\n")],
    [V("optional task keys read through a helper that drops the inherited default", "break", _L,
       "            iterations=self._r(task_spec, \"iterations\", error_ctx=op.name, mandatory=False, default_value=default_iterations),",
       "            iterations=self._optional(task_spec, \"iterations\", op, default_iterations),", "O10.2"),
     V("", "break", _L, "    def parse_operations(self, ops_specs):\n",
       "    def _optional(self, spec, key, op, default):\n        return self._r(spec, key, error_ctx=op.name, mandatory=False, default_value=None)\n\n    def parse_operations(self, ops_specs):\n")],
    [V("second-default check extracted into a helper", "keep", _L,
       "            if default and default_challenge is not None:\n                self._error(\n                    \"Both '%s' and '%s' are defined as default challenges. Please define only one of them as default.\"\n"
       "                    % (default_challenge.name, name)\n                )\n",
       "            self._check_single_default(default, default_challenge, name)\n"),
     V("", "keep", _L, "    def _get_challenge_specs(self, track_spec):\n",
       "    def _check_single_default(self, is_default, previous_default, challenge_name):\n        if not is_default or previous_default is None:\n            return\n"
       "        self._error(\"Both '%s' and '%s' are defined as default challenges. Please define only one of them as default.\" % (previous_default.name, challenge_name))\n\n"
       "    def _get_challenge_specs(self, track_spec):\n")],
    [V("indices / data-streams exclusion extracted into a helper", "keep", _L,
       "        if len(indices) > 0 and len(data_streams) > 0:\n            # we guard against this early and support either or\n            raise TrackSyntaxError(\"indices and data-streams cannot both be specified\")\n",
       "        self._check_exclusive_targets(indices, data_streams)\n"),
     V("", "keep", _L, "    def _error(self, msg):\n",
       "    def _check_exclusive_targets(self, the_indices, the_data_streams):\n        if the_indices and the_data_streams:\n"
       "            raise TrackSyntaxError(\"indices and data-streams cannot both be specified\")\n\n    def _error(self, msg):\n")],
    V("completed-by rules with list idioms instead of a flag", "keep", _L,
      "            has_completion_task = False\n            for task in tasks:\n                if task.completes_parent and not has_completion_task:\n                    has_completion_task = True\n"
      "                elif task.completes_parent:\n                    self._error(\n",
      "            completing = [t for t in tasks if t.completes_parent]\n            has_completion_task = len(completing) == 1 or (not completing and any(t.any_completes_parent for t in tasks))\n"
      "            for task in completing[1:]:\n                if task.completes_parent:\n                    self._error(\n"),
    V("ambiguous completed-by only looked for among the first two tasks", "break", _L,
      "            has_completion_task = False\n            for task in tasks:\n                if task.completes_parent and not has_completion_task:",
      "            has_completion_task = False\n            for task in tasks[:2]:\n                if task.completes_parent and not has_completion_task:", "O10.5"),
    V("reserved names looked up in a copy of the globals that lacks one of them", "break", _L,
      "        set_internal_params = set(default_internal_template_vars()[\"globals\"].keys())", "        set_internal_params = set(default_internal_template_vars()[\"filters\"].keys())", "O10.5"),
    V("unused parameters computed with a set difference expression", "keep", _L,
      "        set_user_params = set(list(self.user_specified_track_params.keys()))\n        set_user_params.difference_update(self.track_defined_params)\n\n        return list(set_user_params)",
      "        return sorted(set(self.user_specified_track_params) - self.track_defined_params)"),
    V("registrations replace what was registered before", "break", _L, "        self.track_defined_params.update(set(list_of_track_params))", "        self.track_defined_params = set(list_of_track_params)", "O10.6"),
    [V("challenge names collected first, duplicates reported from a count", "keep", _L,
       "        for challenge_spec in challenge_specs:\n            name = self._r(challenge_spec, \"name\", error_ctx=\"challenges\")\n",
       "        names = [self._r(c, \"name\", error_ctx=\"challenges\") for c in challenge_specs]\n        for dup in sorted({n for n in names if names.count(n) > 1}):\n"
       "            self._error(\"Duplicate challenge with name '%s'.\" % dup)\n"
       "        for challenge_spec in challenge_specs:\n            name = self._r(challenge_spec, \"name\", error_ctx=\"challenges\")\n"),
     V("", "keep", _L, "            if name in known_challenge_names:\n                self._error(\"Duplicate challenge with name '%s'.\" % name)\n            known_challenge_names.add(name)\n", "")],
    [V("challenge names collected first, only names occurring three times reported", "break", _L,
       "        for challenge_spec in challenge_specs:\n            name = self._r(challenge_spec, \"name\", error_ctx=\"challenges\")\n",
       "        names = [self._r(c, \"name\", error_ctx=\"challenges\") for c in challenge_specs]\n        for dup in sorted({n for n in names if names.count(n) > 2}):\n"
       "            self._error(\"Duplicate challenge with name '%s'.\" % dup)\n"
       "        for challenge_spec in challenge_specs:\n            name = self._r(challenge_spec, \"name\", error_ctx=\"challenges\")\n", "O10.5"),
     V("", "break", _L, "            if name in known_challenge_names:\n                self._error(\"Duplicate challenge with name '%s'.\" % name)\n            known_challenge_names.add(name)\n", "")],
    V("F18 reverted: the version conversion only handles ValueError", "break", _L,
      "        except (TypeError, ValueError):\n            raise exceptions.InvalidSyntax(\"version identifier", "        except ValueError:\n            raise exceptions.InvalidSyntax(\"version identifier", "O10.4"),
    V("F18 reverted: the version is read from whatever the top-level JSON value is", "break", _L,
      "        raw_version = (\n            track_spec.get(\"version\", TrackFileReader.MAXIMUM_SUPPORTED_TRACK_VERSION)\n            if isinstance(track_spec, dict)\n"
      "            else TrackFileReader.MAXIMUM_SUPPORTED_TRACK_VERSION\n        )\n",
      "        raw_version = track_spec.get(\"version\", TrackFileReader.MAXIMUM_SUPPORTED_TRACK_VERSION)\n", "O10.4"),
    [V("TrackFileReader.read split into version check / validation / build helpers", "keep", _L,
       "        raw_version = (\n            track_spec.get(\"version\", TrackFileReader.MAXIMUM_SUPPORTED_TRACK_VERSION)\n            if isinstance(track_spec, dict)\n"
       "            else TrackFileReader.MAXIMUM_SUPPORTED_TRACK_VERSION\n        )\n        try:\n            track_version = int(raw_version)\n",
       "        self._check_version(track_name, track_spec)\n        self._validate(track_name, track_spec)\n        return self._build(track_name, track_spec, mapping_dir, track_spec_file)\n\n"
       "    def _check_version(self, track_name, track_spec):\n"
       "        raw_version = (\n            track_spec.get(\"version\", TrackFileReader.MAXIMUM_SUPPORTED_TRACK_VERSION)\n            if isinstance(track_spec, dict)\n"
       "            else TrackFileReader.MAXIMUM_SUPPORTED_TRACK_VERSION\n        )\n        try:\n            track_version = int(raw_version)\n"),
     V("", "keep", _L, "            )\n\n        try:\n            jsonschema.validate(track_spec, self.track_schema)\n",
       "            )\n\n    def _validate(self, track_name, track_spec):\n        try:\n            jsonschema.validate(track_spec, self.track_schema)\n"),
     V("", "keep", _L, "        current_track = self.read_track(track_name, track_spec, mapping_dir, track_spec_file)\n",
       "    def _build(self, track_name, track_spec, mapping_dir, track_spec_file):\n        current_track = self.read_track(track_name, track_spec, mapping_dir, track_spec_file)\n")],
    [V("TrackFileReader.read split into helpers, the track built before it is validated", "break", _L,
       "        raw_version = (\n            track_spec.get(\"version\", TrackFileReader.MAXIMUM_SUPPORTED_TRACK_VERSION)\n            if isinstance(track_spec, dict)\n"
       "            else TrackFileReader.MAXIMUM_SUPPORTED_TRACK_VERSION\n        )\n        try:\n            track_version = int(raw_version)\n",
       "        self._check_version(track_name, track_spec)\n        current = self._build(track_name, track_spec, mapping_dir, track_spec_file)\n        self._validate(track_name, track_spec)\n        return current\n\n"
       "    def _check_version(self, track_name, track_spec):\n"
       "        raw_version = (\n            track_spec.get(\"version\", TrackFileReader.MAXIMUM_SUPPORTED_TRACK_VERSION)\n            if isinstance(track_spec, dict)\n"
       "            else TrackFileReader.MAXIMUM_SUPPORTED_TRACK_VERSION\n        )\n        try:\n            track_version = int(raw_version)\n", "O10.4"),
     V("", "break", _L, "            )\n\n        try:\n            jsonschema.validate(track_spec, self.track_schema)\n",
       "            )\n\n    def _validate(self, track_name, track_spec):\n        try:\n            jsonschema.validate(track_spec, self.track_schema)\n"),
     V("", "break", _L, "        current_track = self.read_track(track_name, track_spec, mapping_dir, track_spec_file)\n",
       "    def _build(self, track_name, track_spec, mapping_dir, track_spec_file):\n        current_track = self.read_track(track_name, track_spec, mapping_dir, track_spec_file)\n")],
    [V("registration of an included template moved into a helper", "keep", _L,
       "        self.logger.info(\"Loading template [%s].\", description)\n        register_all_params_in_track(contents, self.complete_track_params)\n",
       "        self.logger.info(\"Loading template [%s].\", description)\n        self._account_for(contents)\n"),
     V("", "keep", _L, "    def _create_corpora(self, corpora_specs, indices, data_streams):\n",
       "    def _account_for(self, template_text):\n        register_all_params_in_track(template_text, self.complete_track_params)\n\n    def _create_corpora(self, corpora_specs, indices, data_streams):\n")],
    [V("registration of an included template moved into a helper that registers only sometimes", "break", _L,
       "        self.logger.info(\"Loading template [%s].\", description)\n        register_all_params_in_track(contents, self.complete_track_params)\n",
       "        self.logger.info(\"Loading template [%s].\", description)\n        self._account_for(contents)\n", "O10.6"),
     V("", "break", _L, "    def _create_corpora(self, corpora_specs, indices, data_streams):\n",
       "    def _account_for(self, template_text):\n        if self.track_params:\n            register_all_params_in_track(template_text, self.complete_track_params)\n\n"
       "    def _create_corpora(self, corpora_specs, indices, data_streams):\n")],
    # ---- hardening round 3: the string->member direction written without the chain (benign/C10-b5 and further shapes), the enum interpreted from its ClassDef ----
    V("registry: lookup in a table derived from the members at module level", "keep", _T, _FH_RE,
      "    @classmethod\n    def from_hyphenated_string(cls, v):\n        try:\n            return _BY_NAME[v]\n        except (KeyError, TypeError):\n"
      "            raise KeyError(f\"No enum value for [{v}]\") from None\n\n\n_BY_NAME = {op_type.to_hyphenated_string(): op_type for op_type in OperationType}\n", regex=True),
    V("registry: derived table keyed by the lower-cased member name", "break", _T, _FH_RE,
      "    @classmethod\n    def from_hyphenated_string(cls, v):\n        try:\n            return _BY_NAME[v]\n        except (KeyError, TypeError):\n"
      "            raise KeyError(f\"No enum value for [{v}]\") from None\n\n\n_BY_NAME = {op_type.name.lower(): op_type for op_type in OperationType}\n", "O10.1", regex=True),
    V("registry: derived table, unknown names answered with None", "break", _T, _FH_RE,
      "    @classmethod\n    def from_hyphenated_string(cls, v):\n        return _BY_NAME.get(v)\n\n\n_BY_NAME = {op_type.to_hyphenated_string(): op_type for op_type in OperationType}\n", "O10.1", regex=True),
    V("registry: search loop over the members", "keep", _T, _FH_RE,
      "    @classmethod\n    def from_hyphenated_string(cls, v):\n        for op_type in cls:\n            if op_type.to_hyphenated_string() == v:\n                return op_type\n"
      "        raise KeyError(f\"No enum value for [{v}]\")\n", regex=True),
    V("registry: search loop that skips the administrative operations", "break", _T, _FH_RE,
      "    @classmethod\n    def from_hyphenated_string(cls, v):\n        for op_type in cls:\n            if not op_type.admin_op and op_type.to_hyphenated_string() == v:\n                return op_type\n"
      "        raise KeyError(f\"No enum value for [{v}]\")\n", "O10.1", regex=True),
    V("registry: search loop that raises ValueError for an unknown name", "break", _T, _FH_RE,
      "    @classmethod\n    def from_hyphenated_string(cls, v):\n        for op_type in cls:\n            if op_type.to_hyphenated_string() == v:\n                return op_type\n"
      "        raise ValueError(f\"No enum value for [{v}]\")\n", "O10.1", regex=True),
    [V("registry: table built by a cached module-level function", "keep", _T, _FH_RE,
       "    @classmethod\n    def from_hyphenated_string(cls, v):\n        op_type = _operation_types_by_name().get(v) if isinstance(v, str) else None\n        if op_type is None:\n"
       "            raise KeyError(f\"No enum value for [{v}]\")\n        return op_type\n", regex=True),
     V("", "keep", _T, "\n\nclass TaskNameFilter:\n",
       "\n\n@functools.lru_cache(maxsize=1)\ndef _operation_types_by_name():\n    return {op_type.to_hyphenated_string(): op_type for op_type in OperationType}\n\n\nclass TaskNameFilter:\n")],
    V("registry: member name reconstructed from the hyphenated name, looked up in __members__", "keep", _T, _FH_RE,
      "    @classmethod\n    def from_hyphenated_string(cls, v):\n        candidate = \"\".join(part.capitalize() for part in v.split(\"-\")) if isinstance(v, str) else \"\"\n"
      "        member = cls.__members__.get(candidate)\n        if member is None or member.to_hyphenated_string() != v:\n            raise KeyError(f\"No enum value for [{v}]\")\n        return member\n", regex=True),
    V("registry: table filled by a loop at module level", "keep", _T, _FH_RE,
      "    @classmethod\n    def from_hyphenated_string(cls, v):\n        if v in _BY_NAME:\n            return _BY_NAME[v]\n        raise KeyError(f\"No enum value for [{v}]\")\n\n\n"
      "_BY_NAME = {}\nfor _op_type in OperationType:\n    _BY_NAME[_op_type.to_hyphenated_string()] = _op_type\ndel _op_type\n", regex=True),
    V("registry: next() over a generator, StopIteration turned into KeyError", "keep", _T, _FH_RE,
      "    @classmethod\n    def from_hyphenated_string(cls, v):\n        try:\n            return next(op_type for op_type in cls if op_type.to_hyphenated_string() == v)\n"
      "        except StopIteration:\n            raise KeyError(f\"No enum value for [{v}]\") from None\n", regex=True),
    V("hyphenation via a regular expression", "keep", _T,
      "        return \"\".join([\"-\" + c.lower() if c.isupper() else c for c in self.name]).lstrip(\"-\")",
      "        return re.sub(r\"(?<!^)(?=[A-Z])\", \"-\", self.name).lower()"),
    V("hyphenation via a regular expression that inserts underscores", "break", _T,
      "        return \"\".join([\"-\" + c.lower() if c.isupper() else c for c in self.name]).lstrip(\"-\")",
      "        return re.sub(r\"(?<!^)(?=[A-Z])\", \"_\", self.name).lower()", "O10.1"),
    V("hyphenation via a generator and an f-string", "keep", _T,
      "        return \"\".join([\"-\" + c.lower() if c.isupper() else c for c in self.name]).lstrip(\"-\")",
      "        hyphenated = \"\".join(f\"-{c.lower()}\" if c.isupper() else c for c in self.name)\n        return hyphenated[1:] if hyphenated.startswith(\"-\") else hyphenated"),
    [V("runner registry key computed by a helper function", "keep", _R,
       "    if isinstance(operation_type, track.OperationType):\n        operation_type = operation_type.to_hyphenated_string()\n", "    operation_type = _registry_key(operation_type)\n"),
     V("", "keep", _R, "def register_runner(operation_type, runner, **kwargs):\n",
       "def _registry_key(op_type):\n    return op_type.to_hyphenated_string() if isinstance(op_type, track.OperationType) else op_type\n\n\ndef register_runner(operation_type, runner, **kwargs):\n")],
    [V("runner registry key computed by a helper function that lower-cases the member name", "break", _R,
       "    if isinstance(operation_type, track.OperationType):\n        operation_type = operation_type.to_hyphenated_string()\n", "    operation_type = _registry_key(operation_type)\n", "O10.1"),
     V("", "break", _R, "def register_runner(operation_type, runner, **kwargs):\n",
       "def _registry_key(op_type):\n    return op_type.name.lower() if isinstance(op_type, track.OperationType) else op_type\n\n\ndef register_runner(operation_type, runner, **kwargs):\n")],
    V("runner registry: members stored as they are", "break", _R,
      "    if isinstance(operation_type, track.OperationType):\n        operation_type = operation_type.to_hyphenated_string()\n", "", "O10.1"),
    V("runner lookup via dict.get", "keep", _R,
      "    try:\n        return __RUNNERS[operation_type]\n    except KeyError:\n        raise exceptions.RallyError(f\"No runner available for operation-type: [{operation_type}]\")\n",
      "    runner = __RUNNERS.get(operation_type)\n    if runner is None:\n        raise exceptions.RallyError(f\"No runner available for operation-type: [{operation_type}]\")\n    return runner\n"),
    V("runner lookup strips the hyphens", "break", _R, "        return __RUNNERS[operation_type]\n", "        return __RUNNERS[operation_type.replace(\"-\", \"\")]\n", "O10.1"),
    V("error helper raises an exception object held in a local", "keep", _L, "        raise TrackSyntaxError(\"Track '%s' is invalid. %s\" % (self.name, msg))\n",
      "        error = TrackSyntaxError(f\"Track '{self.name}' is invalid. {msg}\")\n        self.logger.debug(\"rejecting: %s\", msg)\n        raise error\n"),
    [V("error helper hands the message to a function of the module that raises", "keep", _L, "        raise TrackSyntaxError(\"Track '%s' is invalid. %s\" % (self.name, msg))\n", "        _reject(self.name, msg)\n"),
     V("", "keep", _L, "class TrackSpecificationReader:\n",
       "def _reject(track_name, msg):\n    raise TrackSyntaxError(\"Track '%s' is invalid. %s\" % (track_name, msg))\n\n\nclass TrackSpecificationReader:\n")],
    [V("error helper hands the message to a function of the module that only warns", "break", _L, "        raise TrackSyntaxError(\"Track '%s' is invalid. %s\" % (self.name, msg))\n", "        _reject(self.name, msg)\n", "O10.3"),
     V("", "break", _L, "class TrackSpecificationReader:\n",
       "def _reject(track_name, msg):\n    console.warn(\"Track '%s' is invalid. %s\" % (track_name, msg))\n\n\nclass TrackSpecificationReader:\n")],
    V("error helper raises another class", "break", _L, "        raise TrackSyntaxError(\"Track '%s' is invalid. %s\" % (self.name, msg))\n",
      "        raise exceptions.RallyAssertionError(\"Track '%s' is invalid. %s\" % (self.name, msg))\n", "O10.3"),
    V("nested includes: base joined with the directory part of the pattern", "keep", _L,
      "                repl[glob_pattern] = self.replace_includes(base_path=io.dirname(full_glob_path), track_fragment=sub_source)",
      "                repl[glob_pattern] = self.replace_includes(base_path=os.path.join(base_path, os.path.dirname(glob_pattern)), track_fragment=sub_source)"),
    V("nested includes relative to the directory part of the pattern only", "break", _L,
      "                repl[glob_pattern] = self.replace_includes(base_path=io.dirname(full_glob_path), track_fragment=sub_source)",
      "                repl[glob_pattern] = self.replace_includes(base_path=io.dirname(glob_pattern), track_fragment=sub_source)", "O10.6"),
    V("top-level include base held in a local", "keep", _L, "        self.assembled_source = self.replace_includes(self.base_path, base_track[0])\n",
      "        track_dir = self.base_path\n        self.assembled_source = self.replace_includes(track_dir, base_track[0])\n"),
    [V("inheritable task keys read through a table and handed to Task(...) with **", "keep", _L, "        task = track.Task(\n            name=task_name,\n            operation=op,\n", _KW_TABLE % ("default_warmup_iterations", "default_iterations")),
     V("", "keep", _L, _KW_OLD, "")],
    [V("inheritable task keys read through a table whose defaults are swapped", "break", _L, "        task = track.Task(\n            name=task_name,\n            operation=op,\n", _KW_TABLE % ("default_iterations", "default_warmup_iterations"), "O10.2"),
     V("", "break", _L, _KW_OLD, "")],
    # ---- hardening round 4 (benign/C10-b10 and further shapes): lazy map(...) over a method reference, the dedupe rules decided end to end where no loop around the check can be
    # interpreted on its own (names counted / compared by size, while loops, flattened iteration), pure helper functions of the module entered ----
    V("operations parsed through a lazy map(...) over the method, store after the always-raising error helper", "keep", _L, _OPS_OLD, _OPS_MAP % ("map(self.parse_operation, ops_specs)", "ops[op.name] = op")),
    V("operations parsed through map(...), the table keyed by the operation type", "break", _L, _OPS_OLD, _OPS_MAP % ("map(self.parse_operation, ops_specs)", "ops[op.type] = op"), "O10.5"),
    V("operations parsed through map(...) over a de-duplicated view of the specifications", "break", _L, _OPS_OLD, _OPS_MAP % ("map(self.parse_operation, {str(s): s for s in ops_specs}.values())", "ops[op.name] = op"), "O10.5"),
    V("operations parsed in a while loop over a pending list", "keep", _L, _OPS_OLD, _OPS_WHILE % "ops[op.name] = op"),
    V("operations parsed in a while loop over a pending list, the table keyed by position", "break", _L, _OPS_OLD, _OPS_WHILE % "ops[len(ops)] = op", "O10.5"),
    V("operations table built by a comprehension, duplicates found by comparing sizes", "keep", _L, _OPS_OLD,
      "        parsed = [self.parse_operation(s) for s in ops_specs]\n        ops = {op.name: op for op in parsed}\n        if len(ops) != len(parsed):\n"
      "            self._error(\"Duplicate operation with name '%s'.\" % [op.name for op in parsed if parsed.count(op) > 1])\n"),
    V("task names counted with collections.Counter", "keep", _L, _TASK_DEDUPE,
      "            task_name_counts = collections.Counter(sub_task.name for task in schedule for sub_task in task)\n            for task_name, n in task_name_counts.items():\n"
      "                if n > 1:\n                    self._error(" + _TASK_MSG + " % (name, task_name))\n"),
    V("task names counted with collections.Counter, only names occurring three times reported", "break", _L, _TASK_DEDUPE,
      "            task_name_counts = collections.Counter(sub_task.name for task in schedule for sub_task in task)\n            for task_name, n in task_name_counts.items():\n"
      "                if n > 2:\n                    self._error(" + _TASK_MSG + " % (name, task_name))\n", "O10.5"),
    V("task names compared by size (no loop around the check)", "keep", _L, _TASK_DEDUPE,
      "            all_names = [sub_task.name for task in schedule for sub_task in task]\n            if len(all_names) != len(set(all_names)):\n"
      "                self._error(" + _TASK_MSG + " % (name, next(n for n in all_names if all_names.count(n) > 1)))\n"),
    V("task names compared by size, the first schedule element left out", "break", _L, _TASK_DEDUPE,
      "            all_names = [sub_task.name for task in schedule[1:] for sub_task in task]\n            if len(all_names) != len(set(all_names)):\n"
      "                self._error(" + _TASK_MSG + " % (name, next(n for n in all_names if all_names.count(n) > 1)))\n", "O10.5"),
    V("task-name check over itertools.chain.from_iterable(schedule)", "keep", _L,
      "            for task in schedule:\n                for sub_task in task:\n                    if sub_task.name in known_task_names:\n",
      "            for sub_task in itertools.chain.from_iterable(schedule):\n                if sub_task.name:\n                    if sub_task.name in known_task_names:\n"),
    V("task-name check over the flattened first schedule element only", "break", _L,
      "            for task in schedule:\n                for sub_task in task:\n                    if sub_task.name in known_task_names:\n",
      "            for sub_task in itertools.chain.from_iterable(schedule[:1]):\n                if sub_task.name:\n                    if sub_task.name in known_task_names:\n", "O10.5"),
    V("task-name check in a while loop over the flattened schedule", "keep", _L, _TASK_DEDUPE, _TASK_WHILE % "1"),
    V("task-name check in a while loop that looks at every second task", "break", _L, _TASK_DEDUPE, _TASK_WHILE % "2", "O10.5"),
    [V("corpus names collected first and compared by size", "keep", _L, "        known_corpora_names = set()\n",
       "        corpus_names = [self._r(c, \"name\") for c in corpora_specs]\n        if len(corpus_names) != len(set(corpus_names)):\n            self._error(\"Duplicate document corpus name [%s].\" % corpus_names)\n"),
     V("", "keep", _L, "            if name in known_corpora_names:\n                self._error(\"Duplicate document corpus name [%s].\" % name)\n            known_corpora_names.add(name)\n", "")],
    [V("corpus names collected first and compared with the size of the same list", "break", _L, "        known_corpora_names = set()\n",
       "        corpus_names = [self._r(c, \"name\") for c in corpora_specs]\n        if len(corpus_names) != len(list(corpus_names)):\n            self._error(\"Duplicate document corpus name [%s].\" % corpus_names)\n", "O10.5"),
     V("", "break", _L, "            if name in known_corpora_names:\n                self._error(\"Duplicate document corpus name [%s].\" % name)\n            known_corpora_names.add(name)\n", "")],
    V("challenge alternatives counted with sum(...) over a generator", "keep", _L, _COUNT_OLD, "count_defined = sum(e is not None for e in (schedule, challenge, challenges))"),
    V("challenge alternatives counted with sum(...), `challenges` left out", "break", _L, _COUNT_OLD, "count_defined = sum(e is not None for e in (schedule, challenge))", "O10.5"),
    [V("challenge alternatives counted by a pure helper function of the module (filter over a function reference)", "keep", _L, _COUNT_OLD, "count_defined = _count_defined([schedule, challenge, challenges])"),
     V("", "keep", _L, "class TrackSpecificationReader:\n",
       "def _is_defined(alternative):\n    return alternative is not None\n\n\ndef _count_defined(alternatives):\n    return len(list(filter(_is_defined, alternatives)))\n\n\nclass TrackSpecificationReader:\n")],
    [V("challenge alternatives counted by a helper function of the module that counts the undefined ones", "break", _L, _COUNT_OLD, "count_defined = _count_defined([schedule, challenge, challenges])", "O10.5"),
     V("", "break", _L, "class TrackSpecificationReader:\n",
       "def _is_defined(alternative):\n    return alternative is None\n\n\ndef _count_defined(alternatives):\n    return len(list(filter(_is_defined, alternatives)))\n\n\nclass TrackSpecificationReader:\n")],
    V("no default challenge: decided from the challenges built so far with any(...)", "keep", _L, "        if challenges and default_challenge is None:\n", "        if challenges and not any(c.default for c in challenges):\n"),
    V("no default challenge: any(...) over the selected flag instead of the default flag", "break", _L, "        if challenges and default_challenge is None:\n",
      "        if challenges and not any(c.selected for c in challenges):\n", "O10.5"),
    V("second default challenge: decided from the challenges built so far with any(...)", "keep", _L, "            if default and default_challenge is not None:\n",
      "            if default and any(c.default for c in challenges):\n"),
    V("sub-tasks parsed through functools.partial over the method", "keep", _L, _SUBTASKS_OLD,
      "        parse = functools.partial(self.parse_task, ops=ops, challenge_name=challenge_name, default_warmup_iterations=default_warmup_iterations, default_iterations=default_iterations,\n"
      "                                  default_warmup_time_period=default_warmup_time_period, default_time_period=default_time_period,\n"
      "                                  default_ramp_up_time_period=default_ramp_up_time_period, completed_by_name=completed_by)\n"
      "        tasks = [parse(t) for t in self._r(ops_spec, \"tasks\", error_ctx=\"parallel\")]\n"),
    V("sub-tasks parsed through functools.partial that binds the iterations default to the warm-up parameter", "break", _L, _SUBTASKS_OLD,
      "        parse = functools.partial(self.parse_task, ops=ops, challenge_name=challenge_name, default_warmup_iterations=default_iterations, default_iterations=default_iterations,\n"
      "                                  default_warmup_time_period=default_warmup_time_period, default_time_period=default_time_period,\n"
      "                                  default_ramp_up_time_period=default_ramp_up_time_period, completed_by_name=completed_by)\n"
      "        tasks = [parse(t) for t in self._r(ops_spec, \"tasks\", error_ctx=\"parallel\")]\n", "O10.2"),
    V("sub-tasks parsed through a local helper function and map(...)", "keep", _L, _SUBTASKS_OLD,
      "        def parse(task):\n            return self.parse_task(task, ops, challenge_name, default_warmup_iterations, default_iterations, default_warmup_time_period, default_time_period,\n"
      "                                   default_ramp_up_time_period, completed_by)\n\n        tasks = list(map(parse, self._r(ops_spec, \"tasks\", error_ctx=\"parallel\")))\n"),
    V("sub-tasks parsed through a local helper function that swaps two defaults", "break", _L, _SUBTASKS_OLD,
      "        def parse(task):\n            return self.parse_task(task, ops, challenge_name, default_warmup_iterations, default_iterations, default_time_period, default_warmup_time_period,\n"
      "                                   default_ramp_up_time_period, completed_by)\n\n        tasks = list(map(parse, self._r(ops_spec, \"tasks\", error_ctx=\"parallel\")))\n", "O10.2"),
    V("sub-tasks parsed through a local helper function, the list reversed by map over reversed(...)", "break", _L, _SUBTASKS_OLD,
      "        def parse(task):\n            return self.parse_task(task, ops, challenge_name, default_warmup_iterations, default_iterations, default_warmup_time_period, default_time_period,\n"
      "                                   default_ramp_up_time_period, completed_by)\n\n        tasks = list(map(parse, reversed(self._r(ops_spec, \"tasks\", error_ctx=\"parallel\"))))\n", "O10.2"),
    V("include-in-reporting default set with dict.setdefault", "keep", _L,
      "            if \"include-in-reporting\" not in params:\n                params[\"include-in-reporting\"] = not op.admin_op\n",
      "            params.setdefault(\"include-in-reporting\", not op.admin_op)\n"),
    # -- seeding round 5 -------------------------------------------------------------------------------------------------------------------------------------------
    # m13: the user's track parameters must reach every template of the rendering (imported macro files see the environment's globals only)
    [V("seed m13: track parameters handed to Jinja as the render context instead of the environment's globals", "break", _L, _USER_GLOBALS, "", "O10.6"),
     V("", "break", _L, _RENDER_OLD, "    template = env.from_string(template_source)\n    # ensure that user variables never override our internal variables\n"
       "    user_vars = {k: v for k, v in template_vars.items() if k not in env.globals} if template_vars else {}\n    return template.render(user_vars)\n")],
    [V("track parameters installed as template-level globals of the track file only", "break", _L, _USER_GLOBALS, "", "O10.6"),
     V("", "break", _L, _RENDER_OLD, "    template = env.from_string(template_source, globals=template_vars)\n    return template.render()\n")],
    [V("track parameters spread into render(**...)", "break", _L, _USER_GLOBALS, "", "O10.6"),
     V("", "break", _L, _RENDER_OLD, "    return env.from_string(template_source).render(**(template_vars or {}))\n")],
    V("track parameters merged into a new globals mapping that is assigned back to the environment", "keep", _L,
      "        for k, v in template_vars.items():\n            env.globals[k] = v\n", "        env.globals = {**env.globals, **template_vars}\n"),
    V("the template is created and rendered in one expression, through generate()", "keep", _L, _RENDER_OLD,
      "    return \"\".join(env.from_string(template_source).generate())\n"),
    # m14: the table of named operations is what the operations block defines, whatever the schedule contains
    V("seed m14: inline operations are stored in the table of named operations", "break", _L, _INLINE_OP, _INLINE_OP + "            ops[op.name] = op\n", "O10.2"),
    V("inline operations are stored in the table of named operations unless the name is taken (shadows built-in types)", "break", _L, _INLINE_OP,
      _INLINE_OP + "            ops.setdefault(op.name, op)\n", "O10.2"),
    V("an inline operation named like an entry of the operations block is replaced by that entry", "break", _L,
      "        if isinstance(op_spec, str) and op_spec in ops:\n            op = ops[op_spec]\n",
      "        op_ref = op_spec if isinstance(op_spec, str) else op_spec.get(\"name\")\n        if op_ref in ops:\n            op = ops[op_ref]\n", "O10.2"),
    V("named operation looked up with dict.get", "keep", _L, "        if isinstance(op_spec, str) and op_spec in ops:\n            op = ops[op_spec]\n",
      "        named = ops.get(op_spec) if isinstance(op_spec, str) else None\n        if named is not None:\n            op = named\n"),
    V("bare built-in operation names (and only those) parsed once and shared", "keep", _L, _INLINE_OP,
      _INLINE_OP + "            if isinstance(op_spec, str):\n                ops[op_spec] = op\n"),
    # m15: duplicate corpora are duplicates by NAME, whatever else the two entries say
    [V("seed m15: duplicate corpus names looked for by comparing corpus objects", "break", _L, _CORPUS_DEDUPE, "", "O10.5"),
     V("", "break", _L, _CORPUS_CTOR, _CORPUS_CTOR + "            if corpus in document_corpora:\n                self._error(\"Duplicate document corpus name [%s].\" % name)\n")],
    [V("duplicate corpus names looked for with list.count over the corpus objects", "break", _L, _CORPUS_DEDUPE, "", "O10.5"),
     V("", "break", _L, _CORPUS_CTOR, _CORPUS_CTOR + "            if document_corpora.count(corpus) > 0:\n                self._error(\"Duplicate document corpus name [%s].\" % name)\n")],
    [V("duplicate corpus names looked for among the (name, meta) pairs of the corpora built so far", "break", _L, _CORPUS_DEDUPE, "", "O10.5"),
     V("", "break", _L, _CORPUS_CTOR, _CORPUS_CTOR + "            if (corpus.name, corpus.meta_data) in [(c.name, c.meta_data) for c in document_corpora]:\n"
       "                self._error(\"Duplicate document corpus name [%s].\" % name)\n")],
    [V("duplicate corpus names looked for among the names of the corpus objects built so far", "keep", _L, _CORPUS_DEDUPE, ""),
     V("", "keep", _L, _CORPUS_CTOR, _CORPUS_CTOR + "            if corpus.name in [c.name for c in document_corpora]:\n                self._error(\"Duplicate document corpus name [%s].\" % name)\n")],
    [V("duplicate corpus names looked for with any(...) over the corpus objects built so far, before the new one is built", "keep", _L, _CORPUS_DEDUPE,
       "            if any(c.name == name for c in document_corpora):\n                self._error(\"Duplicate document corpus name [%s].\" % name)\n"),
     V("", "keep", _L, "        known_corpora_names = set()\n", "")],
    # m16: a document set is loaded from its own specification and the defaults of its corpus, whatever was written before it
    [V("seed m16: the corpus-level base-url lives in the local that the document loop assigns (sticks to the following document sets)", "break", _L, _DOC_BASE_URL_DEFAULT,
       "            base_url = self._r(corpus_spec, \"base-url\", mandatory=False, default_value=None)\n", "O10.2"),
     V("", "break", _L, _DOC_BASE_URL, "                base_url = self._r(doc_spec, \"base-url\", mandatory=False, default_value=base_url)\n")],
    V("a document set's target-type becomes the corpus-level default of the following document sets", "break", _L,
      "                        target_type = self._r(doc_spec, \"target-type\", mandatory=False, default_value=corpus_target_type, error_ctx=docs)\n",
      "                        target_type = self._r(doc_spec, \"target-type\", mandatory=False, default_value=corpus_target_type, error_ctx=docs)\n"
      "                        corpus_target_type = target_type\n", "O10.2"),
    V("a document set's includes-action-and-meta-data becomes the default of the following document sets", "break", _L,
      "                        doc_spec, \"includes-action-and-meta-data\", mandatory=False, default_value=default_action_and_meta_data\n                    )\n",
      "                        doc_spec, \"includes-action-and-meta-data\", mandatory=False, default_value=default_action_and_meta_data\n                    )\n"
      "                    default_action_and_meta_data = includes_action_and_meta_data\n", "O10.2"),
    [V("the corpus-level base-url of a corpus is the default of the corpora after it", "break", _L, "        known_corpora_names = set()\n",
       "        known_corpora_names = set()\n        default_base_url = None\n", "O10.2"),
     V("", "break", _L, _DOC_BASE_URL_DEFAULT, "            default_base_url = self._r(corpus_spec, \"base-url\", mandatory=False, default_value=default_base_url)\n")],
    V("document-level base-url: the local starts from the corpus default in every iteration and is overwritten when the key is written", "keep", _L, _DOC_BASE_URL,
      "                base_url = default_base_url\n                if \"base-url\" in doc_spec:\n                    base_url = doc_spec[\"base-url\"]\n"),
    [V("corpus-level base-url default held in a local of another name", "keep", _L, _DOC_BASE_URL_DEFAULT,
       "            corpus_base_url = self._r(corpus_spec, \"base-url\", mandatory=False, default_value=None)\n"),
     V("", "keep", _L, _DOC_BASE_URL, "                base_url = self._r(doc_spec, \"base-url\", mandatory=False, default_value=corpus_base_url)\n")],
    # m18: the warm-up rule is about the ramp-up / warm-up a task ends up with (written or inherited from the parallel element)
    V("seed m18: the warm-up rule only looks at a ramp-up written on the task itself", "break", _L, "        if task.ramp_up_time_period is not None:\n",
      "        if \"ramp-up-time-period\" in task_spec:\n", "O10.5"),
    V("the warm-up rule is skipped when the ramp-up comes from the parallel element", "break", _L, "        if task.ramp_up_time_period is not None:\n",
      "        if task.ramp_up_time_period is not None and default_ramp_up_time_period is None:\n", "O10.5"),
    V("the warm-up compared with the ramp-up is the one written on the task itself", "break", _L, "            elif task.warmup_time_period < task.ramp_up_time_period:",
      "            elif task_spec.get(\"warmup-time-period\", task.ramp_up_time_period) < task.ramp_up_time_period:", "O10.5"),
    V("the warm-up rule reads the effective ramp-up again (own key, else the inherited default)", "keep", _L, "        if task.ramp_up_time_period is not None:\n",
      "        ramp_up = self._r(task_spec, \"ramp-up-time-period\", error_ctx=op.name, mandatory=False, default_value=default_ramp_up_time_period)\n        if ramp_up is not None:\n"),
    # m17: the dialect that decides "violates the schema"
    [V("seed m17: validator compiled once in the constructor with a hard-wired draft-07 class", "break", _L, "            self.track_schema = json.loads(f.read())\n",
       "            self.track_schema = json.loads(f.read())\n        self.track_schema_validator = jsonschema.Draft7Validator(self.track_schema)\n", "O10.4"),
     V("", "break", _L, "            jsonschema.validate(track_spec, self.track_schema)", "            self.track_schema_validator.validate(track_spec)")],
    V("jsonschema.validate told to use a draft-06 validator class", "break", _L, "            jsonschema.validate(track_spec, self.track_schema)",
      "            jsonschema.validate(track_spec, self.track_schema, cls=jsonschema.Draft6Validator)", "O10.4"),
    V("the schema file declares draft-07", "break", _S, "\"$schema\": \"http://json-schema.org/draft-04/schema#\"", "\"$schema\": \"http://json-schema.org/draft-07/schema#\"", "O10.4"),
    [V("validator compiled once in the constructor with the draft-04 class (the dialect the file declares)", "keep", _L, "            self.track_schema = json.loads(f.read())\n",
       "            self.track_schema = json.loads(f.read())\n        self.track_schema_validator = jsonschema.Draft4Validator(self.track_schema)\n"),
     V("", "keep", _L, "            jsonschema.validate(track_spec, self.track_schema)", "            self.track_schema_validator.validate(track_spec)")],
    V("validator class selected from the schema's own $schema, then applied", "keep", _L, "            jsonschema.validate(track_spec, self.track_schema)",
      "            jsonschema.validators.validator_for(self.track_schema)(self.track_schema).validate(track_spec)"),
]
