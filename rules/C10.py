"""C10 — a loaded track is exactly what the file says; invalid tracks are rejected (DESIGN.md section 4, C10)."""
from __future__ import annotations

import ast
import itertools
import re

from sa import pat, source
from sa.cfg import cfg_of, negate
from sa.classes import is_logging_stmt
from sa.minieval import CannotEval, Record, ev
from sa.source import AnchorMissing, arg_of, bind_args, dotted, is_self_attr, last_attr, local_defs, params_of, short, u, walk_body
from sa.sym import UnknownAtom
from sa.tables import Outcome, Unsupported, decide

_L = "esrally/track/loader.py"
_T = "esrally/track/track.py"
_R = "esrally/driver/runner.py"
_P = "esrally/track/params.py"
_S = "esrally/resources/track-schema.json"

# documented task keys -> Task constructor parameter (docs/track.rst, schedule element properties)
TASK_KEYS = {
    "name": "name", "tags": "tags", "meta": "meta_data", "warmup-iterations": "warmup_iterations", "iterations": "iterations",
    "warmup-time-period": "warmup_time_period", "time-period": "time_period", "ramp-up-time-period": "ramp_up_time_period",
    "clients": "clients", "schedule": "schedule",
}
INHERITED = {"warmup-iterations": "default_warmup_iterations", "iterations": "default_iterations", "warmup-time-period": "default_warmup_time_period",
             "time-period": "default_time_period", "ramp-up-time-period": "default_ramp_up_time_period"}
DOC_KEYS = {"base-url": "base_url", "source-format": "source_format", "document-count": "number_of_documents", "compressed-bytes": "compressed_size_in_bytes",
            "uncompressed-bytes": "uncompressed_size_in_bytes", "includes-action-and-meta-data": "includes_action_and_meta_data", "target-index": "target_index",
            "target-type": "target_type", "target-data-stream": "target_data_stream", "meta": "meta_data"}

# values docs/track.rst documents for operation parameters that the top-level `operations` block of track-schema.json constrains: (operation type, key, representative value).
# One representative per documented form ("a string otherwise a list of strings"; "number of pages ... To retrieve all result pages, use the value "all"").
DOCUMENTED_OPERATION_VALUES = [
    ("bulk", "bulk-size", 5000), ("bulk", "pipeline", "my-pipeline"), ("bulk", "conflicts", "sequential"), ("bulk", "conflicts", "random"), ("bulk", "request-timeout", 1.5),
    ("force-merge", "index", "logs-2024"), ("force-merge", "mode", "blocking"), ("force-merge", "mode", "polling"), ("force-merge", "poll-period", 10),
    ("search", "index", "logs-*"), ("search", "type", "docs"), ("search", "cache", True), ("search", "cache", False), ("search", "body", {"query": {"match_all": {}}}),
    ("search", "pages", 2), ("search", "pages", "all"), ("search", "results-per-page", 100),
    ("paginated-search", "pages", 2), ("paginated-search", "pages", "all"), ("paginated-search", "results-per-page", 100),
    ("scroll-search", "pages", 2), ("scroll-search", "pages", "all"), ("scroll-search", "results-per-page", 100),
    ("composite-agg", "pages", 2), ("composite-agg", "pages", "all"), ("composite-agg", "results-per-page", 100),
    ("sql", "pages", 2), ("sql", "body", {"query": "SELECT 1"}),
    ("create-index", "index", "logs-1"), ("create-index", "index", ["logs-1", "logs-2"]), ("create-index", "body", {"settings": {"index.number_of_shards": 1}}),
    ("delete-index", "index", "logs-1"), ("delete-index", "index", ["logs-1", "logs-2"]),
    ("refresh", "index", "logs-1"), ("open-point-in-time", "index", "logs-*"),
]


def _accepts_local(schema, inst, root):
    """None if `inst` satisfies the draft-04 `schema`, else the reason. Only the keywords listed here are interpreted; any other keyword raises Unsupported (-> inconclusive)."""
    ignored = {"title", "description", "$schema", "definitions", "default", "id", "examples"}
    types = {"string": lambda x: isinstance(x, str), "integer": lambda x: isinstance(x, int) and not isinstance(x, bool), "boolean": lambda x: isinstance(x, bool),
             "number": lambda x: isinstance(x, (int, float)) and not isinstance(x, bool), "object": lambda x: isinstance(x, dict), "array": lambda x: isinstance(x, list), "null": lambda x: x is None}
    if "$ref" in schema:
        ref = schema["$ref"]
        if not (isinstance(ref, str) and ref.startswith("#/")):
            raise Unsupported(f"$ref {ref!r}")
        tgt = root
        for part in ref[2:].split("/"):
            tgt = tgt[part.replace("~1", "/").replace("~0", "~")]
        return _accepts_local(tgt, inst, root)
    num = isinstance(inst, (int, float)) and not isinstance(inst, bool)
    for kw, val in schema.items():
        if kw in ignored:
            continue
        if kw == "type":
            names = val if isinstance(val, list) else [val]
            if any(n not in types for n in names):
                raise Unsupported(f"type {val!r}")
            if not any(types[n](inst) for n in names):
                return f"{inst!r} is not of type {val!r}"
        elif kw == "enum":
            if not any(inst == x and isinstance(inst, bool) == isinstance(x, bool) for x in val):
                return f"{inst!r} is not one of {val!r}"
        elif kw in ("minimum", "maximum"):
            excl = schema.get("exclusiveMinimum" if kw == "minimum" else "exclusiveMaximum", False)
            if num and ((inst < val or (excl and inst == val)) if kw == "minimum" else (inst > val or (excl and inst == val))):
                return f"{inst!r} violates {kw} {val!r}"
        elif kw in ("exclusiveMinimum", "exclusiveMaximum"):
            if not isinstance(val, bool):
                raise Unsupported(f"{kw} {val!r} (not draft-04)")
        elif kw in ("minLength", "maxLength"):
            if isinstance(inst, str) and (len(inst) < val if kw == "minLength" else len(inst) > val):
                return f"{inst!r} violates {kw} {val!r}"
        elif kw == "pattern":
            if isinstance(inst, str) and re.search(val, inst) is None:
                return f"{inst!r} does not match {val!r}"
        elif kw in ("minItems", "maxItems"):
            if isinstance(inst, list) and (len(inst) < val if kw == "minItems" else len(inst) > val):
                return f"{inst!r} violates {kw} {val!r}"
        elif kw == "uniqueItems":
            if val and isinstance(inst, list) and any(inst[i] == inst[j] for i in range(len(inst)) for j in range(i)):
                return f"{inst!r} has non-unique items"
        elif kw == "items":
            if not isinstance(val, dict):
                raise Unsupported("tuple-typed items")
            if isinstance(inst, list):
                for x in inst:
                    r = _accepts_local(val, x, root)
                    if r is not None:
                        return r
        elif kw == "properties":
            if isinstance(inst, dict):
                for pk, ps in val.items():
                    if pk in inst:
                        r = _accepts_local(ps, inst[pk], root)
                        if r is not None:
                            return r
        elif kw == "additionalProperties":
            if isinstance(inst, dict) and val is not True:
                extra = [pk for pk in inst if pk not in schema.get("properties", {})]
                if "patternProperties" in schema:
                    raise Unsupported("patternProperties")
                for pk in extra:
                    if val is False:
                        return f"additional property {pk!r}"
                    r = _accepts_local(val, inst[pk], root)
                    if r is not None:
                        return r
        elif kw == "required":
            if isinstance(inst, dict):
                missing = [pk for pk in val if pk not in inst]
                if missing:
                    return f"required {missing!r} missing"
        elif kw in ("anyOf", "oneOf"):
            n_ok = sum(1 for s_ in val if _accepts_local(s_, inst, root) is None)
            if n_ok == 0 or (kw == "oneOf" and n_ok != 1):
                return f"{inst!r} is not valid under {'any' if n_ok == 0 else 'exactly one'} of the {kw} alternatives"
        elif kw == "allOf":
            for s_ in val:
                r = _accepts_local(s_, inst, root)
                if r is not None:
                    return r
        elif kw == "not":
            if _accepts_local(val, inst, root) is None:
                return f"{inst!r} is valid under the `not` schema"
        else:
            raise Unsupported(f"schema keyword {kw!r}")
    return None


def schema_acceptor(schema):
    """instance -> None (accepted) / reason (rejected), deciding an EXTRACTED constant schema: with the jsonschema package when it is importable (the validator class the schema's own
    $schema selects, as jsonschema.validate does), otherwise with the local draft-04 subset."""
    try:
        import jsonschema

        validator = jsonschema.validators.validator_for(schema)(schema)

        def accepts(inst):
            try:
                err = next(iter(validator.iter_errors(inst)), None)
            except Exception as e:  # a malformed schema (unresolvable $ref, wrong keyword value) surfaces from inside the library: inconclusive, not a verdict
                raise Unsupported(f"jsonschema: {type(e).__name__}: {e}")
            return None if err is None else err.message

        return accepts
    except ImportError:
        return lambda inst: _accepts_local(schema, inst, schema)


def hyphenate(name: str) -> str:
    return "".join(["-" + c.lower() if c.isupper() else c for c in name]).lstrip("-")


def r_key(e, defs=None):
    """key string of a `self._r(spec, "key", ...)` expression (through one local)."""
    if isinstance(e, ast.Name) and defs and e.id in defs:
        e = defs[e.id]
    if isinstance(e, ast.Call) and u(e.func) == "self._r" and isinstance(arg_of(e, 1, "path"), ast.Constant):
        return arg_of(e, 1, "path").value, e
    return None, e


def r_root(call):
    """text of the spec a `self._r(spec, "key", ...)` call reads from."""
    return u(arg_of(call, 0, "root")) if isinstance(call, ast.Call) and arg_of(call, 0, "root") is not None else None


def method(mod, cls, name):
    """method `name` of class `cls` (AnchorMissing, not KeyError, if it is gone)."""
    m = mod.methods(cls).get(name)
    if m is None:
        raise AnchorMissing(f"{cls.name}.{name}")
    return m


def stmts_of(body):
    """statements of a body that matter: docstrings and logging statements dropped."""
    return [s for s in body if not is_logging_stmt(s) and not (isinstance(s, ast.Expr) and isinstance(s.value, ast.Constant) and isinstance(s.value.value, str))]


def exact_facts(node, patterns, binds=None, stop=None):
    """the atomic guard facts of node are exactly the patterns: each pattern holds (any orientation / polarity / arm order) and no further condition narrows the site."""
    fs = pat.fact_nodes(node, stop)
    return bool(fs) and all(any(pat.match(f, p, binds) is not None for f in fs) for p in patterns) and all(any(pat.match(f, p, binds) is not None for p in patterns) for f in fs)


def rejecting_condition(g, ifnode):
    """the condition (AST) under which this if statement never reaches the normal exit of its function, whichever arm holds the raise; None if neither / both arms do."""
    n = g.node_of(ifnode)
    t_dead = g.exit.id not in g.reachable(g.edge_targets(n, "true"))
    f_dead = g.exit.id not in g.reachable(g.edge_targets(n, "false"))
    if t_dead and not f_dead:
        return ifnode.test
    if f_dead and not t_dead:
        return negate(ifnode.test)
    return None


def name_of(e):
    return e.id if isinstance(e, ast.Name) else None


def assigned_from(func, pred):
    """names of the locals assigned (simple `x = <call>`) from a call satisfying pred."""
    return [n.targets[0].id for n in walk_body(func) if isinstance(n, ast.Assign) and len(n.targets) == 1 and isinstance(n.targets[0], ast.Name) and isinstance(n.value, ast.Call) and pred(n.value)]


def run(chk):
    repo = chk.repo
    ldr, trk, rn, pr = repo.module(_L), repo.module(_T), repo.module(_R), repo.module(_P)
    chk.use(ldr, trk, rn, pr, _S, "docs/track.rst")
    chk.explanation = (
        "Decides the loader by tables and flows: the operation-type registry is a bijection between hyphenated literals and enum members that agrees with to_hyphenated_string and with the "
        "runner / param-source registrations; each documented task and document-set key flows into the constructor parameter and attribute of that meaning, with parallel defaults read from "
        "the same key and passed positionally to the matching parameter; _error raises on every path; schema and version validation dominate construction; the validation block of "
        "parse_task abstractly interpreted over {warm-up iterations, iterations, warm-up period, period, ramp-up (none / <= warm-up / > warm-up)} rejects exactly the documented mixes; "
        "dedupe idioms for task / challenge / operation / corpus names; default-challenge rules; completed-by rules; indices vs data streams; reserved and unused track parameters checked "
        "between building and returning the track; every rendered template registers its variables first; nested includes resolve relative to the including file. Value tables: the "
        "statements assigning the corpus-level target defaults interpreted for 0 / 1 / 2 indices and data streams; documented operation-parameter values validated against the item schema of "
        "the operations block (an extracted constant); the include pattern of TemplateSource matched against the spellings of the collect helper call and of {% include %}."
    )
    chk.not_decided = "Jinja rendering semantics (incl. the text of the built-in macros), JSON-schema semantics, free-form operation parameters."
    SR = ldr.cls("TrackSpecificationReader")
    FR = ldr.cls("TrackFileReader")

    # ---- O10.1 operation-type registry --------------------------------------------------------------------------------------------------------------
    chk.rule("O10.1", "operation-type registry: the string->member chain is a bijection (every member once, literals distinct); each literal equals the hyphenation of the member name "
             "(= to_hyphenated_string); every default-runner / param-source registration names a member; the composite's supported list is a subset of registered names", 60,
             "an operation type written in a track resolves to another operation, or a documented type is rejected as unknown")
    OT = trk.cls("OperationType")
    members = [n.targets[0].id for n in OT.body if isinstance(n, ast.Assign) and isinstance(n.targets[0], ast.Name) and isinstance(n.value, ast.Tuple)]
    fh = trk.methods(OT).get("from_hyphenated_string")
    if fh is None or len(members) < 40:
        raise AnchorMissing("OperationType members / from_hyphenated_string")
    if len(params_of(fh)) < 2:
        raise AnchorMissing("from_hyphenated_string(cls, <literal>)")
    vpar = params_of(fh)[1]
    # registry keys: every string literal the parameter is compared with (any orientation, `in` tuples included); one entry per occurrence
    lits = [c.value for n in walk_body(fh) if isinstance(n, ast.Compare) and any(name_of(x) == vpar for x in ast.walk(n)) for c in ast.walk(n) if isinstance(c, ast.Constant) and isinstance(c.value, str)]

    def resolve(lit):
        """outcome of the function for this literal, by evaluating its tests (independent of chain shape, arm order and comparison orientation)."""
        def atom(n, e_):
            if isinstance(n, ast.BoolOp) or (isinstance(n, ast.UnaryOp) and isinstance(n.op, ast.Not)):
                return None
            try:
                return bool(ev(n, {vpar: lit}))
            except CannotEval:
                return None

        return decide(stmts_of(fh.body), atom, {})

    pairs = []
    try:
        for lit in dict.fromkeys(lits):
            out = resolve(lit)
            if out.kind == "return" and out.value is not None and (dotted(out.value) or "").startswith("OperationType."):
                pairs.append((lit, out.value.attr, out.node))
            elif out.kind != "raise":
                chk.unknown("O10.1", f"registry outcome for '{lit}' is not `return OperationType.<Member>`: {out.text()[:60]}", out.node if out.node is not None else fh)
        out = resolve("\x00no-such-operation-type")
        chk.ob("O10.1", "unknown literal raises KeyError", out.kind == "raise" and "KeyError" in u(out.value), out.node if out.node is not None else fh, out.text()[:80])
    except (Unsupported, UnknownAtom) as e:
        chk.unknown("O10.1", f"from_hyphenated_string is not a decision over comparisons of `{vpar}` with literals: {e}", fh)
    mems = [p[1] for p in pairs]
    chk.ob("O10.1", "literals are distinct", len(lits) == len(set(lits)), fh, f"duplicates: {sorted({x for x in lits if lits.count(x) > 1})}")
    chk.ob("O10.1", "each member is returned by exactly one literal", len(mems) == len(set(mems)), fh, f"duplicates: {sorted({x for x in mems if mems.count(x) > 1})}")
    for m in members:
        chk.ob("O10.1", f"member {m} reachable from its documented name '{hyphenate(m)}'", (hyphenate(m), m) in [(l, mm) for l, mm, _ in pairs], OT,
               "" if m in mems else "no literal returns this member", key=f"{_T}:OperationType.from_hyphenated_string:{m}")
    for lit, mem, nd in pairs:
        if mem not in members:
            chk.ob("O10.1", f"literal '{lit}' returns a declared member", False, nd, f"OperationType.{mem} is not declared")
    th = trk.methods(OT).get("to_hyphenated_string")
    th_rets = [n for n in walk_body(th) if isinstance(n, ast.Return)] if th is not None else []
    ok = len(th_rets) == 1 and pat.is_(th_rets[0].value, "''.join(['-' + V_c.lower() if V_c.isupper() else V_c for V_c in self.name]).lstrip('-')")
    chk.ob("O10.1", "to_hyphenated_string is the documented hyphenation", ok, th if th is not None else OT, "")
    reg = rn.func("register_default_runners")
    regd = set()
    for c in source.calls_in(reg, attr="register_runner"):
        if not c.args:
            continue
        a0 = c.args[0]
        if isinstance(a0, ast.Attribute) and dotted(a0) and dotted(a0).startswith("track.OperationType."):
            regd.add(a0.attr)
            if a0.attr not in members:
                chk.ob("O10.1", f"runner registered for declared member {a0.attr}", False, c, "not a member of OperationType")
    chk.ob("O10.1", "default runners registered by enum member", len(regd) >= 50, reg, f"{len(regd)} members have a default runner; without: {sorted(set(members) - regd)}")
    rr = rn.func("register_runner")
    ok = any("to_hyphenated_string" in u(n) for n in walk_body(rr))
    chk.ob("O10.1", "runner registry keyed by the hyphenated string", ok, rr, "")
    rf = rn.func("runner_for")
    chk.ob("O10.1", "runner lookup by the same (hyphenated string) key", any(isinstance(n, ast.Subscript) and "__RUNNERS" in u(n.value) for n in walk_body(rf)), rf, "")
    for c in source.calls_in(pr.tree, attr="register_param_source_for_operation", local=False):
        if not c.args:
            continue
        a0 = c.args[0]
        if isinstance(a0, ast.Attribute) and (dotted(a0) or "").startswith("track.OperationType."):
            chk.ob("O10.1", f"param source registered for declared member {a0.attr}", a0.attr in members, c, "", key=f"{_P}:param-source:{a0.attr}")
    CO = rn.cls("Composite")
    sup = [n for n in ast.walk(CO) if isinstance(n, ast.Assign) and is_self_attr(n.targets[0], "supported_op_types") and isinstance(n.value, ast.List)]
    if sup:
        names = [e.value for e in sup[0].value.elts if isinstance(e, ast.Constant)]
        bad = [x for x in names if x not in {hyphenate(m) for m in regd}]
        chk.ob("O10.1", "composite's supported operation types all have a registered runner", not bad, sup[0], f"unregistered: {bad}")

    # ---- O10.2 field flow ----------------------------------------------------------------------------------------------------------------------------
    chk.rule("O10.2", "each documented task key reaches the Task parameter and attribute of that meaning; the five inheritable keys default to the parameter that parse_parallel fills from the "
             "SAME key of the parallel element (positional agreement); completed-by flags derive from comparing the task name with the parallel's completed-by / 'any'; schedule order is "
             "append order; document-set keys reach the Documents parameter of that meaning with corpus-level defaults; the corpus-level target-index / target-data-stream / target-type are "
             "read from the corpus specification for every size (0, 1, 2) of the track's own indices / data-streams sections (value table)", 40,
             "a track's warm-up iterations load as iterations (or similar): the race runs something else than the file says, silently")
    pt = method(ldr, SR, "parse_task")
    pp = method(ldr, SR, "parse_parallel")
    if len(params_of(pt)) < 2 or len(params_of(pp)) < 2:
        raise AnchorMissing("parse_task(self, <task spec>, ...) / parse_parallel(self, <parallel spec>, ...)")
    tctor = [c for c in source.calls_in(pt) if dotted(c.func) == "track.Task"]
    if not tctor:
        raise AnchorMissing("track.Task(...) in parse_task")
    tdefs = local_defs(pt)
    TK = trk.cls("Task")
    tinit = method(trk, TK, "__init__")
    tb = bind_args(tctor[0], tinit)
    stored = {n.value.id: n.targets[0].attr for n in walk_body(tinit) if isinstance(n, ast.Assign) and is_self_attr(n.targets[0]) and isinstance(n.value, ast.Name)}
    for key, param in TASK_KEYS.items():
        e = tb.get(param)
        k, call = r_key(e, tdefs)
        ok = k == key and r_root(call) == params_of(pt)[1]
        chk.ob("O10.2", f"task key '{key}' -> Task({param}=...)", ok, e if e is not None else tctor[0], f"read from key {k!r}", key=f"{_L}:parse_task:key:{key}")
        if param not in ("tags", "meta_data"):
            chk.ob("O10.2", f"Task.{param} stores its parameter", stored.get(param) == param, tinit, f"stored in self.{stored.get(param)}", key=f"{_T}:Task.__init__:{param}")
        if key in INHERITED and call is not None and isinstance(call, ast.Call):
            dv = arg_of(call, None, "default_value")
            chk.ob("O10.2", f"task key '{key}' defaults to the parallel element's value", dv is not None and u(dv) == INHERITED[key], call, f"default_value={u(dv) if dv is not None else None}", key=f"{_L}:parse_task:default:{key}")
    # roles: the task's name is whatever expression is handed to Task(name=...); the operation is the local assigned from self.parse_operation(...)
    name_e = tb.get("name")
    ok = name_e is not None and pat.is_(tb.get("completes_parent"), "E_n == completed_by_name", binds={"n": u(name_e)}) and pat.is_(tb.get("any_completes_parent"), "completed_by_name == 'any'")
    chk.ob("O10.2", "completed-by flags: name == completed-by / completed-by == 'any'", ok, tctor[0], "")
    op_locals = set(assigned_from(pt, lambda c: u(c.func) == "self.parse_operation"))
    if len(op_locals) != 1:
        raise AnchorMissing(f"one local assigned from self.parse_operation(...) in parse_task (found {sorted(op_locals)})")
    op_local = op_locals.pop()
    ok = name_of(tb.get("operation")) == op_local and u(tb.get("params")) == params_of(pt)[1]
    chk.ob("O10.2", "operation and raw task spec handed to the task", ok, tctor[0], "")
    _, nm = r_key(name_e, tdefs)
    dvn = arg_of(nm, None, "default_value") if isinstance(nm, ast.Call) else None
    chk.ob("O10.2", "task name defaults to the operation name", dvn is not None and pat.is_(dvn, "V_op.name", binds={"op": op_local}), nm if nm is not None else pt, "")
    # parse_parallel: defaults read from the same keys and passed to the matching parameters
    pdefs = local_defs(pp)
    ptc = [c for c in source.calls_in(pp) if u(c.func) == "self.parse_task"]
    if not ptc:
        raise AnchorMissing("self.parse_task(...) in parse_parallel")
    pb = bind_args(ptc[0], pt)
    for key, param in INHERITED.items():
        e = pb.get(param)
        k, call = r_key(e, pdefs)
        ok = k == key and isinstance(call, ast.Call) and r_root(call) == params_of(pp)[1]
        chk.ob("O10.2", f"parallel key '{key}' -> parse_task({param}=...)", ok, e if e is not None else ptc[0], f"read from key {k!r}", key=f"{_L}:parse_parallel:default:{key}")
    k, _ = r_key(pb.get("completed_by_name"), pdefs)
    chk.ob("O10.2", "parallel key 'completed-by' -> parse_task(completed_by_name=...)", k == "completed-by", ptc[0], f"read from key {k!r}")
    pr_ = [c for c in source.calls_in(pp) if dotted(c.func) == "track.Parallel"]
    prb = bind_args(pr_[0], method(trk, trk.cls("Parallel"), "__init__")) if pr_ else {}
    k, _ = r_key(prb.get("clients"), pdefs) if prb.get("clients") is not None else (None, None)
    # role: the sub-task list is the local handed to Parallel(tasks=...); it must be the list the loop over the 'tasks' key appends each parsed task to
    tasks_local = name_of(prb.get("tasks"))
    tl = [n for n in walk_body(pp) if isinstance(n, ast.For) and isinstance(n.iter, ast.Call) and r_key(n.iter)[0] == "tasks"]
    appended = [c for c in ast.walk(tl[0]) if isinstance(c, ast.Call) and pat.is_(c.func, "V_l.append", binds={"l": tasks_local}) and len(c.args) == 1 and any(x is ptc[0] for x in ast.walk(c.args[0]))] if tl and tasks_local else []
    chk.ob("O10.2", "parallel key 'clients' -> Parallel(clients)", k == "clients" and bool(appended), pr_[0] if pr_ else pp, "")
    ok = bool(appended) and not any(isinstance(c, ast.Call) and (dotted(c.func) in ("sorted", "reversed") or last_attr(c.func) in ("sort", "reverse", "insert")) for c in walk_body(pp))
    chk.ob("O10.2", "sub-tasks kept in file order", ok, tl[0] if tl else pp, "")
    cc = method(ldr, SR, "_create_challenges")
    # role: the schedule is the local handed to track.Challenge(schedule=...); the loop over the 'schedule' key appends each parsed element to it
    chctor = [c for c in source.calls_in(cc) if dotted(c.func) == "track.Challenge"]
    if not chctor:
        raise AnchorMissing("track.Challenge(...) in _create_challenges")
    chb = bind_args(chctor[0], method(trk, trk.cls("Challenge"), "__init__"))
    sched_local = name_of(chb.get("schedule"))
    sl = [n for n in walk_body(cc) if isinstance(n, ast.For) and isinstance(n.iter, ast.Call) and r_key(n.iter)[0] == "schedule"]
    ok = bool(sl) and sched_local is not None and any(isinstance(c, ast.Call) and pat.is_(c.func, "V_l.append", binds={"l": sched_local}) for c in ast.walk(sl[0])) \
        and not any(isinstance(c, ast.Call) and dotted(c.func) in ("sorted", "reversed") and any(name_of(x) == sched_local or (isinstance(x, ast.Constant) and x.value == "schedule") for x in ast.walk(c)) for c in walk_body(cc))
    chk.ob("O10.2", "schedule kept in file order", ok, sl[0] if sl else cc, "")
    if sl:
        ev_ = name_of(sl[0].target)
        ppc = [c for c in ast.walk(sl[0]) if isinstance(c, ast.Call) and u(c.func) == "self.parse_parallel" and c.args and pat.is_(c.args[0], "V_e['parallel']", binds={"e": ev_})]
        ptk = [c for c in ast.walk(sl[0]) if isinstance(c, ast.Call) and u(c.func) == "self.parse_task" and c.args and name_of(c.args[0]) == ev_]
        ok = ev_ is not None and bool(ppc) and bool(ptk) and all(exact_facts(c, ["'parallel' in V_e"], binds={"e": ev_}, stop=sl[0]) for c in ppc) and all(exact_facts(c, ["'parallel' not in V_e"], binds={"e": ev_}, stop=sl[0]) for c in ptk)
        chk.ob("O10.2", "parallel elements and plain tasks dispatched on the 'parallel' key", ok, ppc[0] if ppc else sl[0], "")
    # documents
    cr = method(ldr, SR, "_create_corpora")
    dctor = [c for c in source.calls_in(cr) if dotted(c.func) == "track.Documents"]
    if not dctor:
        raise AnchorMissing("track.Documents(...) in _create_corpora")
    DI = method(trk, trk.cls("Documents"), "__init__")
    db = bind_args(dctor[0], DI)
    cdefs = {}
    for n in walk_body(cr):
        if isinstance(n, ast.Assign) and len(n.targets) == 1 and isinstance(n.targets[0], ast.Name):
            cdefs.setdefault(n.targets[0].id, []).append(n.value)

    def doc_keys(e):
        """spec keys whose VALUE can flow into e (through locals and default_value=..., not through error contexts / mandatory flags)."""
        out = set()
        todo, seen = [e], set()
        while todo:
            x = todo.pop()
            if x is None:
                continue
            if isinstance(x, ast.Call) and r_key(x)[0] is not None:
                out.add(r_key(x)[0])
                todo.append(arg_of(x, None, "default_value"))
                continue
            if isinstance(x, ast.Call) and dotted(x.func) == "track.Documents":
                continue
            if isinstance(x, ast.Name):
                if x.id in cdefs and x.id not in seen:
                    seen.add(x.id)
                    todo.extend(cdefs[x.id])
                continue
            todo.extend(c for c in ast.iter_child_nodes(x) if isinstance(c, ast.expr))
        return out

    for key, param in DOC_KEYS.items():
        e = db.get(param)
        ks = doc_keys(e) if e is not None else set()
        others = (ks - {key}) & (set(DOC_KEYS) | {"source-file"})
        chk.ob("O10.2", f"document key '{key}' -> Documents({param}=...)", key in ks and not others, e if e is not None else dctor[0], f"depends on keys {sorted(ks)}", key=f"{_L}:_create_corpora:key:{key}")
    ok = doc_keys(db.get("document_file")) == {"source-file"} and doc_keys(db.get("document_archive")) == {"source-file"}
    chk.ob("O10.2", "source-file -> document file / archive", ok, dctor[0], "")
    dstored = {n.value.id: n.targets[0].attr for n in walk_body(DI) if isinstance(n, ast.Assign) and is_self_attr(n.targets[0]) and isinstance(n.value, ast.Name)}
    for param in DOC_KEYS.values():
        if param == "meta_data":
            continue
        chk.ob("O10.2", f"Documents.{param} stores its parameter", dstored.get(param) in (param, "_" + param), DI, f"stored in self.{dstored.get(param)}", key=f"{_T}:Documents.__init__:{param}")

    # a default invented from the FIRST element of a collection is only sound when the collection has exactly one element; otherwise the key stays mandatory downstream
    n_first = 0
    for c in source.calls_in(cr):
        if u(c.func) != "self._r":
            continue
        dv = arg_of(c, None, "default_value")
        if dv is None:
            continue
        firsts = [x for x in ast.walk(dv) if isinstance(x, ast.Subscript) and source.is_const(x.slice, 0)]
        for x in firsts:
            n_first += 1
            coll = u(x.value)
            ok = pat.guarded(c, f"len({coll}) == 1") is not None
            chk.ob("O10.2", f"default `{short(dv, 40)}` for '{r_key(c)[0] or '?'}' only when `{coll}` has exactly one element", ok, c,
                   "" if ok else f"guards: {[u(f_) for f_ in pat.fact_nodes(c)]} — with several elements a missing mandatory target is silently replaced by the first one",
                   key=f"{_L}:_create_corpora:first-element-default:{u(x)}")
    chk.ob("O10.2", "first-element defaults located in _create_corpora", n_first >= 3, cr, f"{n_first} site(s)")

    # the corpus-level defaults target-index / target-data-stream / target-type are "exactly those written in the file" whatever the track's OWN indices / data-streams sections
    # contain (a track whose indices come from templates has none): on every path to the document loop the local that the document-level read falls back to holds the value read
    # from the corpus specification under the same key. Decided on values: the statements that assign that local are interpreted for len(indices), len(data_streams) in {0, 1, 2}
    # (and 0..2 types of the first index); the extracted tests are evaluated, nothing is read off the if/elif shape.
    # roles: the document loop iterates over self._r(<corpus spec>, "documents"); a document-level read is self._r(<its loop variable>, KEY, default_value=<corpus-level local>)
    doc_loops = [a for a in source.ancestors(dctor[0]) if isinstance(a, ast.For) and isinstance(a.iter, ast.Call) and r_key(a.iter)[0] == "documents"]
    if not doc_loops or name_of(doc_loops[0].target) is None:
        raise AnchorMissing("loop over self._r(<corpus spec>, 'documents') around track.Documents(...) in _create_corpora")
    doc_loop = doc_loops[0]
    corpus_var, doc_var = r_root(doc_loop.iter), doc_loop.target.id
    corpus_loop = next((a for a in source.ancestors(doc_loop) if isinstance(a, ast.For) and name_of(a.target) == corpus_var), None)
    if corpus_loop is None or len(params_of(cr)) < 4:
        raise AnchorMissing("loop over the corpus specifications around the document loop / _create_corpora(self, <corpora>, <indices>, <data streams>)")
    p_idx, p_ds = params_of(cr)[2], params_of(cr)[3]
    # the statements (as written) that run before the document loop: plain single-name assignments ahead of the corpus loop (a test may refer to them), then the corpus loop's own
    before_docs = []
    for s_ in source.flat(cr.body):
        if s_ is corpus_loop or any(x is corpus_loop for x in source.walk_explicit(s_)):
            break
        if isinstance(s_, ast.Assign) and len(s_.targets) == 1 and isinstance(s_.targets[0], ast.Name):
            before_docs.append(s_)
    for s_ in source.flat(corpus_loop.body):
        if s_ is doc_loop or any(x is doc_loop for x in source.walk_explicit(s_)):
            break
        before_docs.append(s_)
    for key in ("target-index", "target-data-stream", "target-type"):
        reads = [c for c in ast.walk(doc_loop) if isinstance(c, ast.Call) and r_key(c)[0] == key and r_root(c) == doc_var]
        fallbacks = {name_of(arg_of(c, None, "default_value")) for c in reads}
        if len(fallbacks) != 1 or None in fallbacks:
            raise AnchorMissing(f"document-level read self._r({doc_var}, '{key}', default_value=<corpus-level local>) in _create_corpora (found fall-backs {sorted(map(str, fallbacks))})")
        level_local = fallbacks.pop()

        def assigns_level_local(s_):
            return any(isinstance(x, ast.Assign) and any(name_of(t_) == level_local for t_ in x.targets) for x in source.walk_explicit(s_))

        # the slice that decides the local: every statement (as written) that assigns it, plus plain single-name assignments a test may refer to
        sel = [s_ for s_ in before_docs if assigns_level_local(s_) or (isinstance(s_, ast.Assign) and len(s_.targets) == 1 and isinstance(s_.targets[0], ast.Name))]
        if not any(assigns_level_local(s_) for s_ in sel):
            raise AnchorMissing(f"assignment of the corpus-level local `{level_local}` before the document loop of _create_corpora")
        cur = {}

        def see_bindings(s_, e_, b_):
            cur["b"] = b_
            return None

        def value_atom(n, e_):
            try:
                return bool(ev(source.inline_node(n, {k_: v_ for k_, v_ in cur.get("b", {}).items() if v_ is not None and k_ not in e_}), e_))
            except CannotEval:
                return None

        for ni, nd in ((0, 0), (0, 1), (0, 2), (1, 0), (2, 0)):  # both sections at once is rejected before (O10.5)
            lost = []
            try:
                for nt in ((0, 1, 2) if ni else (0,)):
                    env = {p_idx: [Record(name=f"index-{j}", types=[f"type-{k_}" for k_ in range(nt)]) for j in range(ni)], p_ds: [Record(name=f"stream-{j}") for j in range(nd)]}
                    cur.clear()
                    out = decide(sel, value_atom, env, on_stmt=see_bindings)
                    final = getattr(out, "bindings", {}).get(level_local) if out.kind == "fallthrough" else None
                    if not (isinstance(final, ast.Call) and r_key(final)[0] == key and r_root(final) == corpus_var):
                        lost.append(f"{nt} type(s): {level_local} = {short(final, 60) if final is not None else out.text()}")
            except (Unsupported, UnknownAtom) as e:
                chk.unknown("O10.2", f"the statements that assign `{level_local}` in _create_corpora are not a decision over the sizes of `{p_idx}` / `{p_ds}`: {e}", cr)
                break
            chk.ob("O10.2", f"corpus-level '{key}' is read from the corpus specification when the track defines {ni} index(es) and {nd} data stream(s)", not lost, sel[-1],
                   "" if not lost else f"{'; '.join(lost)} — the value written on the corpus is dropped: documents without their own '{key}' lose it (or the track is rejected as having no target)",
                   key=f"{_L}:TrackSpecificationReader._create_corpora:corpus-level-default:{key}:indices={ni}:data-streams={nd}")

    # ---- O10.3 error helper -----------------------------------------------------------------------------------------------------------------------------------
    chk.rule("O10.3", "the error helper raises a track syntax error on every path", 1, "a detected rule violation is only logged and the invalid track is loaded")
    ef = method(ldr, SR, "_error")
    ge = cfg_of(ef)
    ok = ge.exit.id not in ge.reachable([ge.entry]) and any(isinstance(n, ast.Raise) and "TrackSyntaxError" in u(n.exc) for n in walk_body(ef))
    chk.ob("O10.3", "_error has no normal exit", ok, ef, "")

    # ---- O10.4 validation dominates construction -----------------------------------------------------------------------------------------------------------------
    chk.rule("O10.4", "schema validation and the version window check dominate the call that builds the track; their failures are re-raised as errors; the schema constrains a key "
             "identically wherever it may be written, and its operations block accepts every value docs/track.rst documents for an operation parameter (tiny instances validated against the "
             "extracted item schema)", 4,
             "a track violating the schema (or of an unsupported version) is loaded")
    rd = method(ldr, FR, "read")
    gr = cfg_of(rd)
    build = [c for c in source.calls_in(rd) if u(c.func) == "self.read_track"]
    val = [c for c in source.calls_in(rd) if dotted(c.func) == "jsonschema.validate"]
    if not build or not val:
        raise AnchorMissing("self.read_track(...) / jsonschema.validate(...) in TrackFileReader.read")
    bn = gr.node_of(build[0])
    # role: the specification is the local handed to self.read_track(<name>, SPEC, ...); the SAME local must be what jsonschema.validate(SPEC, self.track_schema) checked
    spec_local = name_of(arg_of(build[0], 1, "track_specification"))
    ok = gr.dominated_by_nodes(bn, [gr.node_of(val[0])]) and spec_local is not None and name_of(arg_of(val[0], 0, "instance")) == spec_local and u(arg_of(val[0], 1, "schema")) == "self.track_schema"
    chk.ob("O10.4", "jsonschema.validate(track_spec, schema) dominates construction of the same spec", ok, val[0], "")
    tv = source.enclosing(val[0], ast.Try)
    ok = tv is not None and all(gr.exit.id not in gr.reachable(gr.by_ast.get(id(h), [])) and any(isinstance(x, ast.Raise) and "TrackSyntaxError" in u(x.exc) for x in ast.walk(h)) for h in tv.handlers)
    chk.ob("O10.4", "validation errors re-raised as track syntax errors", ok, tv if tv is not None else rd, "")
    # the window is evaluated, not read off the comparison text: with representative bounds 2..4 the rejecting conditions of the dominating checks must reject exactly 1 and 5
    # role: the version local is the one bound from a read of the "version" key; the window tests are the ifs on it (the bounds may be named class constants or, after constant
    # propagation N9, literals: they are evaluated with the class's actual bounds either way)
    vnames = {t.id for n in walk_body(rd) if isinstance(n, ast.Assign) for t in n.targets if isinstance(t, ast.Name)
              and any(isinstance(x, ast.Constant) and x.value == "version" for x in ast.walk(n.value))}
    for _ in range(4):  # ... and what is computed from it (`track_version = int(raw_version)`)
        vnames |= {t.id for n in walk_body(rd) if isinstance(n, ast.Assign) for t in n.targets if isinstance(t, ast.Name)
                   and any(isinstance(x, ast.Name) and x.id in vnames for x in ast.walk(n.value))}
    vt = [n for n in source.flat(rd.body) if isinstance(n, ast.If) and any(isinstance(x, ast.Name) and x.id in vnames for x in ast.walk(n.test))
          and any(isinstance(x, ast.Compare) for x in ast.walk(n.test))]
    rej = [rejecting_condition(gr, n) for n in vt]
    tests = sorted(u(n.test) for n in vt)
    ok = bool(vt) and all(gr.dominated_by_nodes(bn, [gr.node_of(n)]) for n in vt) and all(r is not None for r in rej)
    ver_locals = {x.id for n in vt for x in ast.walk(n.test) if isinstance(x, ast.Name) and x.id not in ("TrackFileReader", "self")}
    detail = f"{tests}"
    if ok and len(ver_locals) == 1:
        cvals = {}
        for st_ in ldr.cls("TrackFileReader").body:
            if isinstance(st_, ast.Assign) and len(st_.targets) == 1 and isinstance(st_.targets[0], ast.Name) and isinstance(st_.value, ast.Constant) and isinstance(st_.value.value, int):
                cvals[st_.targets[0].id] = st_.value.value
        lo_, hi_ = cvals.get("MINIMUM_SUPPORTED_TRACK_VERSION"), cvals.get("MAXIMUM_SUPPORTED_TRACK_VERSION")
        if lo_ is None or hi_ is None or lo_ > hi_:
            raise AnchorMissing("supported track version bounds (class constants of TrackFileReader)")
        bounds = Record(**cvals)
        try:
            rows = {v: any(bool(ev(r, {next(iter(ver_locals)): v, "TrackFileReader": bounds, "self": bounds})) for r in rej) for v in sorted({lo_ - 1, lo_, hi_, hi_ + 1})}
            ok = rows == {v: not (lo_ <= v <= hi_) for v in rows}
            detail = f"{tests}; with supported versions {lo_}..{hi_} rejected: {sorted(v for v, r in rows.items() if r)}"
        except CannotEval as e:
            ok = False
            detail = f"{tests}; cannot evaluate: {e}"
    else:
        ok = False
    chk.ob("O10.4", "version window check (below minimum / above maximum raise) dominates construction", ok, vt[0] if vt else rd, detail)
    # the version is looked at BEFORE the schema has been applied: whatever JSON value stands there (null, a list, an object; a top-level value that is no object at all) this
    # pre-check must end in a Rally error or let the schema validation reject the specification — never in a bare Python error
    from sa.exc import handler_type_names
    conv = [c for c in walk_body(rd) if isinstance(c, ast.Call) and dotted(c.func) == "int" and c.args and not isinstance(c.args[0], ast.Constant)
            and not gr.dominated_by_nodes(gr.node_of(c), [gr.node_of(val[0])])]
    for c in conv:
        tr_ = source.enclosing(c, ast.Try)
        caught = {n_.split(".")[-1] for h in (tr_.handlers if tr_ is not None else []) for n_ in handler_type_names(h, ldr)} | ({"BaseException"} if tr_ is not None and any(h.type is None for h in tr_.handlers) else set())
        ok = tr_ is not None and ({"TypeError", "ValueError"} <= caught or caught & {"Exception", "BaseException"}) and all(any(isinstance(x, ast.Raise) for x in ast.walk(h)) for h in tr_.handlers)
        chk.ob("O10.4", "conversion of the not-yet-validated version value cannot escape as a Python error", ok, c,
               f"int({short(c.args[0], 30)}) guarded for {sorted(caught)}" + ("" if ok else " — `\"version\": null` (or a list / object) raises TypeError instead of a track syntax error"),
               key=f"{_L}:TrackFileReader.read:version-conversion-guarded")
    raw_reads = [c for c in walk_body(rd) if isinstance(c, ast.Call) and isinstance(c.func, ast.Attribute) and c.func.attr == "get" and c.args and source.is_const(c.args[0], "version")
                 and not gr.dominated_by_nodes(gr.node_of(c), [gr.node_of(val[0])])]
    for c in raw_reads:
        recv = u(c.func.value)
        ok = pat.guarded(c, f"isinstance({recv}, dict)") is not None
        chk.ob("O10.4", "the not-yet-validated specification is only subscripted as an object after an isinstance(dict) test", ok, c,
               "" if ok else f"`{short(c, 50)}` runs before validation on whatever the top-level JSON value is: a list raises AttributeError instead of a track syntax error",
               key=f"{_L}:TrackFileReader.read:version-read-guarded")
    chk.ob("O10.4", "pre-validation version read located", bool(conv) and bool(raw_reads), rd, f"{len(conv)} conversion(s), {len(raw_reads)} read(s)")
    sch = method(ldr, FR, "__init__")
    ok = any(isinstance(n, ast.Assign) and is_self_attr(n.targets[0], "track_schema") and "json.loads" in u(n.value) for n in walk_body(sch)) and any("track-schema.json" in u(n) for n in walk_body(sch))
    chk.ob("O10.4", "the schema is Rally's track-schema.json", ok, sch, "")
    # sibling cross-check inside the schema: a task key is constrained identically wherever it may be written (plain task, parallel element, task inside a parallel element;
    # corpus level and document level)
    import json as _json

    try:
        sj = _json.loads(repo.text(_S))
        items = sj["definitions"]["schedule"]["items"]["properties"]
        par = items["parallel"]["properties"]
        sub = par["tasks"]["items"]["properties"]
        corp = sj["properties"]["corpora"]["items"]["properties"]
        docs_ = corp["documents"]["items"]["properties"]
    except (KeyError, ValueError, TypeError) as e:
        raise AnchorMissing(f"task / parallel / corpus definitions in track-schema.json ({type(e).__name__}: {e})")

    def _strip(o):
        if isinstance(o, dict):
            return {k_: _strip(v_) for k_, v_ in o.items() if k_ != "description"}
        if isinstance(o, list):
            return [_strip(x_) for x_ in o]
        return o

    n_sib = 0
    for group, copies in (("task", (("plain task", items), ("parallel element", par), ("task in parallel", sub))), ("corpus", (("corpus", corp), ("document set", docs_)))):
        for k_ in sorted(set().union(*[set(d_) for _, d_ in copies])):
            if k_ in ("parallel", "tasks", "documents"):
                continue
            have = [(nm, _json.dumps(_strip(d_[k_]), sort_keys=True)) for nm, d_ in copies if k_ in d_]
            if len(have) < 2:
                continue
            n_sib += 1
            ok = len({v_ for _, v_ in have}) == 1
            chk.ob("O10.4", f"schema: '{k_}' is constrained identically in every place it may be written ({group})", ok, sch,
                   "" if ok else "; ".join(f"{nm}: {v_[:70]}" for nm, v_ in have) + " — a value rejected in one place is accepted in another", key=f"esrally/resources/track-schema.json:sibling:{group}:{k_}")
    chk.ob("O10.4", "schema sibling definitions located", n_sib >= 14, sch, f"{n_sib} shared key(s)")
    # the schema may only reject what the documentation rules out: an operation defined in the top-level `operations` block with a value docs/track.rst documents for that
    # operation type (and that the same operation written inline in the schedule — untyped there — loads with) must pass the block's item schema. The item schema is an extracted
    # constant; tiny instances {"name", "operation-type", KEY: VALUE} are validated against it (jsonschema if importable — the library the loader itself applies — else the local
    # draft-04 subset below). Nothing of the repository runs.
    try:
        op_items = sj["properties"]["operations"]["items"]
        if not isinstance(op_items, dict) or not isinstance(op_items.get("properties"), dict):
            raise KeyError("items.properties")
    except (KeyError, TypeError) as e:
        raise AnchorMissing(f"properties.operations.items of track-schema.json ({type(e).__name__}: {e})")
    op_schema = dict(op_items)
    for k_ in ("$schema", "definitions"):
        if k_ in sj:
            op_schema.setdefault(k_, sj[k_])
    accepts = schema_acceptor(op_schema)
    n_doc = 0
    for optype, k_, v_ in DOCUMENTED_OPERATION_VALUES:
        try:
            bare = accepts({"name": "op", "operation-type": optype})
            why = accepts({"name": "op", "operation-type": optype, k_: v_})
        except Unsupported as e:
            chk.unknown("O10.4", f"the item schema of the operations block uses a keyword this check does not interpret: {e}", sch)
            break
        n_doc += 1
        ok = bare is None and why is None
        chk.ob("O10.4", f"schema (operations block): the documented `\"{k_}\": {_json.dumps(v_)}` of a {optype} operation is accepted", ok, sch,
               "" if ok else f"{why or bare} — a valid, documented operation is rejected with a track syntax error when it is defined in the operations block (inline in the schedule it loads)",
               key=f"{_S}:operations-block:{optype}:{k_}:{_json.dumps(v_)}", why="a valid track that follows docs/track.rst is rejected with a track syntax error instead of being loaded")
    chk.ob("O10.4", "documented operation values validated against the operations block", n_doc == len(DOCUMENTED_OPERATION_VALUES), sch, f"{n_doc} value(s)")

    # ---- O10.5 documented rules ------------------------------------------------------------------------------------------------------------------------------------
    chk.rule("O10.5", "documented rules reject: duplicate task / challenge / operation / corpus names (dedupe idiom: membership test on the set/dict the same loop fills); none or several default "
             "challenges; iterations mixed with time periods and ramp-up without sufficient warm-up (decision table over 48 abstract tasks, of which the sixteen without a ramp-up are the value "
             "table {warmup-iterations, iterations} x {warmup-time-period, time-period}: ANY iteration field with ANY time-period field is rejected); ramp-up only on the parallel element; unknown or "
             "ambiguous completed-by; indices together with data streams; reserved and unused track parameters between building and returning the track", 50,
             "a specification violating that rule is loaded and run instead of being rejected")

    def dedupe(func, what, container_hint):
        errs = [c for c in source.calls_in(func) if u(c.func) == "self._error" and c.args and what in u(c.args[0]).lower()]
        ok = False
        detail = "no rejecting site"
        for c in errs:
            # membership fact under which the site rejects, whatever the polarity / arm order of the test that establishes it
            for t in pat.fact_nodes(c):
                if isinstance(t, ast.Compare) and len(t.ops) == 1 and isinstance(t.ops[0], ast.In):
                    cont = u(t.comparators[0])
                    elem = u(t.left)
                    loop = source.enclosing(c, ast.For)
                    fills = [x for x in ast.walk(loop if loop is not None else func) if (isinstance(x, ast.Call) and u(x.func) == f"{cont}.add" and len(x.args) == 1 and u(x.args[0]) == elem) or
                             (isinstance(x, ast.Assign) and isinstance(x.targets[0], ast.Subscript) and u(x.targets[0].value) == cont and u(x.targets[0].slice) == elem)]
                    ok = bool(fills)
                    detail = f"`{u(t)}` rejects; filled by {short(fills[0], 50) if fills else 'NOTHING (the membership test can never be true)'}"
        chk.ob("O10.5", f"duplicate {container_hint} names rejected (dedupe idiom)", ok, errs[0] if errs else func, detail, key=f"{_L}:{func.name}:dedupe:{container_hint}")

    dedupe(cc, "multiple tasks with the name", "task")
    dedupe(cc, "duplicate challenge", "challenge")
    dedupe(method(ldr, SR, "parse_operations"), "duplicate operation", "operation")
    dedupe(cr, "duplicate document corpus", "corpus")
    # default challenge rules
    # roles: the default flag is the local handed to Challenge(default=...); the challenge is the local assigned from track.Challenge(...); the remembered default challenge is the
    # local that receives the challenge exactly when the flag holds; the result list is the local the function returns
    two = [c for c in source.calls_in(cc) if u(c.func) == "self._error" and c.args and "defined as default challenges" in u(c.args[0])]
    flag_local = name_of(chb.get("default"))
    ch_local = name_of(source.enclosing_stmt(chctor[0]).targets[0]) if isinstance(source.enclosing_stmt(chctor[0]), ast.Assign) and len(source.enclosing_stmt(chctor[0]).targets) == 1 else None
    sets = [n for n in walk_body(cc) if isinstance(n, ast.Assign) and len(n.targets) == 1 and isinstance(n.targets[0], ast.Name) and ch_local is not None and name_of(n.value) == ch_local
            and flag_local is not None and exact_facts(n, ["V_f"], binds={"f": flag_local})]
    dc_local = sets[0].targets[0].id if sets else None
    ok = bool(two) and dc_local is not None and exact_facts(two[0], ["V_f", "V_d is not None"], binds={"f": flag_local, "d": dc_local})
    chk.ob("O10.5", "several default challenges rejected", ok, two[0] if two else cc, "")
    none = [c for c in source.calls_in(cc) if u(c.func) == "self._error" and c.args and "No default challenge" in u(c.args[0])]
    res_locals = {name_of(n.value) for n in walk_body(cc) if isinstance(n, ast.Return)}
    res_local = next(iter(res_locals)) if len(res_locals) == 1 else None
    ok = bool(none) and dc_local is not None and res_local is not None and exact_facts(none[0], ["V_r", "V_d is None"], binds={"r": res_local, "d": dc_local}) and source.enclosing(none[0], ast.For) is None
    chk.ob("O10.5", "no default challenge rejected (after all challenges were read)", ok, none[0] if none else cc, "")
    # mixing rules: decision table over abstract tasks
    tstmt = source.enclosing_stmt(tctor[0])
    ptb = source.flat(pt.body)  # the statements of parse_task as written (guard clauses do not nest the rest)
    idx = ptb.index(tstmt) if tstmt in ptb else None
    if idx is None:
        raise AnchorMissing("task construction statement at top level of parse_task")
    # role: the task under validation is the local assigned from track.Task(...)
    task_local = name_of(tstmt.targets[0]) if isinstance(tstmt, ast.Assign) and len(tstmt.targets) == 1 else None
    if task_local is None:
        raise AnchorMissing("`<local> = track.Task(...)` in parse_task")
    # the statements that follow the construction IN ITS OWN BLOCK (guard clauses carry the rest of the block in their synthetic arm, so nothing is listed twice)
    own = next((getattr(source.parent(tstmt), f_) for f_ in ("body", "orelse", "finalbody") if isinstance(getattr(source.parent(tstmt), f_, None), list)
                and any(x is tstmt for x in getattr(source.parent(tstmt), f_))), pt.body)
    block = [s for s in stmts_of(own[[i for i, x in enumerate(own) if x is tstmt][0] + 1:]) if not isinstance(s, ast.Return)]
    n_rows = n_four = 0
    for wi, it, wt, tp, ru in itertools.product([False, True], [False, True], [False, True], [False, True], ["none", "le", "gt"]):
        if ru != "none" and not wt and ru == "le":
            continue  # ramp-up compared with a missing warm-up: covered by the 'gt' representative
        env = {"task": type("T", (), {})()}
        t_ = env["task"]
        t_.warmup_iterations = 100 if wi else None
        t_.iterations = 100 if it else None
        t_.warmup_time_period = 60 if wt else None
        t_.time_period = 600 if tp else None
        t_.ramp_up_time_period = None if ru == "none" else (30 if ru == "le" else 120)

        def atom(n, e_):
            class Sub(ast.NodeTransformer):
                def visit_Attribute(self, a):
                    if isinstance(a.value, ast.Name) and a.value.id == task_local and hasattr(t_, a.attr):
                        return ast.Constant(value=getattr(t_, a.attr))
                    return a

            try:
                return bool(ev(Sub().visit(source.clone(n)), {}))
            except CannotEval:
                return None

        def on_stmt(s, e_, b):
            if isinstance(s, ast.Expr) and isinstance(s.value, ast.Call) and u(s.value.func) == "self._error":
                return Outcome("raise", s.value, [], s)
            if is_logging_stmt(s):
                return "skip"
            return None

        try:
            out = decide(block, atom, {}, on_stmt=on_stmt)
        except (Unsupported, UnknownAtom) as e:
            chk.unknown("O10.5", f"validation block of parse_task is not a decision over the five task fields: {e}", pt)
            break
        rejected = out.kind == "raise"
        # documented rule (property text; the loader's own message: "mixing time periods and iterations is not allowed"): ANY of the two iteration-counted fields together with ANY of the two
        # time-period fields, not only the two crossed pairs (a task carrying iterations AND a time period runs time-based: the iteration count in the file is silently ignored)
        mixed = (wi or it) and (wt or tp)
        want = mixed or ((wi or it) and ru != "none") or (ru != "none" and not wt) or (ru == "gt" and wt)
        n_rows += 1
        fields = [k for k, v in (("warmup-iterations", wi), ("iterations", it), ("warmup-time-period", wt), ("time-period", tp)) if v]
        desc = ", ".join(fields) or "no iteration/time fields"
        desc += {"none": "", "le": ", ramp-up <= warm-up", "gt": ", ramp-up > warm-up period (or no warm-up period)"}[ru]
        # the sixteen rows without a ramp-up ARE the value table over the four fields {warmup-iterations, iterations, warmup-time-period, time-period} x {absent, present}; they carry a
        # stable construct key of their own (one per combination of fields), the rows with a ramp-up keep theirs
        if ru == "none":
            n_four += 1
            row_key = f"{_L}:TrackSpecificationReader.parse_task:mixing:[{'+'.join(fields) or 'none'}]"
            detail = f"code {'rejects' if rejected else 'accepts'}; documented: {'reject' if want else 'accept'}"
            if want and not rejected:
                detail += (f" — the validation chain behind the Task construction has no arm for this combination: the task is loaded with both {fields[0]} and {fields[-1]}, "
                           "the driver schedules it time-based and ignores the iteration count written in the file")
        else:
            row_key = f"{_L}:parse_task:mix:{wi}|{it}|{wt}|{tp}|{ru}"
            detail = f"code {'rejects' if rejected else 'accepts'}; documented: {'reject' if want else 'accept'}"
        chk.ob("O10.5", f"task with {desc}: {'rejected' if want else 'accepted'}", rejected == want, pt, detail, key=row_key)
    chk.ob("O10.5", "mixing-rule table evaluated", n_rows >= 40, pt, f"{n_rows} abstract tasks")
    chk.ob("O10.5", "four-field table (iteration fields x time-period fields, no ramp-up) evaluated on all sixteen combinations", n_four == 16, pt, f"{n_four} combination(s)")
    # ramp-up only on the parallel element
    # roles: the parallel's ramp-up is the local handed to parse_task(default_ramp_up_time_period=...); a sub-task is the loop variable of a loop over the sub-task list
    def subtask_var(site):
        """loop variable of the enclosing loop over the sub-task list (the list handed to Parallel), or None."""
        for a in source.ancestors(site):
            if isinstance(a, ast.For) and tasks_local is not None and name_of(a.iter) == tasks_local and name_of(a.target):
                return a.target.id
        return None

    ru_err = [c for c in source.calls_in(pp) if u(c.func) == "self._error" and c.args and "ramp-up-time-period" in u(c.args[0])]
    ru_local = name_of(pb.get("default_ramp_up_time_period"))
    ok = len(ru_err) == 2 and ru_local is not None and all(subtask_var(c) is not None and pat.guarded(c, "V_t.ramp_up_time_period != V_d", binds={"t": subtask_var(c), "d": ru_local}) is not None for c in ru_err)
    chk.ob("O10.5", "a task inside a parallel element may not set its own ramp-up", ok, ru_err[0] if ru_err else pp, "")
    # completed-by. roles: the completing task's name is the local handed to parse_task(completed_by_name=...); the found-flag is the local set to True for a sub-task that completes its parent
    cb_err = [c for c in source.calls_in(pp) if u(c.func) == "self._error" and c.args and "completed-by" in u(c.args[0])]
    no_task = [c for c in cb_err if "no task with this name" in u(c.args[0])]
    multi = [c for c in cb_err if "multiple tasks" in u(c.args[0])]
    cb_local = name_of(pb.get("completed_by_name"))
    found_flags = {n.targets[0].id for n in walk_body(pp) if isinstance(n, ast.Assign) and len(n.targets) == 1 and isinstance(n.targets[0], ast.Name) and source.is_const(n.value, True)
                   and subtask_var(n) is not None and pat.guarded(n, "V_t.completes_parent", binds={"t": subtask_var(n)}) is not None}
    found_local = next(iter(found_flags)) if len(found_flags) == 1 else None
    ok = bool(no_task) and cb_local is not None and found_local is not None and exact_facts(no_task[0], ["V_c", "not V_f"], binds={"c": cb_local, "f": found_local}) and source.enclosing(no_task[0], ast.For) is None
    chk.ob("O10.5", "unknown completed-by task rejected", ok, no_task[0] if no_task else pp, "")
    ok = bool(multi) and subtask_var(multi[0]) is not None and pat.guarded(multi[0], "V_t.completes_parent", binds={"t": subtask_var(multi[0])}) is not None
    chk.ob("O10.5", "ambiguous completed-by (several tasks with that name) rejected", ok, multi[0] if multi else pp, "")
    # indices + data streams
    call = method(ldr, SR, "__call__")
    both = [n for f in (call, cr) for n in walk_body(f) if isinstance(n, ast.Raise) and "cannot both be specified" in u(n.exc)]
    # roles: in _create_corpora the two collections are its parameters; in __call__ they are the locals handed to self._create_corpora(..., indices, data_streams)
    ccall = [c for c in source.calls_in(call) if u(c.func) == "self._create_corpora"]
    cb_ = bind_args(ccall[0], cr) if ccall else {}
    coll = {id(cr): ("indices", "data_streams"), id(call): (name_of(cb_.get("indices")), name_of(cb_.get("data_streams")))}
    ok = len(both) >= 1 and all(all(coll[id(source.enclosing_func(n))]) and exact_facts(n, ["len(V_i) > 0", "len(V_d) > 0"], binds=dict(zip("id", coll[id(source.enclosing_func(n))]))) for n in both)
    chk.ob("O10.5", "indices together with data streams rejected", ok, both[0] if both else call, "")
    # ... and rejected for EVERY track: one rejecting site must sit on every path of the reader to the Track construction (a copy inside a helper that can return early does not count)
    gcall = cfg_of(call)
    tctor = [c for c in source.calls_in(call) if dotted(c.func) == "track.Track"]
    own = [n for n in both if source.enclosing_func(n) is call]
    own_ifs = [source.enclosing(n, ast.If) for n in own]
    ok = bool(tctor) and any(i is not None and gcall.dominated_by_nodes(gcall.node_of(tctor[0]), [gcall.node_of(i)]) for i in own_ifs)
    if not ok and tctor:
        # alternatively the helper's check is its first statement and the helper is called unconditionally before the construction
        first = [s_ for s_ in source.flat(cr.body) if not (isinstance(s_, ast.Expr) and isinstance(s_.value, ast.Constant))]
        in_helper = [n for n in both if source.enclosing_func(n) is cr]
        ok = bool(first) and bool(in_helper) and source.enclosing(in_helper[0], ast.If) is first[0] and bool(ccall) and gcall.dominated_by_nodes(gcall.node_of(tctor[0]), [gcall.node_of(ccall[0])])
    chk.ob("O10.5", "the indices / data-streams exclusion is tested on every path to the Track construction", ok, own[0] if own else call,
           "" if ok else "the only remaining test sits in a helper behind an early return: a track with both lists and no corpora is loaded", key=f"{_L}:TrackSpecificationReader.__call__:both-rejected-on-every-path")
    # reserved / unused track params between building and returning
    rets = [n for n in source.flat(rd.body) if isinstance(n, ast.Return)]
    for what, meth in (("reserved", "internal_user_defined_track_params"), ("unused", "unused_user_defined_track_params")):
        cs = [c for c in source.calls_in(rd) if last_attr(c.func) == meth]
        ok = False
        if cs and rets:
            v = source.enclosing_stmt(cs[0]).targets[0].id if isinstance(source.enclosing_stmt(cs[0]), ast.Assign) else None
            # the test that rejects when the list is non-empty, whichever arm holds the raise
            tests = [n for n in source.flat(rd.body) if isinstance(n, ast.If) and v is not None and pat.is_(rejecting_condition(gr, n), "len(V_v) > 0", "len(V_v) != 0", "len(V_v) >= 1", "V_v", binds={"v": v})]
            ok = bool(tests) and gr.dominated_by_nodes(gr.node_of(cs[0]), [bn]) and gr.dominated_by_nodes(gr.node_of(rets[-1]), [gr.node_of(tests[0])]) \
                and any(isinstance(x, ast.Raise) and "TrackConfigError" in u(x.exc) for x in ast.walk(tests[0]))
        chk.ob("O10.5", f"{what} track parameters rejected between building and returning the track", ok, cs[0] if cs else rd, "")
    CT = ldr.cls("CompleteTrackParams")
    un = method(ldr, CT, "unused_user_defined_track_params")
    ok = any(isinstance(c, ast.Call) and last_attr(c.func) == "difference_update" and len(c.args) == 1 and u(c.args[0]) == "self.track_defined_params" for c in walk_body(un))
    chk.ob("O10.5", "unused == user-specified minus track-defined parameters", ok, un, "")
    iu = method(ldr, CT, "internal_user_defined_track_params")
    ok = any(isinstance(n, ast.BinOp) and isinstance(n.op, ast.BitAnd) for n in walk_body(iu)) and any("default_internal_template_vars()['globals']" in u(n) for n in walk_body(iu))
    chk.ob("O10.5", "reserved == user-specified intersected with Rally's internal globals", ok, iu, "")
    # the reserved names are a FIXED set: the function that lists Rally's internal globals returns them whatever its arguments are (it is called without arguments when the
    # reserved / unused parameters are computed and with the real values when the track is rendered)
    div = ldr.func("default_internal_template_vars")
    drets = [n for n in walk_body(div) if isinstance(n, ast.Return)]
    gkeys, cond_keys = set(), []
    if len(drets) == 1:
        rv_ = drets[0].value
        rv_ = local_defs(div).get(rv_.id, rv_) if isinstance(rv_, ast.Name) else rv_
        if isinstance(rv_, ast.Dict):
            gd = next((v_ for k_, v_ in zip(rv_.keys, rv_.values) if source.is_const(k_, "globals")), None)
            if isinstance(gd, ast.Dict):
                gkeys = {k_.value for k_ in gd.keys if isinstance(k_, ast.Constant)}
    for n in walk_body(div):
        if isinstance(n, ast.Assign) and isinstance(n.targets[0], ast.Subscript) and "globals" in u(n.targets[0]) and pat.fact_nodes(n):
            cond_keys.append(n)
    want_g = {"build_flavor", "serverless_operator", "now", "glob"}
    ok = want_g <= gkeys and not cond_keys
    chk.ob("O10.5", "Rally's internal globals (the reserved names) are listed unconditionally", ok, cond_keys[0] if cond_keys else div,
           f"unconditional: {sorted(gkeys)}" + ("" if ok else f"; missing or only conditionally present: {sorted(want_g - gkeys)} — a user parameter of that name is neither rejected as reserved nor as unused"),
           key=f"{_L}:default_internal_template_vars:reserved-names-fixed")
    from rules.C05 import throughput_pattern_rule

    throughput_pattern_rule(chk, "O10.2", trk)
    # operation missing / unknown source format
    chk.ob("O10.5", "task without operation rejected", any(isinstance(n, ast.Raise) and exact_facts(n, [f"'operation' not in {params_of(pt)[1]}"]) for n in walk_body(pt)), pt, "")

    # ---- O10.6 parameter accounting ----------------------------------------------------------------------------------------------------------------------------------
    chk.rule("O10.6", "every template that is rendered has its undeclared variables registered with the accounting object before rendering (track file and every included index / template body); "
             "nested includes resolve relative to the including file; the parts Jinja itself pulls in at render time ({% include %}, any spelling of the collect helper call) are seen by the "
             "accounting too", 5,
             "a track parameter used only in an included body is reported as unused (valid track rejected) / parts vanish from the assembled track")
    for f in ldr.functions():
        rcalls = [c for c in source.calls_in(f) if last_attr(c.func) == "render_template" and f.name != "render_template"]
        for rc in rcalls:
            g = cfg_of(f)
            regs = [c for c in source.calls_in(f) if last_attr(c.func) == "register_all_params_in_track"]
            src = arg_of(rc, 0, "template_source")
            ok = bool(regs) and g.dominated_by_nodes(g.node_of(rc), [g.node_of(x) for x in regs]) and src is not None and any(u(arg_of(x, 0, "assembled_source")) == u(src) for x in regs) \
                and all(arg_of(x, 1, "complete_track_params") is not None and "complete_track_params" in u(arg_of(x, 1, "complete_track_params")) for x in regs)
            chk.ob("O10.6", f"{source.qualname(f)}: variables registered before rendering the same source", ok, rc, "")
    ra = ldr.func("register_all_params_in_track")
    ok = any(isinstance(c, ast.Call) and last_attr(c.func) == "find_undeclared_variables" for c in walk_body(ra)) and any(isinstance(c, ast.Call) and last_attr(c.func) == "populate_track_defined_params" for c in walk_body(ra))
    chk.ob("O10.6", "registration collects the undeclared variables of the assembled source", ok, ra, "")
    pop = method(ldr, CT, "populate_track_defined_params")
    ok = any(isinstance(c, ast.Call) and u(c.func) == "self.track_defined_params.update" for c in walk_body(pop))
    chk.ob("O10.6", "registrations accumulate (update, not replace)", ok, pop, "")
    TS = ldr.cls("TemplateSource")
    ri = method(ldr, TS, "replace_includes")
    rec = [c for c in source.calls_in(ri) if u(c.func) == "self.replace_includes"]
    ok = False
    detail = "no recursive call"
    if rec:
        b = bind_args(rec[0], ri)
        bp = b.get("base_path")
        # role: the included file's path is the single-assignment local handed to dirname(...); it must be the including base path joined with the matched pattern
        inc_local = name_of(bp.args[0]) if isinstance(bp, ast.Call) and len(bp.args) == 1 else None
        ok = bp is not None and isinstance(bp, ast.Call) and last_attr(bp.func) == "dirname" and inc_local is not None and pat.is_(local_defs(ri).get(inc_local), "os.path.join(base_path, E_pattern)")
        detail = f"base_path={u(bp) if bp is not None else None}"
    chk.ob("O10.6", "nested includes resolve relative to the included file's directory", ok, rec[0] if rec else ri, detail)
    # included text is inserted verbatim: a non-constant replacement handed to re.sub must be a function (a string is a TEMPLATE: backslashes and group references in the
    # included JSON would be re-interpreted)
    n_sub = 0
    for f_ in ldr.methods(TS).values():
        fdefs_ = {x.name for x in ast.walk(f_) if isinstance(x, (ast.FunctionDef, ast.Lambda)) and hasattr(x, "name")}
        for c in source.calls_in(f_):
            if last_attr(c.func) not in ("sub", "subn") or not isinstance(c.func, ast.Attribute):
                continue
            is_mod = dotted(c.func) in ("re.sub", "re.subn")
            repl = source.arg_of(c, 1 if is_mod else 0, "repl")
            if repl is None:
                continue
            n_sub += 1
            fn_ok = isinstance(repl, ast.Lambda) or (isinstance(repl, ast.Name) and repl.id in fdefs_) or (isinstance(repl, ast.Attribute) and isinstance(repl.value, ast.Name) and repl.value.id == "self")
            const_ok = isinstance(repl, ast.Constant) and isinstance(repl.value, str) and "\\" not in repl.value
            esc_ok = isinstance(repl, ast.Call) and last_attr(repl.func) == "replace" and "\\" in u(repl)
            chk.ob("O10.6", f"TemplateSource.{f_.name}: substituted text is inserted verbatim (function replacement)", fn_ok or const_ok or esc_ok, c,
                   short(c, 80) + ("" if (fn_ok or const_ok or esc_ok) else " — the replacement is a string built from file contents: re.sub treats it as a template, so `\\t`, `\\n`, `\\\\` and `\\1` in the included part change"),
                   key=f"{_L}:TemplateSource.{f_.name}:sub-verbatim")
    chk.ob("O10.6", "include substitution located", n_sub >= 1, ri, f"{n_sub} re.sub site(s) in TemplateSource")
    # parts reach the rendered track in two ways: textually (the pattern replace_includes substitutes) or through Jinja itself at render time ({% include %}, also the fall-back
    # inside the collect macro). Track parameters used in a part are substituted in both cases (globals are visible in includes), so the accounting that decides "unused
    # track parameter" has to see those parts as well.
    # role: the inlining pattern is the compiled regular expression whose findall / finditer / sub is applied to the fragment in replace_includes (a class-level constant)
    appl = [c.func.value for c in source.calls_in(ri) if isinstance(c.func, ast.Attribute) and c.func.attr in ("findall", "finditer", "sub", "subn", "search")]
    pat_attrs = {x.attr for x in appl if isinstance(x, ast.Attribute) and dotted(x) is not None and dotted(x).split(".")[0] in ("TemplateSource", "self", "cls")}
    pat_globals = {x.id for x in appl if isinstance(x, ast.Name)}  # ... or a module-level constant
    inline_res = []
    for n in [n_ for body_, names_ in ((TS.body, pat_attrs), (ldr.tree.body, pat_globals)) for n_ in body_
              if isinstance(n_, ast.Assign) and len(n_.targets) == 1 and name_of(n_.targets[0]) in names_]:
        if isinstance(n.value, ast.Call) and dotted(n.value.func) == "re.compile" and n.value.args and isinstance(n.value.args[0], ast.Constant) and isinstance(n.value.args[0].value, str):
            flags = 0
            fl = arg_of(n.value, 1, "flags")
            for x in ([] if fl is None else [x_ for x_ in ast.walk(fl) if isinstance(x_, ast.Attribute)]):
                if dotted(x) is None or not dotted(x).startswith("re.") or not isinstance(getattr(re, x.attr, None), re.RegexFlag):
                    raise AnchorMissing(f"flags of {u(n.value)[:60]} are not re.<FLAG> constants")
                flags |= getattr(re, x.attr)
            try:
                inline_res.append((n, re.compile(n.value.args[0].value, flags)))
            except re.error as e:
                raise AnchorMissing(f"the inlining pattern of TemplateSource does not compile: {e}")
    if not inline_res:
        raise AnchorMissing("class- or module-level `re.compile(<literal>)` whose findall / sub is applied in TemplateSource.replace_includes")
    part = "parts/*.json"

    def inlined(text):
        """some inlining pattern recognises the text as a reference to `part` (the captured group is what replace_includes globs for)."""
        return any(m is not None and part in m.groups() for m in (rx.search(text) for _, rx in inline_res))

    canonical = '{{ rally.collect(parts="parts/*.json") }}'
    chk.ob("O10.6", "the documented spelling of the collect helper is inlined for parameter accounting", inlined(f'"operations": [ {canonical} ]'), inline_res[0][0], canonical)
    # every spelling of the same call that Jinja parses to the same thing renders the parts too (through the macro) — the accounting must not depend on the spelling
    spellings = {"no blanks inside the braces": '{{rally.collect(parts="parts/*.json")}}', "single quotes": "{{ rally.collect(parts='parts/*.json') }}",
                 "positional argument": '{{ rally.collect("parts/*.json") }}', "whitespace control": '{{- rally.collect(parts="parts/*.json") -}}',
                 "blanks inside the call": '{{ rally.collect( parts = "parts/*.json" ) }}'}
    unseen = [f"{nm}: {sp}" for nm, sp in spellings.items() if not inlined(f'"operations": [ {sp} ]')]
    chk.ob("O10.6", "every spelling of the collect helper call that Jinja renders is recognised for parameter accounting (blanks, quote style, positional argument, whitespace control)",
           not unseen, inline_res[0][0],
           "" if not unseen else f"not recognised by {inline_res[0][1].pattern!r}: {'; '.join(unseen)} — the parts are still rendered (the macro includes them), but the parameters they use "
           "are never registered: a user who sets one gets 'Unused track parameters' and the valid track is rejected",
           key=f"{_L}:TemplateSource.replace_includes:collect-helper-spellings")
    # templates pulled in by Jinja's own {% include "..." %} (documented in docs/adding_tracks.rst): the accounting follows them — it asks Jinja for the referenced templates
    # (meta.find_referenced_templates / a walk over Include nodes) in the code that assembles or registers the source, or a textual inlining pattern recognises the tag
    acct = [ra] + list(ldr.methods(TS).values()) + [f for f in ldr.functions() if f is not ra and any(last_attr(c.func) == "register_all_params_in_track" for c in source.calls_in(f))]
    follows = [c for f in acct for c in ast.walk(f) if isinstance(c, ast.Call) and (
        last_attr(c.func) == "find_referenced_templates"
        or (last_attr(c.func) in ("find_all", "find") and any(isinstance(x, (ast.Attribute, ast.Name)) and last_attr(x) == "Include" for a_ in c.args for x in ast.walk(a_))))]
    tag_inlined = all(inlined(t_) for t_ in ('{% include "parts/*.json" %}', "{% include 'parts/*.json' %}", '{%- include "parts/*.json" -%}'))
    ok = bool(follows) or tag_inlined
    chk.ob("O10.6", "parameter accounting follows the templates Jinja includes at render time ({% include %})", ok, follows[0] if follows else ra,
           "" if ok else f"register_all_params_in_track sees the assembled text only ({len(acct)} function(s) of the assembling / registering code looked at: no find_referenced_templates, no walk "
           "over Include nodes, and the inlining pattern does not recognise the tag): a parameter used only in a part included with {% include %} is reported as unused and the valid track is rejected",
           key=f"{_L}:register_all_params_in_track:jinja-includes-followed")
    lf = method(ldr, TS, "load_template_from_file")
    ok = any(isinstance(c, ast.Call) and u(c.func) == "self.replace_includes" and u(bind_args(c, ri).get("base_path")) == "self.base_path" for c in walk_body(lf))
    chk.ob("O10.6", "top-level includes resolve relative to the track's directory", ok, lf, "")
    # built-in macros (embedded Jinja source): parsed with jinja2's own parser, never rendered
    rt0 = ldr.func("render_template")
    # role: the macro sources are the list joined into the 'rally.helpers' entry of the DictLoader (through one local)
    helper_srcs = [b_.get("m") for _, b_ in pat.find(rt0, "{'rally.helpers': ''.join(V_m)}")]
    macro_lists = [n.value for n in walk_body(rt0) if isinstance(n, ast.Assign) and len(n.targets) == 1 and name_of(n.targets[0]) in helper_srcs and isinstance(n.value, ast.List)]
    macro_lists += [d_.values[0].args[0] for d_ in walk_body(rt0) if isinstance(d_, ast.Dict) and len(d_.keys) == 1 and source.is_const(d_.keys[0], "rally.helpers") and pat.is_(d_.values[0], "''.join(E_l)") and isinstance(d_.values[0].args[0], ast.List)]
    macro_texts = [e.value for l_ in macro_lists for e in l_.elts if isinstance(e, ast.Constant) and isinstance(e.value, str)]
    try:
        import jinja2
        import jinja2.nodes as jn

        n_def = 0
        for mt_ in macro_texts:
            tree = jinja2.Environment().parse(mt_)
            for f_ in tree.find_all(jn.Filter):
                if f_.name == "default":
                    n_def += 1
                    boolean = (len(f_.args) >= 2 and not (isinstance(f_.args[1], jn.Const) and f_.args[1].value is False)) or any(k.key == "boolean" and not (isinstance(k.value, jn.Const) and k.value.value is False) for k in f_.kwargs)
                    chk.ob("O10.6", "built-in macro: `default` filter replaces only UNDEFINED values (not boolean mode)", not boolean, rt0,
                           "" if not boolean else "default(x, true) also replaces defined falsy values: a user-supplied 0 / false / '' is silently overridden by the track's default")
        chk.ob("O10.6", "built-in macros parsed", len(macro_texts) >= 2 and n_def >= 1, rt0, f"{len(macro_texts)} macro source(s), {n_def} default filter(s)")
    except ImportError:
        chk.adv("O10.6", "jinja2 is not importable in this interpreter: the embedded macro sources were not parsed", rt0)

    # user variables never override internal ones: internal applied after user vars
    rt = ldr.func("render_template")
    g = cfg_of(rt)
    # role: the environment is the local assigned from jinja2.Environment(...) (the one the template is created from)
    envs = set(assigned_from(rt, lambda c: dotted(c.func) == "jinja2.Environment"))
    if len(envs) != 1:
        raise AnchorMissing(f"one local assigned from jinja2.Environment(...) in render_template (found {sorted(envs)})")
    env_local = envs.pop()
    uv = [n for n in walk_body(rt) if isinstance(n, ast.Assign) and len(n.targets) == 1 and pat.is_(n.targets[0], "V_env.globals[E_k]", binds={"env": env_local})]
    iv = [n for n in walk_body(rt) if isinstance(n, ast.Assign) and len(n.targets) == 1 and pat.is_(n.targets[0], "getattr(V_env, E_kind)[E_k]", binds={"env": env_local})]
    ok = bool(uv) and bool(iv) and not g.path_exists(g.node_of(iv[0]), g.node_of(uv[0]))
    chk.ob("O10.6", "internal template variables are applied after (and so win over) user variables", ok, iv[0] if iv else rt, "")


from sa.selftest import V  # noqa: E402

VARIANTS = [
    V("one registry arm dropped", "break", _T, "        elif v == \"bulk\":\n            return OperationType.Bulk\n", "", "O10.1"),
    V("duplicate literal", "break", _T, "        elif v == \"node-stats\":\n            return OperationType.NodeStats", "        elif v == \"index-stats\":\n            return OperationType.NodeStats", "O10.1"),
    V("literal returns another member", "break", _T, "        elif v == \"scroll-search\":\n            return OperationType.ScrollSearch", "        elif v == \"scroll-search\":\n            return OperationType.Search", "O10.1"),
    V("warmup-iterations/iterations keys swapped", "break", _L, "            iterations=self._r(task_spec, \"iterations\", error_ctx=op.name, mandatory=False, default_value=default_iterations),", "            iterations=self._r(task_spec, \"warmup-iterations\", error_ctx=op.name, mandatory=False, default_value=default_iterations),", "O10.2"),
    V("wrong default for warmup-iterations", "break", _L, "                task_spec, \"warmup-iterations\", error_ctx=op.name, mandatory=False, default_value=default_warmup_iterations", "                task_spec, \"warmup-iterations\", error_ctx=op.name, mandatory=False, default_value=default_iterations", "O10.2"),
    V("parallel passes defaults in the wrong order", "break", _L, "                    default_warmup_time_period,\n                    default_time_period,\n                    default_ramp_up_time_period,", "                    default_time_period,\n                    default_warmup_time_period,\n                    default_ramp_up_time_period,", "O10.2"),
    V("compressed/uncompressed bytes swapped", "break", _L, "                        compressed_size_in_bytes=compressed_bytes,\n                        uncompressed_size_in_bytes=uncompressed_bytes,", "                        compressed_size_in_bytes=uncompressed_bytes,\n                        uncompressed_size_in_bytes=compressed_bytes,", "O10.2"),
    V("_error only logs", "break", _L, "        raise TrackSyntaxError(\"Track '%s' is invalid. %s\" % (self.name, msg))", "        logging.getLogger(__name__).error(\"Track '%s' is invalid. %s\", self.name, msg)", "O10.3"),
    V("validation error swallowed", "break", _L, "        except jsonschema.exceptions.ValidationError as ve:\n            raise TrackSyntaxError(", "        except jsonschema.exceptions.ValidationError as ve:\n            self.logger.warning(", "O10.4"),
    V("dedupe add removed (task names)", "break", _L, "                    else:\n                        known_task_names.add(sub_task.name)", "                    else:\n                        pass", "O10.5"),
    V("dedupe add removed (challenge names)", "break", _L, "            known_challenge_names.add(name)\n", "", "O10.5"),
    V("seed m3: ramp-up rule needs both iteration fields", "break", _L, "        if (task.warmup_iterations is not None or task.iterations is not None) and task.ramp_up_time_period is not None:", "        if task.warmup_iterations is not None and task.iterations is not None and task.ramp_up_time_period is not None:", "O10.5"),
    V("or -> and in a mixing rule", "break", _L, "        if task.warmup_iterations is not None and task.time_period is not None:", "        if task.warmup_iterations is not None and task.time_period is not None and task.iterations is not None:", "O10.5"),
    V("ramp-up may exceed warm-up", "break", _L, "            elif task.warmup_time_period < task.ramp_up_time_period:", "            elif task.warmup_time_period < 0:", "O10.5"),
    V("unused parameters only logged", "break", _L, "            raise exceptions.TrackConfigError(f\"Unused track parameters {sorted(unused_user_defined_track_params)}.\")", "            pass", "O10.5"),
    V("no registration for included templates", "break", _L, "        self.logger.info(\"Loading template [%s].\", description)\n        register_all_params_in_track(contents, self.complete_track_params)", "        self.logger.info(\"Loading template [%s].\", description)", "O10.6"),
    V("seed m2: nested includes relative to the outer base", "break", _L, "                repl[glob_pattern] = self.replace_includes(base_path=io.dirname(full_glob_path), track_fragment=sub_source)", "                repl[glob_pattern] = self.replace_includes(base_path=base_path, track_fragment=sub_source)", "O10.6"),
    V("seed m1: default filter in boolean mode", "break", _L, "{{ value | default(default_value) | tojson }}", "{{ value | default(default_value, true) | tojson }}", "O10.6"),
    V("version window: maximum check compares the wrong way", "break", _L, "        if TrackFileReader.MAXIMUM_SUPPORTED_TRACK_VERSION < track_version:", "        if TrackFileReader.MAXIMUM_SUPPORTED_TRACK_VERSION > track_version:", "O10.4"),
    V("version window: minimum itself rejected", "break", _L, "        if TrackFileReader.MINIMUM_SUPPORTED_TRACK_VERSION > track_version:", "        if TrackFileReader.MINIMUM_SUPPORTED_TRACK_VERSION >= track_version:", "O10.4"),
    V("another spec validated than the one built", "break", _L, "            jsonschema.validate(track_spec, self.track_schema)", "            jsonschema.validate({}, self.track_schema)", "O10.4"),
    V("second default challenge only rejected when selected", "break", _L, "            if default and default_challenge is not None:", "            if default and default_challenge is not None and selected:", "O10.5"),
    V("indices OR data streams rejected", "break", _L, "        if len(indices) > 0 and len(data_streams) > 0:\n            # we guard", "        if len(indices) > 0 or len(data_streams) > 0:\n            # we guard", "O10.5"),
    V("sub-task ramp-up compared with another default", "break", _L, "            if task.ramp_up_time_period != default_ramp_up_time_period:", "            if task.ramp_up_time_period != default_time_period:", "O10.5"),
    V("missing completed-by task check inverted", "break", _L, "            if not has_completion_task:", "            if has_completion_task:", "O10.5"),
    V("Parallel built from another list", "break", _L, "        return track.Parallel(tasks, clients)", "        return track.Parallel(ops, clients)", "O10.2"),
    V("task gets the operation table instead of the operation", "break", _L, "            operation=op,\n", "            operation=ops,\n", "O10.2"),
    # F35 (repaired in rally f556e67): corpus-level target-index / target-data-stream / target-type are read whatever the track's own indices / data-streams sections contain
    V("F35 reverted: corpus-level target-index only read when the track defines indices", "break", _L,
      "            else:\n                corpus_target_idx = self._r(corpus_spec, \"target-index\", mandatory=False)",
      "            elif len(indices) > 0:\n                corpus_target_idx = self._r(corpus_spec, \"target-index\", mandatory=False)", "O10.2"),
    V("F35 reverted: corpus-level target-data-stream only read when the track defines data streams", "break", _L,
      "            else:\n                corpus_target_ds = self._r(corpus_spec, \"target-data-stream\", mandatory=False)",
      "            elif len(data_streams) > 0:\n                corpus_target_ds = self._r(corpus_spec, \"target-data-stream\", mandatory=False)", "O10.2"),
    V("F35 reverted: corpus-level target-type only read when the track defines indices", "break", _L,
      "            else:\n                corpus_target_type = self._r(corpus_spec, \"target-type\", mandatory=False)",
      "            elif len(indices) > 0:\n                corpus_target_type = self._r(corpus_spec, \"target-type\", mandatory=False)", "O10.2"),
    V("F35 equivalent break: corpus-level target-type reset after it was read", "break", _L,
      "                corpus_target_type = self._r(corpus_spec, \"target-type\", mandatory=False)\n",
      "                corpus_target_type = self._r(corpus_spec, \"target-type\", mandatory=False)\n            if len(indices) == 0:\n                corpus_target_type = None\n", "O10.2"),
    # F36 (repaired in rally b7e7eb0): the operations block of the schema accepts the documented pages: "all" and a list of index names
    V("F36 reverted: pages of the operations block is an integer only", "break", _S, "\"anyOf\": [{\"type\": \"integer\", \"minimum\": 1}, {\"enum\": [\"all\"]}],",
      "\"type\": \"integer\",\n            \"minimum\": 1,", "O10.4"),
    V("F36 reverted: index of the operations block is a string only", "break", _S, "\"anyOf\": [{\"type\": \"string\"}, {\"type\": \"array\", \"items\": {\"type\": \"string\"}}],",
      "\"type\": \"string\",", "O10.4"),
    V("F36 equivalent break: the list form of index needs two entries and integers", "break", _S, "\"anyOf\": [{\"type\": \"string\"}, {\"type\": \"array\", \"items\": {\"type\": \"string\"}}],",
      "\"anyOf\": [{\"type\": \"string\"}, {\"type\": \"array\", \"items\": {\"type\": \"integer\"}}],", "O10.4"),
    # preserving
    V("F35 respelled: else -> elif with the complementary test", "keep", _L,
      "            else:\n                corpus_target_idx = self._r(corpus_spec, \"target-index\", mandatory=False)",
      "            elif len(indices) != 1:\n                corpus_target_idx = self._r(corpus_spec, \"target-index\", mandatory=False)"),
    V("F35 respelled: arms swapped under the inverted test", "keep", _L,
      "            if len(data_streams) == 1:\n                corpus_target_ds = self._r(corpus_spec, \"target-data-stream\", mandatory=False, default_value=data_streams[0].name)\n"
      "            else:\n                corpus_target_ds = self._r(corpus_spec, \"target-data-stream\", mandatory=False)\n",
      "            if len(data_streams) != 1:\n                corpus_target_ds = self._r(corpus_spec, \"target-data-stream\", mandatory=False)\n"
      "            else:\n                corpus_target_ds = self._r(corpus_spec, \"target-data-stream\", mandatory=False, default_value=data_streams[0].name)\n"),
    V("F35 respelled: size of the section held in a local, De Morgan in the else test", "keep", _L,
      "            if len(indices) == 1 and len(indices[0].types) == 1:\n                corpus_target_type = self._r(corpus_spec, \"target-type\", mandatory=False, default_value=indices[0].types[0])\n            else:\n",
      "            if len(indices) == 1 and len(indices[0].types) == 1:\n                corpus_target_type = self._r(corpus_spec, \"target-type\", mandatory=False, default_value=indices[0].types[0])\n"
      "            elif len(indices) != 1 or len(indices[0].types) != 1:\n"),
    V("F36 respelled: oneOf / string pattern instead of anyOf / enum", "keep", _S, "\"anyOf\": [{\"type\": \"integer\", \"minimum\": 1}, {\"enum\": [\"all\"]}],",
      "\"oneOf\": [{\"type\": \"integer\", \"minimum\": 1}, {\"type\": \"string\", \"pattern\": \"^all$\"}],"),
    V("F36 respelled: type list instead of anyOf", "keep", _S, "\"anyOf\": [{\"type\": \"string\"}, {\"type\": \"array\", \"items\": {\"type\": \"string\"}}],",
      "\"type\": [\"string\", \"array\"], \"items\": {\"type\": \"string\"},"),
    V("registry literal on the left", "keep", _T, "        elif v == \"bulk\":", "        elif \"bulk\" == v:"),
    V("registry chain split into separate ifs", "keep", _T, "        elif v == \"bulk\":", "        if v == \"bulk\":"),
    V("version window via negated <=", "keep", _L, "        if TrackFileReader.MINIMUM_SUPPORTED_TRACK_VERSION > track_version:", "        if not (TrackFileReader.MINIMUM_SUPPORTED_TRACK_VERSION <= track_version):"),
    V("reserved parameters tested by truthiness", "keep", _L, "        if len(internal_user_defined_track_params) > 0:", "        if internal_user_defined_track_params:"),
    V("keyword arguments in Parallel(...) / validate(...)", "keep", _L, "        return track.Parallel(tasks, clients)", "        return track.Parallel(clients=clients, tasks=tasks)"),
    V("second-default test operands swapped", "keep", _L, "            if default and default_challenge is not None:", "            if default_challenge is not None and default:"),
    V("missing completed-by task check with inverted arms", "keep", _L, "            if not has_completion_task:\n                self._error(", "            if has_completion_task:\n                pass\n            else:\n                self._error("),
    V("keyword reorder in Task(...)", "keep", _L, "            name=task_name,\n            operation=op,", "            operation=op,\n            name=task_name,"),
    V("mixing rule operands swapped", "keep", _L, "        if task.warmup_iterations is not None and task.time_period is not None:", "        if task.time_period is not None and task.warmup_iterations is not None:"),
    V("De Morgan in the ramp-up rule", "keep", _L, "        if (task.warmup_iterations is not None or task.iterations is not None) and task.ramp_up_time_period is not None:", "        if not (task.warmup_iterations is None and task.iterations is None) and task.ramp_up_time_period is not None:"),
]
