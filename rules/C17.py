"""C17 — metrics store calls survive transient faults and never repeat after success (DESIGN.md section 4, C17)."""
from __future__ import annotations

import ast

from sa import minieval, source
from sa.minieval import CannotEval, Record
from sa.exc import Hierarchy, handler_type_names
from sa.source import AnchorMissing, dotted, is_self_attr, last_attr, local_defs, params_of, short, u, walk_body
from sa.sym import UnknownAtom
from sa.tables import Outcome, Unsupported, decide

_M = "esrally/metrics.py"
_E = "esrally/exceptions.py"

RETRYABLE = {429, 502, 503, 504}

# (label, raised class, ApiError status or None, kind) ; kind: 'transient' retry while budget, 'fatal' raise always
CASES = [
    ("connection timeout", "elasticsearch.ConnectionTimeout", None, "transient"),
    ("connection error", "elasticsearch.ConnectionError", None, "transient"),
    ("TLS error (a connection error)", "elasticsearch.SSLError", None, "transient"),
    ("HTTP 429", "elasticsearch.ApiError", 429, "transient"),
    ("HTTP 502", "elasticsearch.ApiError", 502, "transient"),
    ("HTTP 503", "elasticsearch.ApiError", 503, "transient"),
    ("HTTP 504", "elasticsearch.ApiError", 504, "transient"),
    ("HTTP 500", "elasticsearch.ApiError", 500, "fatal"),
    ("HTTP 404 (NotFoundError)", "elasticsearch.NotFoundError", 404, "fatal"),
    ("HTTP 400 (BadRequestError)", "elasticsearch.BadRequestError", 400, "fatal"),
    ("HTTP 409 (ConflictError)", "elasticsearch.ConflictError", 409, "fatal"),
    ("authentication failure (401)", "elasticsearch.AuthenticationException", 401, "fatal"),
    ("authorization failure (403)", "elasticsearch.AuthorizationException", 403, "fatal"),
    ("serialization error (other transport error)", "elasticsearch.SerializationError", None, "fatal"),
    ("generic transport error", "elastic_transport.TransportError", None, "fatal"),
    ("bulk error, item status 429", "elasticsearch.helpers.BulkIndexError", ("item", 429), "transient"),
    ("bulk error, item status 502", "elasticsearch.helpers.BulkIndexError", ("item", 502), "transient"),
    ("bulk error, item status 503", "elasticsearch.helpers.BulkIndexError", ("item", 503), "transient"),
    ("bulk error, item status 504", "elasticsearch.helpers.BulkIndexError", ("item", 504), "transient"),
    ("bulk error, item status 400", "elasticsearch.helpers.BulkIndexError", ("item", 400), "fatal"),
    ("bulk error, item status 409", "elasticsearch.helpers.BulkIndexError", ("item", 409), "fatal"),
    ("bulk error, item status 500", "elasticsearch.helpers.BulkIndexError", ("item", 500), "fatal"),
    ("bulk error, item without status", "elasticsearch.helpers.BulkIndexError", ("item", None), "fatal"),
    # one non-retryable item makes the whole bulk error fatal, wherever it stands among retryable ones
    ("bulk error, item statuses 429 and 400", "elasticsearch.helpers.BulkIndexError", ("item", [429, 400]), "fatal"),
    ("bulk error, item statuses 400 and 503", "elasticsearch.helpers.BulkIndexError", ("item", [400, 503]), "fatal"),
]

_LOOPS = (ast.While, ast.For)
_MUTATORS = ("append", "extend", "add", "remove", "discard", "pop", "clear", "update", "insert")


class _Raised(Exception):
    """a helper evaluated inside an expression raised: carries the Outcome of the raise."""

    def __init__(self, out):
        super().__init__("raise")
        self.out = out


def _prep(expr, jitter):
    """re-parsed copy of an expression in which library calls with a known meaning are replaced by what minieval evaluates: random.random() -> the representative jitter value,
    random.uniform(a, b) -> a + (b - a) * jitter, a << b -> a * 2 ** b, pow(a, b) / math.pow(a, b) -> a ** b, min / max of several arguments -> of a list."""

    class P(ast.NodeTransformer):
        def visit_Call(self, n):
            self.generic_visit(n)
            d = dotted(n.func) or ""
            if d == "random.random" and not n.args and not n.keywords:
                return ast.Constant(jitter)
            if d == "random.uniform" and len(n.args) == 2 and not n.keywords:
                return ast.BinOp(n.args[0], ast.Add(), ast.BinOp(ast.BinOp(n.args[1], ast.Sub(), n.args[0]), ast.Mult(), ast.Constant(jitter)))
            if d in ("pow", "math.pow") and len(n.args) == 2 and not n.keywords:
                return ast.BinOp(n.args[0], ast.Pow(), n.args[1])
            if d in ("min", "max") and len(n.args) >= 2 and not n.keywords:
                return ast.Call(ast.Name(d, ast.Load()), [ast.List(list(n.args), ast.Load())], [])
            return n

        def visit_BinOp(self, n):
            self.generic_visit(n)
            if isinstance(n.op, ast.LShift):
                return ast.BinOp(n.left, ast.Mult(), ast.BinOp(ast.Constant(2), ast.Pow(), n.right))
            return n

    return ast.fix_missing_locations(P().visit(ast.parse(u(expr), mode="eval").body))


class _GuardModel:
    """Value-level model of the guard (nothing of the repository is executed: extracted tests / expressions are evaluated by sa.minieval on representative values).
    Roles are derived, not named:
      helper         = a method of the store client (self.m / cls.m / EsClient.m) or a top-level function of the module, called from the guard: its body is interpreted with the
                       arguments bound to the parameters (an extracted helper reads like the code it replaced);
      self           = Record of the attributes that the class binds exactly once to a literal (the retryable set, whatever it is called);
      exception      = Record(status_code / meta.status / errors / message ...) built from the abstract case;
      loop state     = the integer / float locals of the guard, obtained by interpreting the statements around the try (while with a counter or for over a range alike)."""

    LIMIT = 40

    def __init__(self, met, EC, gd, L, T):
        self.met, self.EC, self.gd, self.L, self.T = met, EC, gd, L, T
        self.em = met.methods(EC)
        self.top = {n.name: n for n in met.tree.body if isinstance(n, source.FUNC_TYPES)}
        self.jitter = 0.0
        self.debug = True
        self.sleeps = []
        self.depth = 0
        self._cache = {}
        self.sleep_names = {"time.sleep"} | {k for k, v in met.imports.items() if v == "time.sleep"}
        # module-level names bound once to a literal (constants that N9 did not already propagate)
        self.genv = {}
        stores = {}
        for n in ast.walk(met.tree):
            if isinstance(n, ast.Name) and isinstance(n.ctx, (ast.Store, ast.Del)):
                stores[n.id] = stores.get(n.id, 0) + 1
        for st in met.tree.body:
            if isinstance(st, ast.Assign) and len(st.targets) == 1 and isinstance(st.targets[0], ast.Name) and stores.get(st.targets[0].id) == 1 and source._pure_literal(st.value):
                try:
                    self.genv[st.targets[0].id] = minieval.ev(st.value, {})
                except CannotEval:
                    pass
        # attributes of the store client bound exactly once, to a literal
        nbind, lit = {}, {}
        for n in ast.walk(EC):
            if isinstance(n, (ast.Assign, ast.AugAssign)):
                for t in (n.targets if isinstance(n, ast.Assign) else [n.target]):
                    if is_self_attr(t) or (isinstance(t, ast.Name) and source.parent(n) is EC):
                        nm = t.attr if isinstance(t, ast.Attribute) else t.id
                        nbind[nm] = nbind.get(nm, 0) + 1
                        if isinstance(n, ast.Assign) and source._pure_literal(n.value):
                            lit[nm] = n
        self.attr_sites = {nm: n for nm, n in lit.items() if nbind[nm] == 1}
        fields = {}
        for nm, n in self.attr_sites.items():
            try:
                fields[nm] = minieval.ev(n.value, {})
            except CannotEval:
                pass
        self.selfrec = Record(**fields)
        self.fill = None  # content of the descriptive fields of the abstract exception (None = the neutral default)
        self.tparam, self.ops, self.generic_op = None, {}, None

    # -- the operation handed to the guard ------------------------------------------------------------------------------------------------------------
    @staticmethod
    def op_record(name):
        last = name.split(".")[-1]
        return Record(__name__=last, __qualname__=last, __module__=".".join(name.split(".")[:-1]) or "builtins")

    def bind_operations(self, tparam, targets):
        """The target parameter of the guard is bound to a value that stands for the operation: every dotted target expression that a method of the store client hands to the guard
        (`self.<raw>.indices.refresh`, `elasticsearch.helpers.bulk`, ...) evaluates, inside the guard, to the SAME value as the parameter does when that operation is guarded
        (so `target is elasticsearch.helpers.bulk`, `target == self._client.search`, `target.__name__ == "bulk"` are all decided); by default the parameter holds an operation
        that is none of them (a local function, as in the unit tests)."""
        self.tparam = tparam
        self.generic_op = self.op_record("tests.operation")
        tree = {}
        for d in targets:
            parts = d.split(".")
            node, ok = tree, True
            for q in parts[:-1]:
                nxt = node.setdefault(q, {})
                if not isinstance(nxt, dict):
                    ok = False
                    break
                node = nxt
            if not ok or isinstance(node.get(parts[-1]), dict) or len(parts) < 2:
                continue
            rec = node.get(parts[-1]) or self.op_record(d)
            node[parts[-1]] = rec
            self.ops[d] = rec

        def conv(x):
            return Record(**{k: conv(v) for k, v in x.items()}) if isinstance(x, dict) else x

        for root, sub in tree.items():
            if not isinstance(sub, dict):
                continue
            if root == "self":
                self.selfrec = Record(**{**conv(sub).fields, **self.selfrec.fields})
            elif root not in self.genv:
                self.genv[root] = conv(sub)

    def probe_strings(self):
        """the strings that the guard (with its helpers) compares something against: constants inside comparisons / inside the arguments of string tests, module constants and literal
        attributes of the store client read there. They are the representative contents for the descriptive fields of an exception (the neutral default is none of them)."""
        out = []

        def take(v, depth=0):
            if isinstance(v, str) and v and v not in out:
                out.append(v)
            elif isinstance(v, (list, tuple, set, frozenset)) and depth < 2:
                for x in v:
                    take(x, depth + 1)
            elif isinstance(v, dict) and depth < 2:
                for x in v:
                    take(x, depth + 1)

        for f in self.closure():
            for n in walk_body(f):
                if isinstance(n, ast.Compare):
                    scope = [n]
                elif isinstance(n, ast.Call) and isinstance(n.func, ast.Attribute) and n.func.attr in ("startswith", "endswith", "find", "index", "count", "match", "search", "fullmatch", "get"):
                    scope = list(n.args)
                elif isinstance(n, getattr(ast, "match_case", ())):
                    scope = [n.pattern]
                else:
                    continue
                for sc in scope:
                    for x in ast.walk(sc):
                        if isinstance(x, ast.Constant):
                            take(x.value)
                        elif isinstance(x, ast.Name) and x.id in self.genv:
                            take(self.genv[x.id])
                        elif isinstance(x, ast.Attribute) and is_self_attr(x) and x.attr in self.selfrec.fields:
                            take(self.selfrec.fields[x.attr])
        return out[:8]

    # -- helpers ----------------------------------------------------------------------------------------------------------------------------------
    def helper_of(self, c):
        if not isinstance(c, ast.Call):
            return None
        f = c.func
        if isinstance(f, ast.Attribute) and isinstance(f.value, ast.Name) and f.value.id in ("self", "cls", self.EC.name):
            m = self.em.get(f.attr)
            return m if m is not None and m is not self.gd else None
        if isinstance(f, ast.Name):
            return self.top.get(f.id)
        return None

    def closure(self):
        """the guard and the helpers it (transitively) calls."""
        out, work = [], [self.gd]
        while work:
            f = work.pop()
            if any(f is x for x in out):
                continue
            out.append(f)
            for n in walk_body(f):
                m = self.helper_of(n)
                if m is not None:
                    work.append(m)
        return out

    def sleeps_outside_handlers(self):
        """sleep calls of the retry loop that are neither in a handler nor behind the try (e.g. a pause at the start of the next iteration): not modelled."""
        inside = {id(x) for h in self.T.handlers for x in ast.walk(h)} | {id(x) for st in self.after_try() for x in ast.walk(st)}
        return [x for x in ast.walk(self.L) if self.is_sleep(x) and id(x) not in inside]

    def is_sleep(self, c):
        return isinstance(c, ast.Call) and (dotted(c.func) or "") in self.sleep_names and len(c.args) == 1

    def base_env(self):
        env = dict(self.genv)
        env["self"] = self.selfrec
        if self.tparam is not None:
            env[self.tparam] = self.generic_op
        return env

    # -- values -----------------------------------------------------------------------------------------------------------------------------------
    def value(self, expr, env):
        key = (id(expr), self.jitter)
        ent = self._cache.get(key)
        if ent is None:
            p = _prep(expr, self.jitter)
            ent = self._cache[key] = (expr, p, any(self.helper_of(n) is not None for n in ast.walk(p)))
        p = ent[1]
        if ent[2]:
            model = self

            class S(ast.NodeTransformer):
                def visit_Call(self, n):
                    self.generic_visit(n)
                    m = model.helper_of(n)
                    if m is None:
                        return n
                    try:
                        v = model.call_helper(m, n, env)
                    except (CannotEval, Unsupported, UnknownAtom):
                        return n
                    nm = f"__h{len(env)}"
                    env[nm] = v
                    return ast.Name(nm, ast.Load())

            p = ast.fix_missing_locations(S().visit(_prep(expr, self.jitter)))
        try:
            return minieval.ev(p, env)
        except (TypeError, ValueError, KeyError, IndexError, AttributeError, ArithmeticError) as x:
            raise CannotEval(f"{short(expr, 50)}: {type(x).__name__}")

    def call_helper(self, m, call, env, want_outcome=False):
        if self.depth > 5:
            raise Unsupported(f"helper calls nested deeper than 5 at {m.name}")
        env2 = self.base_env()
        a = m.args
        pos = a.posonlyargs + a.args
        for p_, d_ in list(zip(pos[len(pos) - len(a.defaults):], a.defaults)) + [(p_, d_) for p_, d_ in zip(a.kwonlyargs, a.kw_defaults) if d_ is not None]:
            try:
                env2[p_.arg] = self.value(d_, {})
            except CannotEval:
                pass
        for p_, arg in source.bind_args(call, m).items():
            try:
                env2[p_] = self.value(arg, env)
            except CannotEval:
                env2.pop(p_, None)
        self.depth += 1
        try:
            out = decide(m.body, self.atom, env2, on_stmt=self.on_stmt)
        finally:
            self.depth -= 1
        if want_outcome:
            return out, env2
        if out.kind == "raise":
            raise _Raised(out)
        if out.kind == "return" and out.value is not None:
            return self.value(out.value, env2)
        return None

    def atom(self, n, env):
        if isinstance(n, ast.Call) and last_attr(n.func) in ("isEnabledFor", "isDebugEnabled"):
            return self.debug  # the log level is a FREE variable of the classification
        try:
            return bool(self.value(n, env))
        except CannotEval:
            return None

    def _bind(self, target, v, env):
        if isinstance(target, ast.Name):
            env[target.id] = v
        elif isinstance(target, (ast.Tuple, ast.List)) and isinstance(v, (list, tuple)) and len(v) == len(target.elts) and all(isinstance(t, ast.Name) for t in target.elts):
            for t, x in zip(target.elts, v):
                env[t.id] = x
        else:
            raise Unsupported(f"loop target {short(target, 40)}")

    def on_stmt(self, s, env, b):
        if isinstance(s, ast.Assign) and len(s.targets) == 1 and isinstance(s.targets[0], ast.Name):
            try:
                env[s.targets[0].id] = self.value(s.value, env)
            except CannotEval:
                env.pop(s.targets[0].id, None)
            return None
        if isinstance(s, ast.AugAssign) and isinstance(s.target, ast.Name):
            try:
                env[s.target.id] = self.value(ast.fix_missing_locations(ast.BinOp(ast.Name(s.target.id, ast.Load()), s.op, s.value)), env)
            except CannotEval:
                env.pop(s.target.id, None)
            return None
        if isinstance(s, ast.Expr) and isinstance(s.value, ast.Call):
            c = s.value
            if self.is_sleep(c):
                try:
                    self.sleeps.append(self.value(c.args[0], env))
                except CannotEval:
                    self.sleeps.append(None)
                return None
            m = self.helper_of(c)
            if m is not None:
                try:
                    self.call_helper(m, c, env)
                except _Raised as r:
                    return r.out
                return "skip"
            return None
        if isinstance(s, ast.For):
            try:
                it = self.value(s.iter, env)
            except CannotEval as x:
                raise Unsupported(f"loop over `{short(s.iter, 40)}`: {x}")
            if not isinstance(it, (list, tuple, set, frozenset, dict, range)):
                raise Unsupported(f"loop over `{short(s.iter, 40)}`")
            broke = False
            for v in list(it)[: self.LIMIT]:
                self._bind(s.target, v, env)
                out = decide(s.body, self.atom, env, b, self.on_stmt)
                if out.kind in ("raise", "return"):
                    return out
                if out.kind == "break":
                    broke = True
                    break
            if not broke and s.orelse:
                out = decide(s.orelse, self.atom, env, b, self.on_stmt)
                if out.kind != "fallthrough":
                    return out
            return "skip"
        return None

    # -- the abstract exception -------------------------------------------------------------------------------------------------------------------------
    @staticmethod
    def exc_record(status, fill=None):
        """fill: the content of the descriptive fields (error type / reason / message / error body) - None = a neutral default."""
        if isinstance(status, tuple):
            # ("item", status | [statuses]) or ("item", status, action): the library reports a failed item under the name of the bulk action the document was sent with
            items = status[1] if isinstance(status[1], list) else [status[1]]
            action = status[2] if len(status) > 2 else "index"
            errs = []
            for i, st in enumerate(items):
                d = {"_index": "rally-metrics", "_id": str(i), "error": {"type": fill or "some_exception", "reason": fill or "some reason"}}
                if st is not None:
                    d["status"] = st
                errs.append({action: d})
            return Record(errors=errs, message=f"{len(errs)} document(s) failed to index.", args=(f"{len(errs)} document(s) failed to index.", errs))
        if fill is not None:
            info = {"error": {"type": fill, "reason": fill, "root_cause": [{"type": fill, "reason": fill}]}, "status": status}
            return Record(status_code=status, meta=Record(status=status), status=status, error=fill, message=fill, errors=(), info=info, body=info)
        return Record(status_code=status, meta=Record(status=status), status=status, error="some_error", message="some message", errors=(), info={}, body={})

    def after_try(self):
        """the statements of the loop body that follow the try (they run after a handler that falls through)."""
        p = source.parent(self.T)
        blk = [x for x in self.L.body]
        if p is self.L and any(x is self.T for x in blk):
            return blk[[i for i, x in enumerate(blk) if x is self.T][0] + 1:]
        return []

    def interpret(self, h, status, env):
        """Outcome of one failed attempt: handler h for the abstract exception `status` in the loop state env (mutated in place), followed - when the handler falls through - by the
        rest of the loop body; .sleeps = the durations slept, by value."""
        self.sleeps = []
        if h.name:
            env[h.name] = self.exc_record(status, self.fill)
        try:
            out = decide(h.body, self.atom, env, on_stmt=self.on_stmt)
            rest = self.after_try()
            if out.kind == "fallthrough" and rest:
                out2 = decide(rest, self.atom, env, on_stmt=self.on_stmt)
                out2.effects = out.effects + out2.effects
                out = out2
        except _Raised as r:
            out = r.out
        out.sleeps = list(self.sleeps)
        return out

    def idle_attempt(self, env):
        """a failed attempt whose handler does nothing (used to obtain the loop states independently of the handlers)."""
        self.sleeps = []
        rest = self.after_try()
        out = decide(rest, self.atom, env, on_stmt=self.on_stmt) if rest else Outcome("fallthrough")
        out.sleeps = []
        return out

    def interpret_both(self, h, status, env):
        """(outcome with DEBUG logging enabled, outcome with DEBUG disabled)"""
        try:
            self.debug = True
            a = self.interpret(h, status, dict(env))
            self.debug = False
            b = self.interpret(h, status, dict(env))
        finally:
            self.debug = True
        return a, b

    # -- the loop ---------------------------------------------------------------------------------------------------------------------------------------
    def run_loop(self, on_attempt):
        """Interprets the body of the guard for a persistent fault: on_attempt(env) -> Outcome of the handler selected in each attempt.
        Returns {"states": [loop state seen by the handler in attempt k], "pauses": [[durations slept in attempt k]], "end": text, "raise": Outcome | None}."""
        env = self.base_env()
        res = {"states": [], "pauses": [], "end": None, "raise": None, "exhausted": False}
        model = self

        def drop(s):
            for x in ast.walk(s):
                if isinstance(x, ast.Name) and isinstance(x.ctx, ast.Store):
                    env.pop(x.id, None)

        def holds_anchor(s):
            return any(x is model.T or x is model.L for x in ast.walk(s))

        def block(stmts):
            for s in stmts:
                sig = stmt(s)
                if sig:
                    return sig
            return None

        def loop(s):
            n = 0
            exited = None
            if isinstance(s, ast.While):
                while True:
                    try:
                        t = bool(model.value(s.test, env))
                    except CannotEval as x:
                        raise Unsupported(f"loop test `{short(s.test, 50)}` is not decided by the loop state: {x}")
                    if not t:
                        exited = "exhausted"
                        break
                    if n >= model.LIMIT:
                        res["end"] = f"no end within {model.LIMIT} attempts"
                        return "stop"
                    n += 1
                    sig = block(s.body)
                    if sig in ("raise", "return", "stop"):
                        return sig
                    if sig == "break":
                        exited = "break"
                        break
            else:
                it = s.iter
                try:
                    if isinstance(it, ast.Call) and dotted(it.func) == "range" and 1 <= len(it.args) <= 3 and not it.keywords:
                        vals = range(*[model.value(a_, env) for a_ in it.args])
                    else:
                        vals = model.value(it, env)
                    vals = list(vals)
                except (CannotEval, TypeError) as x:
                    raise Unsupported(f"loop over `{short(it, 50)}` is not decided by the loop state: {x}")
                exited = "exhausted"
                for v in vals:
                    if n >= model.LIMIT:
                        res["end"] = f"no end within {model.LIMIT} attempts"
                        return "stop"
                    n += 1
                    model._bind(s.target, v, env)
                    sig = block(s.body)
                    if sig in ("raise", "return", "stop"):
                        return sig
                    if sig == "break":
                        exited = "break"
                        break
            if exited == "exhausted":
                res["exhausted"] = True
                return block(s.orelse)
            return None

        def stmt(s):
            if s is model.T:
                if s.finalbody:
                    raise Unsupported("the retry try has a finally block")
                res["states"].append(dict(env))
                out = on_attempt(env)
                res["pauses"].append(list(getattr(out, "sleeps", [])))
                if out.kind == "raise":
                    res["raise"] = out
                    return "raise"
                if out.kind in ("return", "break", "continue"):
                    return out.kind
                return "continue" if model.after_try() else None  # the rest of the loop body was interpreted together with the handler
            if s is model.L:
                return loop(s)
            if isinstance(s, (ast.Import, ast.ImportFrom, ast.Pass, ast.Global, ast.Nonlocal, ast.Assert, ast.Expr, ast.FunctionDef, ast.AsyncFunctionDef, ast.ClassDef, ast.Delete)):
                return None
            if isinstance(s, (ast.Assign, ast.AugAssign)):
                if model.on_stmt(s, env, {}) is None and not (isinstance(s, ast.Assign) and len(s.targets) == 1 and isinstance(s.targets[0], ast.Name)) \
                        and not (isinstance(s, ast.AugAssign) and isinstance(s.target, ast.Name)):
                    drop(s)
                return None
            if isinstance(s, ast.If):
                try:
                    t = bool(model.value(s.test, env))
                except CannotEval as x:
                    if holds_anchor(s):
                        raise Unsupported(f"`if {short(s.test, 50)}` around the attempt is not decided by the loop state: {x}")
                    if any(isinstance(x_, (ast.Return, ast.Raise, ast.Break, ast.Continue)) for x_ in ast.walk(s)):
                        raise Unsupported(f"`if {short(s.test, 50)}` (with a jump) is not decided by the loop state: {x}")
                    drop(s)
                    return None
                return block(s.body if t else s.orelse)
            if isinstance(s, (ast.With, ast.AsyncWith)):
                return block(s.body)
            if isinstance(s, ast.Return):
                return "return"
            if isinstance(s, ast.Raise):
                res["raise"] = Outcome("raise", s.exc, [], s)
                return "raise"
            if isinstance(s, ast.Break):
                return "break"
            if isinstance(s, ast.Continue):
                return "continue"
            if holds_anchor(s) or any(isinstance(x_, (ast.Return, ast.Raise, ast.Break, ast.Continue)) for x_ in ast.walk(s)):
                raise Unsupported(f"statement kind {type(s).__name__} at line {getattr(s, 'lineno', '?')} around the attempt")
            drop(s)
            return None

        sig = block(self.gd.body)
        if res["end"] is None:
            if sig == "raise":
                res["end"] = "raise"
            elif sig == "return":
                res["end"] = "silent return after the loop" if res["exhausted"] else "return"
            elif sig is None:
                res["end"] = "silent loop exit (returns None)"
            else:
                res["end"] = str(sig)
        return res


class _After:
    """Normal-completion paths through the statements that FOLLOW a given statement of a function, as written (if / else arms, try-else / finally, with, break / continue, the
    end of a loop body, the end of the function): [(trail, kind, node)] with kind in return | raise | again (a loop runs again) | end (the function ends) | unsupported;
    trail = the statements and branch tests passed on the way. loop_again(loop, trail) -> 'repeat' | 'exit' | 'unknown' decides what the loop does when its body completes."""

    LIMIT = 96

    def __init__(self, func, loop_again=None):
        self.func = func
        self.loop_again = loop_again or (lambda lp, trail: "repeat")
        self.n = 0

    def block(self, stmts, trail, k):
        if not stmts:
            return k(trail)
        self.n += 1
        if self.n > self.LIMIT:
            return [(trail, "unsupported", stmts[0])]
        s, rest = stmts[0], stmts[1:]

        def nxt(tr):
            return self.block(rest, tr, k)

        if isinstance(s, ast.Return):
            return [(trail, "return", s)]
        if isinstance(s, ast.Raise):
            return [(trail, "raise", s)]
        if isinstance(s, (ast.Continue, ast.Break)):
            lp = source.enclosing(s, _LOOPS)
            if lp is None:
                return [(trail, "unsupported", s)]
            return self.loop_end(lp, trail) if isinstance(s, ast.Continue) else self.after(lp)(trail)
        if isinstance(s, ast.If):
            return self.block(s.body, trail + [s.test], nxt) + self.block(s.orelse, trail + [s.test], nxt)
        if isinstance(s, (ast.Expr, ast.Assign, ast.AugAssign, ast.AnnAssign, ast.Pass, ast.Import, ast.ImportFrom, ast.Assert, ast.Delete, ast.Global, ast.Nonlocal)):
            return nxt(trail + [s])
        if isinstance(s, ast.With):
            return self.block(s.body, trail + [i.context_expr for i in s.items], nxt)
        return [(trail, "unsupported", s)]

    def loop_end(self, lp, trail):
        v = self.loop_again(lp, trail)
        if v == "exit":
            return self.block(lp.orelse, trail, self.after(lp))
        return [(trail, "again" if v == "repeat" else "unsupported", lp)]

    def after(self, node):
        """continuation (trail -> paths) for the normal completion of statement `node`."""

        def k(trail):
            p = source.parent(node)
            if p is None:
                return [(trail, "unsupported", node)]
            for field in ("body", "orelse", "finalbody"):
                blk = getattr(p, field, None)
                if isinstance(blk, list) and any(x is node for x in blk):
                    i = [j for j, x in enumerate(blk) if x is node][0]
                    return self.block(blk[i + 1:], trail, lambda tr: self.end_of(p, field, tr))
            return [(trail, "unsupported", node)]

        return k

    def end_of(self, p, field, trail):
        if p is self.func or isinstance(p, source.FUNC_TYPES):
            return [(trail, "end", p)]
        if isinstance(p, _LOOPS):
            return self.loop_end(p, trail) if field == "body" else self.after(p)(trail)
        if isinstance(p, ast.Try):
            if field == "body":
                return self.block(p.orelse, trail, lambda tr: self.block(p.finalbody, tr, self.after(p)))
            if field == "orelse":
                return self.block(p.finalbody, trail, self.after(p))
            return self.after(p)(trail)
        if isinstance(p, ast.ExceptHandler):
            t = source.parent(p)
            return self.block(t.finalbody, trail, self.after(t))
        if isinstance(p, (ast.If, ast.With)):
            return self.after(p)(trail)
        return [(trail, "unsupported", p)]


class _Undecided(Exception):
    """a jump of the interpreted statements depends on something the representative values do not decide."""


_JUMPS = (ast.Return, ast.Raise, ast.Break, ast.Continue)


_VAL_CACHE = {}


def _val(expr, env):
    """minieval value of an extracted expression; `isinstance(x, (A, B))` is read as `isinstance(x, A) or isinstance(x, B)` (on a re-parsed copy)."""
    ent = _VAL_CACHE.get(id(expr))
    if ent is None or ent[0] is not expr:
        p = expr
        if any(isinstance(n, ast.Call) and dotted(n.func) == "isinstance" and len(n.args) == 2 and isinstance(n.args[1], ast.Tuple) and n.args[1].elts for n in ast.walk(expr)):
            class P(ast.NodeTransformer):
                def visit_Call(self, n):
                    self.generic_visit(n)
                    if dotted(n.func) == "isinstance" and len(n.args) == 2 and isinstance(n.args[1], ast.Tuple) and n.args[1].elts and not n.keywords:
                        return ast.BoolOp(ast.Or(), [ast.Call(n.func, [n.args[0], t], []) for t in n.args[1].elts])
                    return n

            p = ast.fix_missing_locations(P().visit(ast.parse(u(expr), mode="eval").body))
        ent = _VAL_CACHE[id(expr)] = (expr, p)
    expr = ent[1]
    try:
        return minieval.ev(expr, env)
    except (TypeError, ValueError, KeyError, IndexError, AttributeError, ArithmeticError) as x:
        raise CannotEval(f"{short(expr, 50)}: {type(x).__name__}")


def _flow(stmts, env):
    """Outcome of running straight-line / if / try / with statements AS WRITTEN on the representative values in env (mutated): ('raise' | 'return', node) or ('end', None).
    A test that the values do not decide is skipped when nothing below it jumps (its stores are forgotten), else _Undecided; assumes that no statement raises by itself."""

    def forget(s):
        for x in ast.walk(s):
            if isinstance(x, ast.Name) and isinstance(x.ctx, (ast.Store, ast.Del)):
                env.pop(x.id, None)

    for s in stmts:
        if isinstance(s, (ast.Return, ast.Raise)):
            return ("return" if isinstance(s, ast.Return) else "raise"), s
        if isinstance(s, ast.If):
            try:
                t = bool(_val(s.test, env))
            except CannotEval as x:
                if any(isinstance(x_, _JUMPS) for x_ in ast.walk(s)):
                    raise _Undecided(f"`if {short(s.test, 60)}` (line {s.lineno}) is not decided by (method, status, tolerated statuses): {x}")
                forget(s)
                continue
            r = _flow(s.body if t else s.orelse, env)
            if r[0] != "end":
                return r
        elif isinstance(s, ast.Assign) and len(s.targets) == 1 and isinstance(s.targets[0], ast.Name):
            try:
                env[s.targets[0].id] = _val(s.value, env)
            except CannotEval:
                env.pop(s.targets[0].id, None)
        elif isinstance(s, (ast.Assign, ast.AugAssign, ast.AnnAssign, ast.Delete)):
            forget(s)
        elif isinstance(s, ast.Try):
            if s.handlers and any(isinstance(x_, ast.Raise) for b_ in s.body for x_ in ast.walk(b_)):
                raise _Undecided(f"a raise inside the try at line {s.lineno} may be caught by its own handlers")
            for blk in (s.body, s.orelse, s.finalbody):
                r = _flow(blk, env)
                if r[0] != "end":
                    return r
        elif isinstance(s, (ast.With, ast.AsyncWith)):
            forget(s)
            r = _flow(s.body, env)
            if r[0] != "end":
                return r
        elif isinstance(s, (ast.For, ast.AsyncFor, ast.While)):
            if any(isinstance(x_, (ast.Return, ast.Raise)) for x_ in ast.walk(s)):
                raise _Undecided(f"the loop at line {s.lineno} can leave the function")
            forget(s)
        elif isinstance(s, (ast.Expr, ast.Pass, ast.Import, ast.ImportFrom, ast.Assert, ast.Global, ast.Nonlocal, ast.FunctionDef, ast.AsyncFunctionDef, ast.ClassDef)):
            continue
        else:
            raise _Undecided(f"statement kind {type(s).__name__} at line {getattr(s, 'lineno', '?')}")
    return "end", None


def _stmts_after(stmt, func):
    """the statements that run after `stmt` completes normally, up to the end of `func`, when stmt sits in the function body or in if / with / try-body blocks of it; else None."""
    seq, node = [], stmt
    while True:
        p = source.parent(node)
        field = next((f_ for f_ in ("body", "orelse", "finalbody") if isinstance(getattr(p, f_, None), list) and any(x is node for x in getattr(p, f_))), None)
        if p is None or field is None:
            return None
        blk = getattr(p, field)
        seq += blk[[i for i, x in enumerate(blk) if x is node][0] + 1:]
        if p is func:
            return seq
        if isinstance(p, (ast.If, ast.With)) or (isinstance(p, ast.Try) and field == "body" and not p.orelse and not p.finalbody):
            node = p
            continue
        return None


def _library_text(*parts):
    """source text of a file of the installed elasticsearch package (read, never imported); '' when it is not there."""
    import importlib.util
    import os

    try:
        spec = importlib.util.find_spec("elasticsearch")
    except (ImportError, ValueError):
        return ""
    for d_ in (spec.submodule_search_locations or []) if spec is not None else []:
        p_ = os.path.join(d_, *parts)
        if os.path.exists(p_):
            try:
                return open(p_, encoding="utf-8").read()
            except OSError:
                return ""
    return ""


def run(chk):
    repo = chk.repo
    met, exm = repo.module(_M), repo.module(_E)
    chk.use(met, exm)
    H = Hierarchy()
    chk.trusted.append("library exception hierarchy parsed from " + ", ".join(sorted(__import__('os').path.basename(p) for p in H.files)))
    chk.explanation = (
        "Decides the guard of the metrics-store client: routing (every use of the raw client goes through the guard), the attempt (one call target(*args, **kwargs) inside the try; every "
        "path from its normal completion returns its value without another pass of the loop; nothing after it inside the try can raise what the handlers retry), the retry budget and "
        "the back-off by interpreting the guard's own loop statements and handlers on values (while with a counter or for over a range; helper methods are entered with their "
        "arguments bound): 1 + 10 attempts, exhaustion ends in a raise of a Rally error, never a silent loop exit, the pauses grow by a constant factor > 1; and the classification of 25 "
        "outcome classes placed in the real (parsed) library hierarchy as a decision table (transient: retry with one pause while budget, then Rally error; fatal: Rally error at once), "
        "with the set of retried statuses (400..599 fed through the handlers) == {429,502,503,504} for API errors and for bulk items. O17.5 follows the raw Elasticsearch client "
        "(created by the client package's factory) through esrally/client/factory.py and esrally/metrics.py and requires every request-sending call of the store module to run inside the guard. "
        "O17.6 feeds the bulk arm with item errors reported under every bulk action the store module sends (`_op_type` values resolved through parameters, defaults and call sites; the "
        "library default otherwise). O17.7 interprets the statements of RallySyncElasticsearch.perform_request behind the transport call for method x status x tolerated statuses "
        "(none, and each `ignore=` the store client hands to the guard): error answers leave as the API error the guard classifies, 2xx answers return."
    )
    chk.not_decided = "partial success inside helpers.bulk (chunks already indexed are re-sent on retry), real back-off durations, faults of the client library itself."
    EC = met.cls("EsClient")
    em = met.methods(EC)
    gd = em.get("guarded")
    if gd is None:
        raise AnchorMissing("EsClient.guarded")
    gparams = params_of(gd)
    if len(gparams) < 2:
        raise AnchorMissing("target parameter of EsClient.guarded")
    tparam = gparams[1]
    vararg = gd.args.vararg.arg if gd.args.vararg is not None else None
    kwarg = gd.args.kwarg.arg if gd.args.kwarg is not None else None
    # the attempt = the call of the target parameter; the retry try = the innermost try whose BODY holds it; the retry loop = the innermost loop (while / for) around that try
    tcalls = [n for n in walk_body(gd) if isinstance(n, ast.Call) and isinstance(n.func, ast.Name) and n.func.id == tparam]
    if not tcalls:
        raise AnchorMissing("no call of the target parameter in EsClient.guarded (an attempt made by a helper is not recognised)")

    def _anchors(c):
        prev = c
        for a in source.ancestors(c):
            if a is gd:
                return None
            if isinstance(a, ast.Try) and any(prev is x for x in a.body):
                for b_ in source.ancestors(a):
                    if b_ is gd:
                        return None
                    if isinstance(b_, _LOOPS):
                        return a, b_
                return None
            prev = a
        return None

    anchored = [(c, _anchors(c)) for c in tcalls if _anchors(c) is not None]
    if not anchored:
        raise AnchorMissing("retry loop in EsClient.guarded: the call of the target is not inside a try inside a loop")
    call0, (T, L) = anchored[0]
    model = _GuardModel(met, EC, gd, L, T)
    # the store operations = the targets that the methods of the store client hand to the guard (positionally or under the parameter's name)
    op_sites = {}
    for name_, f_ in em.items():
        for c_ in source.calls_in(f_):
            if u(c_.func) == f"self.{gd.name}":
                t_ = c_.args[0] if c_.args and not isinstance(c_.args[0], ast.Starred) else next((k.value for k in c_.keywords if k.arg == tparam), None)
                d_ = dotted(t_) if t_ is not None else None
                if d_ and "." in d_:
                    op_sites.setdefault(d_, (name_, c_))
    model.bind_operations(tparam, list(op_sites))
    # the raw client = the attribute(s) of the store client bound to the first constructor argument
    init = em.get("__init__")
    raw_attrs = set()
    if init is not None and len(params_of(init)) > 1:
        raw_attrs = {t.attr for n in walk_body(init) if isinstance(n, ast.Assign) and isinstance(n.value, ast.Name) and n.value.id == params_of(init)[1] for t in n.targets if is_self_attr(t)}
    if not raw_attrs:
        raise AnchorMissing("the attribute of EsClient that holds the raw client (bound to the first constructor argument)")

    # Rally error classes
    rally_errors = set()
    for c in exm.classes():
        rally_errors.add(c.name)
    rally_bases = {c.name: [last_attr(b) for b in c.bases] for c in exm.classes()}

    def is_rally_error(name):
        seen, work = set(), [name]
        while work:
            x = work.pop()
            if x == "RallyError":
                return True
            if x in seen:
                continue
            seen.add(x)
            work.extend(rally_bases.get(x, []))
        return False

    import builtins as _bi

    def raised_class(out, depth=0):
        """('rally' | 'other' | 'unknown', name) of what a raise outcome raises: a class of the exceptions module (through a local, or built by a helper), something else, or not decided."""
        v = out.value
        b = getattr(out, "bindings", None) or {}
        if v is None:
            return "other", "a bare `raise` (the library exception itself)"
        if isinstance(v, ast.Name):
            if b.get(v.id) is not None and depth < 4:
                o2 = Outcome("raise", b[v.id])
                o2.bindings = b
                return raised_class(o2, depth + 1)
            if any(h_.name == v.id for h_ in T.handlers):
                return "other", "the caught library exception"
        f = v.func if isinstance(v, ast.Call) else v
        d = dotted(f) or ""
        name = d.split(".")[-1]
        if name in rally_bases and (len(d.split(".")) == 1 or met.imports.get(d.split(".")[0], "").startswith("esrally")):
            return ("rally" if is_rally_error(name) else "other"), name
        m = model.helper_of(v) if isinstance(v, ast.Call) else None
        if m is not None and depth < 4:
            try:
                o2, _env2 = model.call_helper(m, v, model.base_env(), want_outcome=True)
            except (Unsupported, UnknownAtom, CannotEval, _Raised):
                return "unknown", d
            if o2.kind == "return" and o2.value is not None:
                o3 = Outcome("raise", o2.value)
                o3.bindings = getattr(o2, "bindings", {})
                return raised_class(o3, depth + 1)
            return "unknown", d
        if d and (H.known(d) or (isinstance(getattr(_bi, name, None), type) and issubclass(getattr(_bi, name), BaseException) and len(d.split(".")) == 1)):
            return "other", d
        return "unknown", d or short(v, 40)

    # ---- O17.1 routing -----------------------------------------------------------------------------------------------------------------------
    chk.rule("O17.1", "in the store client every use of the raw client is a method value / argument handed to the guard (never called directly); the factory returns the wrapper; "
             "the ES-backed stores hold only the wrapper", 14,
             "an unguarded store call: a single transient fault aborts the race / loses metrics")
    guard_call = f"self.{gd.name}"
    n_ops = 0
    for name, f in em.items():
        if name == "__init__" or f is gd:
            continue
        for n in walk_body(f):
            if isinstance(n, ast.Attribute) and is_self_attr(n) and n.attr in raw_attrs and isinstance(n.ctx, ast.Load):
                # climb to the outermost attribute chain
                top = n
                while isinstance(source.parent(top), ast.Attribute):
                    top = source.parent(top)
                p = source.parent(top)
                if _chain(top)[1][1:2] == ["transport"]:
                    continue  # connection-pool bookkeeping of the transport (host / port for a message): no request is sent (same exemption as in O17.5)
                ok = isinstance(p, ast.Call) and u(p.func) == guard_call and top in p.args
                called = isinstance(p, ast.Call) and p.func is top
                n_ops += 1
                chk.ob("O17.1", f"EsClient.{name}: raw client use goes through the guard", ok, n, "called directly, bypassing the guard" if called else (f"{short(p, 70)}" if not ok else ""))
        # operations that delegate to another guarded op are fine (index -> bulk_index)
    if n_ops >= 11:
        chk.ob("O17.1", "guarded operations located", True, EC, f"{n_ops} raw-client uses in EsClient methods")
    else:
        chk.unknown("O17.1", f"only {n_ops} uses of the raw client located in the methods of EsClient (11 operations were confirmed by hand): the store client is not in a recognised shape", EC)
    F = met.cls("EsClientFactory")
    # wrapper creators = the methods of the store module's factory every return of which is a construction of the wrapper (derived, whatever they are called)
    creators, bad_ret = {}, []
    for mname, mf in met.methods(F).items():
        rets = [n for n in walk_body(mf) if isinstance(n, ast.Return) and n.value is not None]
        fdefs = local_defs(mf)
        vals = [source.inline_node(r.value, fdefs) for r in rets]
        wraps = [isinstance(v, ast.Call) and last_attr(v.func) == EC.name for v in vals]
        if rets and all(wraps):
            creators[mname] = mf
        elif any(wraps):
            bad_ret.append((mf, [r for r, w in zip(rets, wraps) if not w][0]))
    if not creators and not bad_ret:
        chk.unknown("O17.1", "no method of EsClientFactory is recognised as returning a construction of the store client", F)
    for mname, mf in creators.items():
        chk.ob("O17.1", "the factory returns the wrapper", True, mf, "")
    for mf, r in bad_ret:
        chk.ob("O17.1", "the factory returns the wrapper", False, r, f"`{short(r, 60)}` returns something else than the wrapper")
    wrapper_attrs = set()  # the attributes under which the ES-backed stores keep the wrapper (used by O17.6 to find the callers of the store client's operations)
    for cname in ("EsMetricsStore", "EsRaceStore", "EsResultsStore"):
        try:
            c = met.cls(cname)
        except AnchorMissing:
            continue
        # the store's client attribute(s) = what a `<factory>.<creator>()` result is bound to anywhere in the class
        asg = [n for n in ast.walk(c) if isinstance(n, ast.Assign) and any(is_self_attr(t) for t in n.targets) and isinstance(n.value, ast.Call) and isinstance(n.value.func, ast.Attribute)
               and n.value.func.attr in (set(creators) or {"create"})]
        held = {t.attr for a in asg for t in a.targets if is_self_attr(t)}
        wrapper_attrs |= held
        other = [n for n in ast.walk(c) if isinstance(n, ast.Assign) and any(is_self_attr(t) and t.attr in held for t in n.targets) and n not in asg
                 and not (isinstance(n.value, ast.Constant) and n.value.value is None)]
        if not asg:
            chk.unknown("O17.1", f"{cname}: no attribute is bound to the result of the store-client factory's creator ({sorted(creators) or ['create']})", c)
        else:
            chk.ob("O17.1", f"{cname} holds only the wrapper (client := factory.create())", not other, other[0] if other else asg[0], short(other[0] if other else asg[0], 80))
        # and never reaches through the wrapper to the raw client
        for n in ast.walk(c):
            if isinstance(n, ast.Attribute) and n.attr in raw_attrs and isinstance(n.value, ast.Attribute) and n.value.attr in (held or {"_client", "client"}):
                chk.ob("O17.1", f"{cname} reaches through the wrapper to the raw client", False, n, u(n))

    # ---- O17.2 once per iteration ------------------------------------------------------------------------------------------------------------------
    chk.rule("O17.2", "the attempt is ONE call `target(*args, **kwargs)` inside the try: on every path from its normal completion the guard returns that call's value without running "
             "the loop again, and nothing that runs after it inside the try can raise what the handlers retry; there is no other call of target", 2,
             "a call repeated after it succeeded (duplicate metrics), or a result dropped")
    s0 = source.enclosing_stmt(call0)
    inst0 = "try body returns target(*args, **kwargs)"
    passes = [u(a) for a in call0.args] == [f"*{vararg}"] and [(k.arg, u(k.value)) for k in call0.keywords] == [(None, kwarg)]
    resvar = s0.targets[0].id if isinstance(s0, ast.Assign) and s0.value is call0 and len(s0.targets) == 1 and isinstance(s0.targets[0], ast.Name) else None
    # what may run inside the try after the successful attempt: logging (receiver bound to logging.getLogger(...)), pure builtins, clock reads
    logger_attrs = {t.attr for n in ast.walk(EC) if isinstance(n, ast.Assign) and isinstance(n.value, ast.Call) and (dotted(n.value.func) or "").endswith("getLogger") for t in n.targets if is_self_attr(t)}
    logger_names = {t.id for n in met.tree.body if isinstance(n, ast.Assign) and isinstance(n.value, ast.Call) and (dotted(n.value.func) or "").endswith("getLogger") for t in n.targets if isinstance(t, ast.Name)}
    PURE = {"getattr", "hasattr", "str", "repr", "len", "type", "isinstance", "int", "float", "bool", "max", "min", "round", "abs", "format", "id", "callable"}

    def in_try(n):
        prev = n
        for a in source.ancestors(n):
            if a is T:
                return any(prev is x for x in T.body)
            prev = a
        return False

    def call_kind(c):
        """'harmless' | 'store' (sends a request / makes another attempt) | 'unknown'"""
        f = c.func
        d = dotted(f) or ""
        root, names = _chain(f)
        if isinstance(f, ast.Name) and f.id in PURE:
            return "harmless"
        if isinstance(f, ast.Attribute) and ((is_self_attr(f.value) and f.value.attr in logger_attrs) or (isinstance(f.value, ast.Name) and (f.value.id in logger_names or met.imports.get(f.value.id) == "logging"))
                                             or (isinstance(f.value, ast.Call) and (dotted(f.value.func) or "").endswith("getLogger"))):
            return "harmless"
        if d.startswith("time.") and names and names[-1] in ("time", "perf_counter", "monotonic", "perf_counter_ns", "monotonic_ns", "time_ns"):
            return "harmless"
        if isinstance(root, ast.Name) and root.id == tparam:
            return "store"
        if isinstance(root, ast.Name) and root.id == "self" and names and (names[0] in raw_attrs or names[0] == gd.name):
            return "store"
        m = model.helper_of(c)
        if m is not None:
            inner = [call_kind(x) for x in ast.walk(m) if isinstance(x, ast.Call)]
            return "store" if "store" in inner else ("harmless" if all(k == "harmless" for k in inner) else "unknown")
        return "unknown"

    def loop_again(lp, trail):
        """what the retry loop does when its body completes after a SUCCESSFUL attempt: decided on values (loop state of the first attempt, representative truthy / falsy results)."""
        if isinstance(lp, ast.For):
            return "repeat"
        if isinstance(lp.test, ast.Constant):
            return "repeat" if lp.test.value else "exit"
        try:
            st0 = model.run_loop(model.idle_attempt)["states"]
        except (Unsupported, UnknownAtom, CannotEval, _Raised):
            return "unknown"
        if not st0:
            return "unknown"
        verdicts = set()
        for rep in ({}, {"acknowledged": True}, None, False, True):
            env = dict(st0[0])
            if resvar:
                env[resvar] = rep
            for st in trail:
                if isinstance(st, (ast.Assign, ast.AugAssign)) and st is not s0:
                    model.on_stmt(st, env, {})
            try:
                verdicts.add(bool(model.value(lp.test, env)))
            except CannotEval:
                return "unknown"
        return "repeat" if True in verdicts else "exit"

    walker = _After(gd, loop_again)
    success_returns = []
    if not passes:
        chk.ob("O17.2", inst0, False, s0, f"`{short(call0, 60)}` does not hand the guard's own arguments (*{vararg}, **{kwarg}) through unchanged")
    elif isinstance(s0, ast.Return) and s0.value is call0:
        chk.ob("O17.2", inst0, True, s0, short(s0, 60))
        success_returns.append(s0)
    elif isinstance(s0, ast.Expr) and s0.value is call0:
        chk.ob("O17.2", inst0, False, s0, f"`{short(s0, 60)}`: the result of the successful attempt is dropped")
    elif resvar is None:
        chk.unknown("O17.2", f"the attempt `{short(s0, 60)}` is neither returned nor bound to a local: what happens to the result is not decided", s0)
    else:
        bad, unk = None, None
        for trail, kind, node in walker.after(s0)([]):
            rebound = [st for st in trail if isinstance(st, ast.stmt) and any(isinstance(x, ast.Name) and x.id == resvar and isinstance(x.ctx, (ast.Store, ast.Del)) for x in ast.walk(st))]
            for st in trail:
                if not in_try(st):
                    continue
                for c_ in [x for x in ast.walk(st) if isinstance(x, ast.Call)]:
                    k_ = call_kind(c_)
                    if k_ == "store":
                        bad = bad or (c_, f"`{short(c_, 50)}` runs inside the try after the attempt succeeded: if it fails with a retried error the handlers repeat the successful call")
                    elif k_ == "unknown":
                        unk = unk or (c_, f"`{short(c_, 50)}` runs inside the try after the successful attempt: whether it can raise an error that the handlers retry is not decided")
            if kind == "return":
                if isinstance(node.value, ast.Name) and node.value.id == resvar and not rebound:
                    success_returns.append(node)
                elif node.value is None or isinstance(node.value, ast.Constant):
                    bad = bad or (node, f"after a successful attempt `{short(node, 40)}` is returned instead of the result `{resvar}`")
                else:
                    unk = unk or (node, f"after a successful attempt `{short(node, 50)}` is returned: not recognised as the result `{resvar}` of the attempt")
            elif kind == "again":
                bad = bad or (node, f"after a successful attempt (`{short(s0, 50)}`) the loop `{short(node.test if isinstance(node, ast.While) else node.iter, 50)}` can run again "
                                    "(decided for a falsy and a truthy result): the call is repeated after success")
            elif kind == "end":
                bad = bad or (s0, f"after a successful attempt the function ends without returning `{resvar}`: the result is dropped")
            elif kind == "raise":
                unk = unk or (node, f"`{short(node, 50)}` after a successful attempt is not decided")
            else:
                unk = unk or (node, f"statement `{short(node, 50)}` after the successful attempt is not one of the enumerated forms")
        if bad is not None:
            chk.ob("O17.2", inst0, False, bad[0], bad[1])
        elif unk is not None:
            chk.unknown("O17.2", unk[1], unk[0])
        else:
            chk.ob("O17.2", inst0, True, s0, f"`{short(s0, 50)}`; every path from its normal completion reaches `return {resvar}` without another pass of the loop")
    chk.ob("O17.2", "single call site of target", len(tcalls) == 1, tcalls[1] if len(tcalls) > 1 else tcalls[0], f"{len(tcalls)} call(s)")

    # a retry re-sends the SAME arguments: nothing single-use may be handed to the guard
    for name, f in em.items():
        fdefs2 = local_defs(f)
        for c in source.calls_in(f):
            if u(c.func) == guard_call:
                for a in list(c.args[1:]) + [k.value for k in c.keywords]:
                    e = source.inline_node(a, fdefs2) if not isinstance(a, ast.Starred) else a
                    single = isinstance(e, ast.GeneratorExp) or (isinstance(e, ast.Call) and dotted(e.func) in ("filter", "map", "iter", "zip", "reversed", "enumerate", "itertools.chain", "itertools.islice"))
                    if single:
                        chk.ob("O17.2", f"EsClient.{name}: argument `{short(a, 40)}` handed to the guard is re-iterable", False, c,
                               f"`{short(e, 60)}` is a single-use iterator: the first attempt consumes it and every retry sends nothing yet reports success")

    # the work must happen INSIDE the guarded call: a target that is a generator function only creates a generator there; the requests are then sent while the caller iterates,
    # outside the retry loop (decided by parsing the installed library source of elasticsearch.helpers.<name>)
    import importlib.util as _ilu

    def _lib_generator(dotted_name):
        parts = dotted_name.split(".")
        if parts[:2] != ["elasticsearch", "helpers"] or len(parts) != 3:
            return None
        try:
            spec = _ilu.find_spec("elasticsearch.helpers")
        except (ImportError, ValueError):
            return None
        if spec is None or not spec.submodule_search_locations:
            return None
        import os as _os
        for d_ in spec.submodule_search_locations:
            for fn_ in sorted(_os.listdir(d_)):
                if fn_.endswith(".py"):
                    try:
                        t_ = ast.parse(open(_os.path.join(d_, fn_), encoding="utf-8").read())
                    except (OSError, SyntaxError):
                        continue
                    for n_ in t_.body:
                        if isinstance(n_, (ast.FunctionDef, ast.AsyncFunctionDef)) and n_.name == parts[2]:
                            own = [x for x in ast.walk(n_) if isinstance(x, (ast.Yield, ast.YieldFrom))]
                            inner = {id(x) for f_ in ast.walk(n_) if isinstance(f_, (ast.FunctionDef, ast.AsyncFunctionDef, ast.Lambda)) and f_ is not n_ for x in ast.walk(f_)}
                            return any(id(x) not in inner for x in own)
        return None

    for name, f in em.items():
        for c in source.calls_in(f):
            if u(c.func) == guard_call and c.args:
                tgt = dotted(c.args[0]) or ""
                isgen = _lib_generator(tgt) if tgt.startswith("elasticsearch.helpers.") else False
                iterated = isinstance(source.parent(c), (ast.For, ast.AsyncFor, ast.comprehension)) and getattr(source.parent(c), "iter", None) is c
                if tgt.startswith("elasticsearch.helpers.") and isgen is None:
                    chk.unknown("O17.2", f"library function {tgt} not found in the installed elasticsearch.helpers sources", c)
                    continue
                ok = not isgen and not iterated
                chk.ob("O17.2", f"EsClient.{name}: the guarded target does its work when called (not a lazy generator)", ok, c,
                       "" if ok else f"{tgt or short(c.args[0], 40)} {'is a generator function' if isgen else 'result is iterated by the caller'}: the requests are sent outside the retry loop, so nothing is retried or converted into a Rally error",
                       key=f"{_M}:EsClient.{name}:eager-target")

    # the guard is the ONLY retry layer of the store client: a call handed to it must not switch on the library's own retry / back-off (attempts and pauses would multiply)
    LIB_RETRY = {"max_retries", "initial_backoff", "max_backoff", "retry_on_timeout", "retry_on_status"}
    n_g = 0
    for name, f in em.items():
        for c in source.calls_in(f):
            if u(c.func) == guard_call:
                n_g += 1
                on = [k.arg for k in c.keywords if k.arg in LIB_RETRY and not (isinstance(k.value, ast.Constant) and k.value.value in (0, False, None))]
                chk.ob("O17.2", f"EsClient.{name}: no second retry layer below the guard", not on, c,
                       "" if not on else f"{on} enables the client library's own retry: a persistent fault is attempted (1 + {on[0]}) x 11 times and the pauses no longer grow",
                       key=f"{_M}:EsClient.{name}:nested-retry")

    from rules.C07 import flush_no_fallible_gap

    flush_no_fallible_gap(chk, "O17.2", met)

    # ---- O17.3 budget and back-off ------------------------------------------------------------------------------------------------------------------------
    chk.rule("O17.3", "interpreting the statements of the guard on values (while with a counter or for over a range alike): the attempt counter is a local that starts with the first "
             "attempt and advances by one per attempt; a persistent transient fault gives 1 + 10 attempts and exhaustion ends in a raise (never a silent loop exit or a stale return "
             "after the loop); the pauses slept between the attempts grow exponentially", 6,
             "fewer/more than ten retries, a silently returned None after the last retry, or constant/linear back-off")
    SIM_ERR = (Unsupported, UnknownAtom, CannotEval, _Raised)
    states = []
    try:
        states = model.run_loop(model.idle_attempt)["states"]
    except SIM_ERR as x:
        chk.unknown("O17.3", f"the loop state of the guard is not decided by interpreting its statements: {x}", L)

    def _ints(sts):
        names = [k for k in sts[0] if not k.startswith("__") and all(isinstance(st.get(k), int) and not isinstance(st.get(k), bool) for st in sts)] if sts else []
        var = [k for k in names if any(sts[i + 1][k] != sts[i][k] for i in range(len(sts) - 1))]
        return var, [k for k in var if all(sts[i + 1][k] - sts[i][k] == 1 for i in range(len(sts) - 1))]

    # placeholders filled below, after the handlers are known (a counter advanced by the handlers themselves is seen only in a simulated fault sequence)
    counter_obligations = []

    def counter_rules(sts):
        varying, counters = _ints(sts)
        if len(sts) < 2 or not varying:
            chk.unknown("O17.3", "no attempt counter located: no integer local of the guard changes from one attempt to the next", L)
            return
        cnt = (counters or varying)[0]
        first = sts[0][cnt]
        site = next((n for n in walk_body(gd) if isinstance(n, ast.Name) and n.id == cnt and isinstance(n.ctx, ast.Store)), L)
        chk.ob("O17.3", "counter starts at 0", first in (0, 1), site, f"the first attempt sees {cnt} == {first} (expected 1, or 0 for a zero-based range)")
        chk.ob("O17.3", "counter += 1 exactly once per iteration, before the attempt", bool(counters), site,
               f"consecutive attempts see {cnt} == {[st[cnt] for st in sts[:6]]}..." + ("" if counters else ": it does not advance by exactly one per attempt"))

    # nothing after the loop may turn an exhausted budget into a normal return
    exit_paths = _After(gd).block(list(L.orelse), [], _After(gd).after(L))
    stale = [(k_, n_) for tr_, k_, n_ in exit_paths if k_ not in ("end", "raise") and not (k_ == "return" and any(n_ is r for r in success_returns))]
    odd = [(k_, n_) for k_, n_ in stale if k_ != "return"]
    if odd:
        chk.unknown("O17.3", f"statement `{short(odd[0][1], 50)}` after the retry loop is not one of the enumerated forms", odd[0][1])
    else:
        chk.ob("O17.3", "nothing after the loop (no stale return)", not stale, stale[0][1] if stale else L,
               "" if not stale else f"`{short(stale[0][1], 50)}` after the loop: when the loop ends without a successful attempt the guard returns normally instead of raising")

    # ---- O17.4 classification -------------------------------------------------------------------------------------------------------------------------------
    chk.rule("O17.4", "classification over the real hierarchy: connection timeout / connection error / bulk error with only retryable item statuses / API error with status in "
             "{429,502,503,504} retry with the exponential sleep while budget is left and raise a Rally error when exhausted; authentication, authorization, other API or transport "
             "errors and non-retryable bulk item errors raise a Rally error at once; no arm returns or falls out of the loop silently", 30,
             "a transient fault aborts the race, or a permanent fault is retried ten times / swallowed")
    # the guard classifies what the client raises: every non-2xx answer must leave RallySyncElasticsearch.perform_request as an API error (HTTP_EXCEPTIONS / ApiError) — also when
    # the body is no JSON object (an HTML page of a proxy, the empty body of a HEAD request): the error-detail extraction may only touch the body as a dict behind isinstance(dict)
    from sa import pat as _p17
    syn = repo.module("esrally/client/synchronous.py")
    chk.use(syn)
    prq = syn.methods(syn.cls("RallySyncElasticsearch")).get("perform_request")
    if prq is None:
        raise AnchorMissing("RallySyncElasticsearch.perform_request")
    unp_ = [n for n in walk_body(prq) if isinstance(n, ast.Assign) and isinstance(n.targets[0], ast.Tuple) and len(n.targets[0].elts) == 2 and isinstance(n.value, ast.Call)
            and last_attr(n.value.func) == "perform_request" and isinstance(n.targets[0].elts[1], ast.Name)]
    if not unp_:
        raise AnchorMissing("meta, body = <transport>.perform_request(...) in the synchronous client")
    bodyv = unp_[0].targets[0].elts[1].id
    pdefs = local_defs(prq)
    araise = [n for n in walk_body(prq) if isinstance(n, ast.Raise) and n.exc is not None and n.lineno > unp_[0].lineno
              and any(w_ in source.inline(n.exc, pdefs) for w_ in ("HTTP_EXCEPTIONS", "ApiError"))]
    if araise:
        chk.ob("O17.4", "sync client: a non-2xx answer is raised as HTTP_EXCEPTIONS.get(status, ApiError)", True, araise[0], short(araise[0], 80))
    else:
        chk.unknown("O17.4", "sync client: the raise that turns a non-2xx answer into an API error (HTTP_EXCEPTIONS / ApiError) is not located after the transport call", prq)
    uses = [x for x in walk_body(prq) if isinstance(x, (ast.Attribute, ast.Subscript)) and isinstance(x.value, ast.Name) and x.value.id == bodyv and araise and unp_[0].lineno < x.lineno < araise[0].lineno]
    for x in uses:
        tr_ = source.enclosing(x, ast.Try)
        caught = {nm.split(".")[-1] for h in (tr_.handlers if tr_ is not None else []) for nm in ([dotted(e_) or "" for e_ in (h.type.elts if isinstance(h.type, ast.Tuple) else [h.type])] if h.type is not None else ["BaseException"])}
        ok = _p17.guarded(x, f"isinstance({bodyv}, dict)") is not None or bool(caught & {"AttributeError", "Exception", "BaseException"})
        chk.ob("O17.4", f"sync client: `{short(x, 30)}` touches the error body as a dict only behind isinstance(dict)", ok, x,
               "" if ok else f"a non-JSON error body raises AttributeError here (handlers cover only {sorted(caught)}): the error escapes as a bare Python error that the guard neither retries nor converts",
               key=f"esrally/client/synchronous.py:RallySyncElasticsearch.perform_request:body-as-dict:{short(x, 30)}")

    # the classification reads attributes of the store client that the class binds to a literal (the retryable set, whatever it is called): none of them may be modified
    # (bound to a literal by the constructor or in the class body; a local state that the guard itself keeps on self is not meant)
    lit_attrs = {t.attr for n in (walk_body(init) if init is not None else []) if isinstance(n, ast.Assign) and source._pure_literal(n.value) for t in n.targets if is_self_attr(t)} \
        | {t.id for n in EC.body if isinstance(n, ast.Assign) and source._pure_literal(n.value) for t in n.targets if isinstance(t, ast.Name)}
    read_attrs = sorted({n.attr for f in model.closure() for n in walk_body(f) if isinstance(n, ast.Attribute) and is_self_attr(n) and isinstance(n.ctx, ast.Load) and n.attr in lit_attrs})
    others = []
    for a_ in read_attrs:
        binds = [n for n in ast.walk(met.tree) if isinstance(n, (ast.Assign, ast.AugAssign)) and any(isinstance(t, ast.Attribute) and t.attr == a_ for t in (n.targets if isinstance(n, ast.Assign) else [n.target]))]
        others += [n for n in binds if n is not model.attr_sites.get(a_)] if a_ in model.attr_sites else binds[1:]
        others += [n for n in ast.walk(met.tree) if isinstance(n, ast.Call) and isinstance(n.func, ast.Attribute) and n.func.attr in _MUTATORS and last_attr(n.func.value) == a_]
    handlers = [(h, handler_type_names(h, met)) for h in T.handlers]
    # `from elastic_transport import ApiError, TransportError` inside the function
    local_imp = {}
    for n in walk_body(gd):
        if isinstance(n, ast.ImportFrom) and n.module:
            for a in n.names:
                local_imp[a.asname or a.name] = f"{n.module.split('.')[0]}.{a.name}"
    handlers = [(h, [local_imp.get(nm, nm) for nm in names]) for h, names in handlers]
    for h, names in handlers:
        for nm in names:
            if not H.known(nm):
                chk.unknown("O17.4", f"handler names class {nm} that is not in the parsed library hierarchy", h)

    def select(raised):
        for h, names in handlers:
            if H.catches(names, raised):
                return h, names
        return None, None

    def retries(o):
        return o.kind in ("fallthrough", "continue")

    # the retryable statuses, decided on VALUES: every status 400..599 is fed through the handler that Python selects for an API error / through the bulk handler as the status of
    # the single failed item, in the state of the first attempt (budget left); the set of statuses that are retried must be exactly {429, 502, 503, 504}
    set_site = next((model.attr_sites[a_] for a_ in read_attrs if a_ in model.attr_sites), None)
    for what, cls_, mk in (("retryable status set == {429, 502, 503, 504}", "elasticsearch.ApiError", lambda s_: s_),
                           ("retryable bulk item status set == {429, 502, 503, 504}", "elasticsearch.helpers.BulkIndexError", lambda s_: ("item", s_))):
        h, names = select(cls_)
        if h is None or not states:
            continue
        try:
            got = {s_ for s_ in range(400, 600) if retries(model.interpret(h, mk(s_), dict(states[0])))}
        except SIM_ERR as x:
            chk.unknown("O17.4", f"handler `except {', '.join(names)}` is not a decision over (loop state, status): {x}", h)
            continue
        chk.ob("O17.4", what, got == RETRYABLE, set_site if set_site is not None else h,
               (short(set_site, 70) if set_site is not None else f"except {', '.join(names)}") + ("" if got == RETRYABLE else f": the statuses retried while budget is left are {sorted(got)}"))
    chk.ob("O17.4", "retryable status set never modified", not others, others[0] if others else (set_site if set_site is not None else EC),
           "" if not others else f"`{short(others[0], 60)}` changes what the classification reads")

    def describe(o):
        if retries(o):
            return "retry" + (f" after sleeping {o.sleeps}" if o.sleeps else " WITHOUT sleeping")
        return o.text()

    # attempts 1 and 10 (budget left; 10 = the last retry) and 11 (the attempt after the tenth retry: budget exhausted), each in the loop state that the guard itself produces
    simulated = set()
    elsewhere = model.sleeps_outside_handlers()
    for label, cls, status, kind in CASES:
        h, names = select(cls)
        for c, budget in ((1, True), (10, True), (11, False)):
            inst = f"{label} | budget left={budget}" + (" (last retry)" if c == 10 else "")
            key = f"{_M}:EsClient.guarded:{label}|{budget}" + ("|10" if c == 10 else "")
            if h is None:
                chk.ob("O17.4", inst, False, T, "no handler matches: the library exception escapes unconverted (not a Rally error)", key=key)
                continue
            if len(states) < c:
                continue  # the loop itself ends earlier: reported by the attempt count of O17.3
            try:
                out, out_q = model.interpret_both(h, status, states[c - 1])
            except SIM_ERR as e:
                chk.unknown("O17.4", f"handler `except {', '.join(names)}` is not a decision over (loop state, status class): {e}", h)
                continue
            if (retries(out_q), out_q.kind if not retries(out_q) else "", len(out_q.sleeps)) != (retries(out), out.kind if not retries(out) else "", len(out.sleeps)):
                chk.ob("O17.4", inst, False, h, f"attempt {c}: the outcome depends on the log level: with DEBUG enabled {out.text()[:40]} / {len(out.sleeps)} sleep(s), "
                       f"otherwise {out_q.text()[:40]} / {len(out_q.sleeps)} sleep(s) — at the shipped INFO level the retries fire without the pause", key=key)
                continue
            if kind == "transient" and budget:
                if retries(out) and not out.sleeps and elsewhere:
                    chk.unknown("O17.4", f"{inst}: the pause of a retry is not made by the handler or behind the try (`{short(elsewhere[0], 40)}`): this shape is not modelled", elsewhere[0])
                    continue
                if retries(out) and len(out.sleeps) == 1 and out.sleeps[0] is None:
                    chk.unknown("O17.4", f"{inst}: the duration slept by `except {', '.join(names)}` is not decided by the loop state", h)
                    continue
                ok = retries(out) and len(out.sleeps) == 1 and out.sleeps[0] > 0
                want = "retry after one pause"
            else:
                rk, rn = raised_class(out) if out.kind == "raise" else ("other", None)
                if out.kind == "raise" and rk == "unknown":
                    chk.unknown("O17.4", f"{inst}: `{short(out.node if out.node is not None else h, 60)}`: the class of what is raised ({rn}) is not decided", out.node if out.node is not None else h)
                    continue
                ok = out.kind == "raise" and rk == "rally" and not out.sleeps
                want = "raise a Rally error"
            chk.ob("O17.4", inst, ok, h, f"attempt {c}: selected `except {', '.join(names)}` -> {describe(out)[:90]}; expected: {want}", key=key)
        # O17.3: whole-loop simulation of a persistent fault of this transient class (the guard's own loop statements and the handler's own decisions)
        if kind == "transient" and h is not None and (id(h), str(status)) not in simulated:
            simulated.add((id(h), str(status)))
            try:
                sim = model.run_loop(lambda env, h=h, status=status: model.interpret(h, status, env))
            except SIM_ERR as e:
                chk.unknown("O17.3", f"a persistent fault `{label}` is not simulated: {e}", h)
                continue
            if not counter_obligations:
                counter_obligations.append(True)
                counter_rules(states if _ints(states)[0] else sim["states"])
            attempts, end = len(sim["states"]), sim["end"]
            ok = attempts == 11 and end == "raise"
            if ok:
                rk, rn = raised_class(sim["raise"])
                if rk == "unknown":
                    chk.unknown("O17.3", f"{label}: the class raised when the retries are exhausted ({rn}) is not decided", h)
                    continue
                ok = rk == "rally"
                end = f"raise {rn}"
            chk.ob("O17.3", f"1 + 10 attempts, then a raise: {label}", ok, h, f"simulated `{short(L.test if isinstance(L, ast.While) else L.iter, 50)}` with the handler's own tests: {attempts} attempt(s), ends by {end}",
                   key=f"{_M}:EsClient.guarded:attempts:{label}")
            # the pauses between the attempts of this fault sequence, by value (jitter fixed to its lower, then to its upper bound)
            verdict = None
            for jit in (0.0, 1.0):
                model.jitter = jit
                try:
                    sj = sim if jit == 0.0 else model.run_loop(lambda env, h=h, status=status: model.interpret(h, status, env))
                except SIM_ERR:
                    sj = None
                finally:
                    model.jitter = 0.0
                if sj is None:
                    continue
                pauses = sj["pauses"][:-1] if sj["end"] == "raise" else sj["pauses"]
                if len(pauses) < 2:
                    verdict = verdict or ("skip", "")
                    continue
                if any(len(p_) == 1 and p_[0] is None for p_ in pauses):
                    verdict = ("unknown", "the duration slept is not decided by the loop state")
                    break
                seq = [p_[0] if len(p_) == 1 else None for p_ in pauses]
                if elsewhere and any(not p_ for p_ in pauses):
                    verdict = ("unknown", f"the pause of a retry is not made by the handler or behind the try (`{short(elsewhere[0], 40)}`): this shape is not modelled")
                    break
                if any(v_ is None or v_ <= 0 for v_ in seq):
                    if verdict is None or verdict[0] != "bad":
                        verdict = ("bad", f"pauses per retry: {[p_ for p_ in pauses][:6]}... (every retry needs exactly one positive pause)")
                    continue
                ratios = [seq[i + 1] / seq[i] for i in range(len(seq) - 1)]
                if ratios[0] > 1 and all(abs(r_ - ratios[0]) < 1e-9 for r_ in ratios):
                    verdict = ("ok", f"pauses {seq[:4]}... grow by the factor {ratios[0]:g}")
                    break
                if verdict is None or verdict[0] != "bad":
                    verdict = ("bad", f"pauses {seq[:5]}... do not grow by a constant factor > 1")
            if verdict is None or verdict[0] == "unknown":
                chk.unknown("O17.3", f"{label}: {verdict[1] if verdict else 'the pauses are not decided'}", h)
            elif verdict[0] != "skip":
                chk.ob("O17.3", f"sleep duration exponential in the counter: {label}", verdict[0] == "ok", h, verdict[1], key=f"{_M}:EsClient.guarded:backoff:{label}")
    if not counter_obligations:
        counter_rules(states)
    # the error path itself must not fail: every %-formatted message of the guard takes a tuple LITERAL with one element per placeholder (a bare operand that can itself be a
    # tuple, like the transport's collected errors, is unpacked as the argument list -> TypeError instead of the Rally error that names the cause)
    import re as _re17
    for n in [x for f_ in model.closure() for x in walk_body(f_)]:
        if isinstance(n, ast.BinOp) and isinstance(n.op, ast.Mod) and isinstance(n.left, (ast.Constant, ast.JoinedStr)):
            ltxt = "".join(str(v.value) for v in n.left.values if isinstance(v, ast.Constant)) if isinstance(n.left, ast.JoinedStr) else n.left.value
            if not isinstance(ltxt, str):
                continue
            nph = len(_re17.findall(r"%[-#0 +]*\d*(?:\.\d+)?[sdrfxi]", ltxt.replace("%%", "")))
            ok = isinstance(n.right, ast.Tuple) and len(n.right.elts) == nph and not any(isinstance(e_, ast.Starred) for e_ in n.right.elts)
            chk.ob("O17.4", f"message at line {n.lineno}: {nph} placeholder(s) filled from a tuple literal of the same length", ok, n, f"right operand: {short(n.right, 70)}",
                   key=f"{_M}:EsClient.guarded:format:{ltxt[:40]}")
    # ---- O17.8 the classification depends on the fault class and the budget only ------------------------------------------------------------------------------
    chk.rule("O17.8", "the decision of the guard for an outcome class (retry with this pause / raise this Rally error) is a function of the fault class and the remaining budget ONLY: "
             "(a) for each store operation - every target that a method of the store client hands to the guard, bound to the guard's target parameter so that tests on the "
             "target's identity / name are decided - and (b) for each content of the descriptive fields of the exception (error type, reason, message, error body: probed with every "
             "string that the guard or its helpers compare against, plus a neutral one), every class of the O17.4 table gets, in the first attempt, in the last retry and with the "
             "budget exhausted, exactly the decision that the guard takes for an anonymous operation and a neutral exception (the one O17.4 / O17.3 hold against the property)", 12,
             "one operation (e.g. the bulk write path) is not retried on one transient class, or an authorization / API error with a particular reason is retried instead of surfacing")

    def decision(o):
        if retries(o):
            return ("retry", None, tuple(o.sleeps))
        if o.kind == "raise":
            return ("raise", raised_class(o)[1], tuple(o.sleeps))
        return (o.kind, None, tuple(o.sleeps))

    def say(d_):
        return (f"retry after sleeping {list(d_[2])}" if d_[2] else "retry WITHOUT sleeping") if d_[0] == "retry" else (f"raise {d_[1]}" if d_[0] == "raise" else d_[0]) + (f" after sleeping {list(d_[2])}" if d_[2] else "")

    attempts_probed = [c for c in (1, 10, 11) if len(states) >= c]
    table = [(label, status, select(cls)[0]) for label, cls, status, kind in CASES]
    table = [(label, status, h) for label, status, h in table if h is not None]

    def decisions(env_patch, fill):
        """{(label, attempt): decision} with the loop state patched by env_patch and the exception filled with `fill`."""
        out = {}
        model.fill = fill
        try:
            for label, status, h in table:
                for c in attempts_probed:
                    env = dict(states[c - 1])
                    env.update(env_patch)
                    out[(label, c)] = decision(model.interpret(h, status, env))
        finally:
            model.fill = None
        return out

    base = None
    if table and attempts_probed:
        try:
            base = decisions({}, None)
        except SIM_ERR as x:
            chk.unknown("O17.8", f"the decision table of the guard for an anonymous operation is not decided: {x}", T)
    if base is not None:
        def compare(got):
            return [f"{label}, attempt {c}: {say(got[(label, c)])} (any other operation / a neutral exception: {say(base[(label, c)])})" for (label, c) in base if got[(label, c)] != base[(label, c)]]

        # (a) for each store operation
        for d_, (mname, site) in op_sites.items():
            if d_ not in model.ops:
                chk.unknown("O17.8", f"EsClient.{mname}: the guarded target `{d_}` is not bound to a value of its own", site)
                continue
            try:
                diff = compare(decisions({tparam: model.ops[d_]}, None))
            except SIM_ERR as x:
                chk.unknown("O17.8", f"EsClient.{mname}: the decision table of the guard for the operation `{d_}` is not decided: {x}", site)
                continue
            chk.ob("O17.8", f"EsClient.{mname} (`{d_}`): same decisions as for any other operation", not diff, site,
                   f"{len(table)} classes x attempts {attempts_probed}" if not diff else f"{len(diff)} decision(s) differ for this operation: " + "; ".join(diff[:2]),
                   key=f"{_M}:EsClient.guarded:operation:{mname}")
        # (b) for each content of the descriptive fields of the exception
        probes = model.probe_strings() + ["neutral_exception"]
        per_label = {label: [] for label, _, _ in table}
        failed = None
        for fl_ in probes:
            try:
                got = decisions({}, fl_)
            except SIM_ERR as x:
                failed = (fl_, x)
                break
            for (label, c) in base:
                if got[(label, c)] != base[(label, c)]:
                    per_label[label].append(f"with error type / reason / message == {fl_!r}, attempt {c}: {say(got[(label, c)])} (otherwise: {say(base[(label, c)])})")
        if failed is not None:
            chk.unknown("O17.8", f"the decision table of the guard for an exception that carries {failed[0]!r} is not decided: {failed[1]}", T)
        else:
            for label, status, h in table:
                bad = per_label[label]
                chk.ob("O17.8", f"{label}: same decision whatever the exception says (error type / reason / message probed with {len(probes)} string(s))", not bad, h,
                       f"probes: {probes}"[:110] if not bad else "; ".join(bad[:2]), key=f"{_M}:EsClient.guarded:content:{label}")

    # dead arms must agree with their shadow
    for i, (h, names) in enumerate(handlers):
        shadows = [hh for hh, pn in handlers[:i] if all(H.catches(pn, nm) for nm in names)] if i else []
        if shadows and len(states) >= 11:
            def sig(hh):
                rows = []
                for st in (429, 401, None):
                    for c in (1, 11):
                        try:
                            o = model.interpret(hh, st, dict(states[c - 1]))
                            rows.append(("retry", len(o.sleeps)) if retries(o) else (o.kind, raised_class(o)[1] if o.kind == "raise" else None))
                        except SIM_ERR:
                            rows.append("?")
                return rows

            same = sig(h) == sig(shadows[0])
            chk.ob("O17.4", f"dead arm `except {', '.join(names)}` agrees with its shadow", same, h, "shadowed by an earlier superclass handler" + ("" if same else " that classifies differently (cause no longer named)"))
    # authentication / authorization name the cause (setup error)
    for nm in ("elasticsearch.AuthenticationException", "elasticsearch.AuthorizationException"):
        h, names = select(nm)
        if h is not None and states:
            try:
                o = model.interpret(h, 401, dict(states[0]))
                rc = raised_class(o)[1] if o.kind == "raise" else None
                if rc != "SystemSetupError":
                    chk.adv("O17.4", f"{nm.split('.')[-1]} surfaces as {rc} rather than SystemSetupError", h)
            except SIM_ERR:
                pass

    # ---- O17.6 per-item bulk errors are read under the action the documents are sent with ----------------------------------------------------------
    # writer: the documents handed to the guarded bulk helper name their bulk action in `_op_type` (the library's default otherwise) and Elasticsearch / helpers.bulk report a
    # failed item under THAT name ({"create": {"status": 429, ...}}); reader: the bulk arm of the guard. The two must agree for every action the store module can send.
    import re as _re176
    chk.rule("O17.6", "for every bulk action under which the store module sends documents (the library's default action, plus every value that flows into a document's `_op_type` in "
             "esrally/metrics.py - through parameters, their defaults and the call sites of the store client's operations), the bulk arm of the guard, fed with an item error that is "
             "reported under THAT action, retries item status 429/502/503/504 after one pause and raises a Rally error at once for item status 400", 5,
             "a per-item rejection (429 es_rejected_execution, 503 unavailable shards) of a document sent under another action is read as `no status`: declared unretryable, no retry, "
             "no pause, and the Rally error names the cause as [None]")
    OPKEY = "_op_type"
    m_ = _re176.search(r"""\.pop\(\s*["']_op_type["']\s*,\s*["'](\w+)["']\s*\)""", _library_text("helpers", "actions.py"))
    default_action = m_.group(1) if m_ else None
    if default_action is None:
        chk.unknown("O17.6", "the default bulk action (`data.pop('_op_type', <default>)`) is not found in the installed elasticsearch/helpers/actions.py", EC)
    else:
        chk.trusted.append(f"elasticsearch.helpers: a document is sent under the bulk action named by its `_op_type` (default `{default_action}`) and a failed item is reported under that name")

    def _callers(f):
        """call sites in the store module that enter f: a store-client operation through self / through the attribute under which a store keeps the wrapper, a method of another
        class through self, a module function by name."""
        k = source.parent(f) if isinstance(source.parent(f), ast.ClassDef) else None
        fparams = set(params_of(f)[1:] + [x.arg for x in f.args.kwonlyargs])
        out = []
        for c in ast.walk(met.tree):
            if not isinstance(c, ast.Call):
                continue
            fn = c.func
            if k is None:
                if isinstance(fn, ast.Name) and fn.id == f.name:
                    out.append(c)
            elif isinstance(fn, ast.Attribute) and fn.attr == f.name:
                if isinstance(fn.value, ast.Name) and fn.value.id in ("self", "cls"):
                    if source.enclosing_class(c) is k:
                        out.append(c)
                elif k is EC and source.enclosing_class(c) is not EC and (last_attr(fn.value) in (wrapper_attrs or {"_client", "client"}) or (
                        c.keywords and all(k_.arg in fparams for k_ in c.keywords))):
                    out.append(c)  # the receiver is the wrapper kept by a store, or (wrapper reached through a local) every argument is named like a parameter of the operation
        return out

    def _strs(e, f, depth=0):
        """{string: the constant it comes from} for the strings that expression e, read in function f, can evaluate to (None / a falsy constant contributes nothing);
        None when that is not decided."""
        if e is None or depth > 5:
            return None
        if isinstance(e, ast.Constant):
            return {e.value: e} if isinstance(e.value, str) and e.value else ({} if not e.value else None)
        if isinstance(e, ast.IfExp):
            parts = [_strs(e.body, f, depth + 1), _strs(e.orelse, f, depth + 1)]
        elif isinstance(e, ast.BoolOp):
            parts = [_strs(v_, f, depth + 1) for v_ in e.values]
        elif isinstance(e, ast.Name) and f is not None:
            defs_ = local_defs(f)
            if e.id in defs_:
                return _strs(defs_[e.id], f, depth + 1)
            a_ = f.args
            pos_ = a_.posonlyargs + a_.args
            if e.id in [x.arg for x in pos_ + a_.kwonlyargs]:
                dflt = dict(zip([x.arg for x in pos_[len(pos_) - len(a_.defaults):]], a_.defaults))
                dflt.update({x.arg: d_ for x, d_ in zip(a_.kwonlyargs, a_.kw_defaults) if d_ is not None})
                parts = [_strs(dflt[e.id], None, depth + 1)] if e.id in dflt else []
                for c in _callers(f):
                    if any(isinstance(x, ast.Starred) for x in c.args) or any(k_.arg is None for k_ in c.keywords):
                        parts.append(None)
                        continue
                    arg = source.bind_args(c, f).get(e.id)
                    if arg is not None:
                        parts.append(_strs(arg, source.enclosing_func(c), depth + 1))
                    elif e.id not in dflt:
                        parts.append(None)
                if not parts:
                    return None
            elif e.id in model.genv:
                v_ = model.genv[e.id]
                return {v_: e} if isinstance(v_, str) and v_ else ({} if not v_ else None)
            else:
                return None
        else:
            return None
        if any(p_ is None for p_ in parts):
            return None
        out = {}
        for p_ in parts:
            for k_, v_ in p_.items():
                out.setdefault(k_, v_)
        return out

    actions = {}  # action name -> the node that makes the store module send it (None: the library default)
    if default_action is not None:
        actions[default_action] = None
    for n in ast.walk(met.tree):
        val = None
        if isinstance(n, ast.keyword) and n.arg == OPKEY:
            val = n.value  # dict(doc, _op_type=...) / doc.update(_op_type=...)
        elif isinstance(n, ast.Constant) and n.value == OPKEY:
            p = source.parent(n)
            if isinstance(p, ast.Dict) and any(k_ is n for k_ in p.keys):
                val = p.values[[i for i, k_ in enumerate(p.keys) if k_ is n][0]]
            elif isinstance(p, ast.Subscript) and p.slice is n and isinstance(p.ctx, ast.Store) and isinstance(source.parent(p), ast.Assign):
                val = source.parent(p).value
            elif isinstance(p, ast.Call) and last_attr(p.func) == "setdefault" and len(p.args) == 2 and p.args[0] is n:
                val = p.args[1]
            elif (isinstance(p, ast.Subscript) and isinstance(p.ctx, (ast.Load, ast.Del))) or isinstance(p, ast.Compare) or (isinstance(p, ast.Call) and last_attr(p.func) in ("get", "pop")):
                continue  # a read of the key
            else:
                chk.unknown("O17.6", f"`{short(p, 60)}` mentions the bulk action key `{OPKEY}` in a form that is not one of the enumerated writes / reads", p)
                continue
        else:
            continue
        got = _strs(val, source.enclosing_func(n))
        if got is None:
            chk.unknown("O17.6", f"the bulk action `{short(val, 40)}` written into a document's `{OPKEY}` is not resolved to string constants (parameters, defaults, call sites in {_M})", n)
            continue
        for a_ in sorted(got):
            actions.setdefault(a_, got[a_])
    hb, nb = select("elasticsearch.helpers.BulkIndexError")
    if hb is not None and states:
        for act, site in sorted(actions.items(), key=lambda kv: (kv[1] is not None, kv[0])):
            how = "the library default" if site is None else f"`{short(source.enclosing_stmt(site), 50)}` in {source.qualname(site) or _M}"
            for st_ in sorted(RETRYABLE) + [400]:
                inst = f"bulk item error reported under the action `{act}`, item status {st_}"
                try:
                    o = model.interpret(hb, ("item", st_, act), dict(states[0]))
                except SIM_ERR as x:
                    chk.unknown("O17.6", f"{inst}: handler `except {', '.join(nb)}` is not a decision over (loop state, item): {x}", hb)
                    continue
                if st_ in RETRYABLE:
                    if retries(o) and len(o.sleeps) == 1 and o.sleeps[0] is None:
                        chk.unknown("O17.6", f"{inst}: the duration slept is not decided by the loop state", hb)
                        continue
                    if retries(o) and not o.sleeps and elsewhere:
                        chk.unknown("O17.6", f"{inst}: the pause of a retry is not made by the handler or behind the try: this shape is not modelled", elsewhere[0])
                        continue
                    ok, want = retries(o) and len(o.sleeps) == 1 and o.sleeps[0] > 0, "retry after one pause"
                else:
                    rk, rn = raised_class(o) if o.kind == "raise" else ("other", None)
                    if o.kind == "raise" and rk == "unknown":
                        chk.unknown("O17.6", f"{inst}: the class of what is raised ({rn}) is not decided", o.node if o.node is not None else hb)
                        continue
                    ok, want = o.kind == "raise" and rk == "rally" and not o.sleeps, "raise a Rally error"
                chk.ob("O17.6", inst, ok, site if site is not None else hb,
                       f"documents are sent under `{act}` ({how}); `except {', '.join(nb)}` -> {describe(o)[:90]}; expected: {want}"
                       + ("" if ok else f" - the guard does not find the item's status under the action `{act}`"),
                       key=f"{_M}:EsClient.guarded:bulk-action:{act}:{st_}")

    # ---- O17.7 the synchronous client turns every error answer into the API error that the guard classifies -------------------------------------------------
    # the guard only ever sees exceptions: an answer of the store that is neither 2xx nor explicitly tolerated by the operation (`ignore=<status>` handed through the guard,
    # which the library turns into client.options(ignore_status=(status,))) must leave perform_request through the raise of HTTP_EXCEPTIONS / ApiError located above; a 2xx must not.
    chk.rule("O17.7", "status -> exception conversion of the client behind every store operation, decided on values: the statements of RallySyncElasticsearch.perform_request that "
             "follow the transport call are interpreted for every request method x answer status x ignore-status setting the store client uses (none, and each status an "
             "operation hands to the guard as `ignore=`): 429/502/503/504, 401/403 and 400/404/409/500 reach the raise of the API error unless the status is the tolerated one "
             "(or HEAD/404 = `exists`), and 200/201 reach the return", 8,
             "an error answer is handed back to the guard as the `result` of a successful attempt: one attempt, no pause, no Rally error (create_index / delete under a 503, 429, 401)")
    m_ = _re176.search(r"client\.(\w+)\s*=\s*ignore_status\b", _library_text("_sync", "client", "__init__.py"))
    ign_attr = m_.group(1) if m_ else "_ignore_status"
    chk.trusted.append(f"elasticsearch client: `ignore=<status>` / options(ignore_status=<status>) sets client.{ign_attr} = (<status>,); the default is the DEFAULT sentinel")
    sentinel = Record()
    settings = [("DEFAULT", sentinel, None), ("None", None, None)]
    for name, f in em.items():
        for c in source.calls_in(f):
            if u(c.func) != guard_call:
                continue
            for k_ in [k_ for x in ast.walk(c) if isinstance(x, ast.Call) for k_ in x.keywords if k_.arg in ("ignore", "ignore_status")]:
                try:
                    v_ = model.value(k_.value, model.base_env())
                except CannotEval as x:
                    chk.unknown("O17.7", f"EsClient.{name}: the status tolerated by `{short(k_, 40)}` is not a constant: {x}", c)
                    continue
                tup = (v_,) if isinstance(v_, int) and not isinstance(v_, bool) else (tuple(v_) if isinstance(v_, (list, tuple, set, frozenset)) else None)
                if tup is None:
                    chk.unknown("O17.7", f"EsClient.{name}: `{short(k_, 40)}` is neither a status nor a collection of statuses", c)
                elif not any(s_[1] == tup for s_ in settings[2:]):
                    settings.append((f"{tup} (EsClient.{name}: {short(k_, 30)})", tup, c))
    metav = unp_[0].targets[0].elts[0]
    seq = _stmts_after(unp_[0], prq)
    mparams = params_of(prq)
    if not araise:
        pass  # reported above: the raise is not located
    elif seq is None or not isinstance(metav, ast.Name) or len(mparams) < 2:
        chk.unknown("O17.7", "the statements that follow the transport call of the synchronous client are not in a recognised shape (function body / if / with around the call, "
                             "`meta, body = ...` bound to two names, the request method as the first parameter)", unp_[0])
    else:
        base7 = {}
        for nm, path in syn.imports.items():
            if path.split(".")[0] in ("elastic_transport", "elasticsearch"):
                if path.endswith(".DEFAULT"):
                    base7[nm] = sentinel
                elif path.split(".")[-1] in ("client_utils", "elastic_transport", "utils"):
                    base7[nm] = Record(DEFAULT=sentinel)
        for p_ in [x.arg for x in prq.args.args[2:] + prq.args.kwonlyargs]:
            base7[p_] = None
        GROUPS = (("429/502/503/504 (retried by the guard)", (429, 502, 503, 504)), ("401/403 (authentication / authorization)", (401, 403)),
                  ("400/404/409/500 (other API errors)", (400, 404, 409, 500)), ("200/201 (success)", (200, 201)))
        for label, ig, site in settings:
            for gname, sts in GROUPS:
                wrong, undecided = [], None
                for meth in ("GET", "PUT", "POST", "DELETE", "HEAD"):
                    for st_ in sts:
                        if (isinstance(ig, tuple) and st_ in ig) or (meth == "HEAD" and st_ == 404):
                            continue  # tolerated on purpose: either way is compatible with the property
                        env = dict(base7)
                        env.update({mparams[1]: meth, metav.id: Record(status=st_, headers={}, http_version="1.1", duration=0.0, node=None),
                                    bodyv: ({"acknowledged": True} if st_ < 300 else {"error": {"type": "some_exception", "reason": "some reason"}, "status": st_}),
                                    "self": Record(**{ign_attr: ig})})
                        try:
                            kind, node = _flow(seq, env)
                        except _Undecided as x:
                            undecided = undecided or (str(x), unp_[0])
                            continue
                        if st_ < 300:
                            if kind == "raise":
                                wrong.append((meth, st_, f"raises `{short(node, 50)}`", node))
                        elif kind != "raise":
                            wrong.append((meth, st_, "is returned as a normal response" + (f" (`{short(node, 40)}`)" if node is not None else ""), node if node is not None else araise[0]))
                        elif not any(node is r_ for r_ in araise):
                            undecided = undecided or (f"a {st_} answer to {meth} ends in `{short(node, 50)}`, which is not recognised as the raise of the API error", node)
                inst = f"sync client, tolerated statuses {label}: answers {gname}"
                if wrong:
                    meth, st_, what, node = wrong[0]
                    chk.ob("O17.7", inst, False, araise[0],
                           f"client.{ign_attr} = {label}: a {st_} answer to a {meth} request {what}" + (f" (and {len(wrong) - 1} more method/status combination(s))" if len(wrong) > 1 else "")
                           + (" instead of leaving perform_request as the API error: the guard takes the error document for the result of a successful attempt" if st_ >= 300 else
                              ": the guard sees a failed attempt where the store answered with success"),
                           key=f"esrally/client/synchronous.py:RallySyncElasticsearch.perform_request:status-conversion:{label.split(' ')[0]}:{gname.split(' ')[0]}")
                elif undecided is not None:
                    chk.unknown("O17.7", f"{inst}: {undecided[0]}", undecided[1])
                else:
                    chk.ob("O17.7", inst, True, araise[0], f"client.{ign_attr} = {label}: every method x status reaches " + ("the return" if sts[0] < 300 else f"`{short(araise[0], 60)}`"),
                           key=f"esrally/client/synchronous.py:RallySyncElasticsearch.perform_request:status-conversion:{label.split(' ')[0]}:{gname.split(' ')[0]}")

    _store_requests_guarded(chk, repo, met, EC, gd)


# ---- O17.5 every request that esrally/metrics.py sends to the metrics-store cluster is sent by the guard -------------------------------------------------------
_CF = "esrally/client/factory.py"
_SCOPE = ("esrally.client.", "esrally.metrics.")  # names are resolved into the client package and the store module only (nothing else creates or holds an Elasticsearch client for the store)


def _pkg_file(repo, modname):
    for p in (modname.replace(".", "/") + ".py", modname.replace(".", "/") + "/__init__.py"):
        if repo.exists(p):
            return p
    return None


def _resolve(repo, mod, name, depth=0):
    """(Module, def node) of the esrally function / class that the dotted `name`, read in module `mod`, denotes — through import aliases and re-exporting
    `__init__` modules. None when the name is not a definition of the package (library objects, locals, attributes of values)."""
    if not name or depth > 6:
        return None
    parts = name.split(".")
    top = getattr(mod, "_c17_top", None)
    if top is None:
        top = mod._c17_top = {n.name for n in mod.tree.body if isinstance(n, (ast.FunctionDef, ast.AsyncFunctionDef, ast.ClassDef))}
    if parts[0] in top:
        d = mod.index().get(name)
        return (mod, d) if d is not None else None
    if parts[0] not in mod.imports:
        return None
    fp = mod.imports[parts[0]].split(".") + parts[1:]
    if not (".".join(fp) + ".").startswith(_SCOPE):
        return None
    for i in range(len(fp) - 1, 0, -1):
        path = _pkg_file(repo, ".".join(fp[:i]))
        if path is None:
            continue
        m2 = repo.module(path)
        if m2 is mod and depth:
            return None
        return _resolve(repo, m2, ".".join(fp[i:]), depth + 1)
    return None


def _chain(node):
    """(root expression, [attribute names outwards]) of an attribute chain."""
    names = []
    while isinstance(node, ast.Attribute):
        names.append(node.attr)
        node = node.value
    return node, list(reversed(names))


class _ClientFlow:
    """Where Elasticsearch client objects are created and where they flow, over esrally/client/factory.py and esrally/metrics.py (Appendix E typing: a local / self attribute /
    parameter carries a client when a creating expression is assigned / passed to it at some site). Roles are derived, not named:
      client class   = package class with a base imported from the `elasticsearch` library whose name ends in `Elasticsearch`;
      creator        = method of a client-package class that returns a construction of a client class (`create`, `create_async`);
      request call   = a method called on a client value, except through its `.transport` (connection pool bookkeeping) and `options()` / `close()`;
      sender         = client-package function that makes a request call or calls a sender."""

    NON_REQUEST_LAST = ("options", "close")

    def __init__(self, repo, mods):
        self.repo = repo
        self.mods = mods
        self.client_params = set()   # (id(funcdef), parameter)
        self.client_attrs = set()    # (id(classdef), self attribute)
        self._creators = {}          # id(classdef) -> {method names}
        self._defs = {}
        self._solve()

    # -- roles ---------------------------------------------------------------------------------------------------------------------------------
    def is_client_class(self, mod, c, depth=0):
        for b in c.bases:
            d = dotted(b) or ""
            head = d.split(".")[0]
            if mod.imports.get(head, "").split(".")[0] == "elasticsearch" and (d.split(".")[-1]).endswith("Elasticsearch"):
                return True
            r = _resolve(self.repo, mod, d)
            if r is not None and isinstance(r[1], ast.ClassDef) and depth < 4 and self.is_client_class(r[0], r[1], depth + 1):
                return True
        return False

    def creators(self, mod, c):
        if id(c) not in self._creators:
            out = set()
            for m in mod.methods(c).values():
                defs = local_defs(m)
                for r in walk_body(m):
                    if isinstance(r, ast.Return) and r.value is not None:
                        v = source.inline_node(r.value, defs)
                        if isinstance(v, ast.Call):
                            k = _resolve(self.repo, mod, dotted(v.func) or "")
                            if k is not None and isinstance(k[1], ast.ClassDef) and self.is_client_class(k[0], k[1]):
                                out.add(m.name)
            self._creators[id(c)] = out
        return self._creators[id(c)]

    def defs_of(self, f):
        if id(f) not in self._defs:
            self._defs[id(f)] = local_defs(f)
        return self._defs[id(f)]

    def scopes(self, node):
        """the function containing node and the functions enclosing it (closures read outer locals)."""
        out = []
        f = node if isinstance(node, (ast.FunctionDef, ast.AsyncFunctionDef)) else source.enclosing_func(node)
        while f is not None:
            out.append(f)
            f = source.enclosing_func(f)
        return out

    def lookup(self, name_node):
        """definition of a single-assignment local visible at name_node (own scope first), or None."""
        for f in self.scopes(name_node):
            if name_node.id in self.defs_of(f):
                return self.defs_of(f)[name_node.id]
            if name_node.id in params_of(f) + [a.arg for a in f.args.kwonlyargs]:
                return None
        return None

    def factory_class(self, e, mod, depth=0):
        """(Module, ClassDef) when expression e evaluates to an INSTANCE of a client-package class that has creator methods."""
        if depth > 6:
            return None
        if isinstance(e, ast.Name):
            d = self.lookup(e)
            return self.factory_class(d, mod, depth + 1) if d is not None else None
        if not isinstance(e, ast.Call):
            return None
        r = _resolve(self.repo, mod, dotted(e.func) or "")
        if r is None and isinstance(e.func, ast.Name):
            # a parameter whose default is the class (`client_factory=EsClientFactory`)
            for f in self.scopes(e):
                a = f.args
                pos = a.posonlyargs + a.args
                dflt = dict(zip([x.arg for x in pos[len(pos) - len(a.defaults):]], a.defaults))
                dflt.update({x.arg: d for x, d in zip(a.kwonlyargs, a.kw_defaults) if d is not None})
                if e.func.id in dflt:
                    r = _resolve(self.repo, mod, dotted(dflt[e.func.id]) or "")
                    break
        if r is not None and isinstance(r[1], ast.ClassDef) and self.creators(r[0], r[1]):
            return r
        return None

    def is_client(self, e, mod, depth=0):
        """expression e evaluates to a raw Elasticsearch client."""
        if e is None or depth > 8:
            return False
        if isinstance(e, ast.Name):
            if not isinstance(e.ctx, ast.Load):
                return False
            for f in self.scopes(e):
                if (id(f), e.id) in self.client_params:
                    return True
            d = self.lookup(e)
            return d is not None and self.is_client(d, mod, depth + 1)
        if is_self_attr(e):
            c = source.enclosing_class(e)
            return c is not None and (id(c), e.attr) in self.client_attrs
        if isinstance(e, ast.Call) and isinstance(e.func, ast.Attribute):
            k = self.factory_class(e.func.value, mod)
            if k is not None and e.func.attr in self.creators(k[0], k[1]):
                return True
            return e.func.attr == "options" and self.is_client(e.func.value, mod, depth + 1)
        return False

    def callee(self, c, mod):
        """(Module, FunctionDef, skip_self) of the package function that call c enters, else None."""
        r = _resolve(self.repo, mod, dotted(c.func) or "")
        if r is None and isinstance(c.func, ast.Attribute) and isinstance(c.func.value, ast.Name) and c.func.value.id == "self":
            k = source.enclosing_class(c)
            m = mod.methods(k).get(c.func.attr) if k is not None else None
            return (mod, m, True) if m is not None else None
        if r is None and isinstance(c.func, ast.Name):
            k = self.factory_class(c, mod)
            r = k
        if r is None:
            return None
        m2, d = r
        if isinstance(d, ast.ClassDef):
            init = m2.methods(d).get("__init__")
            return (m2, init, True) if init is not None else None
        return (m2, d, source.enclosing_class(d) is not None and source.parent(d) is source.enclosing_class(d))

    def _solve(self):
        for _ in range(12):
            before = (len(self.client_params), len(self.client_attrs))
            for mod in self.mods:
                for n in ast.walk(mod.tree):
                    if isinstance(n, ast.Call) and source.enclosing_func(n) is not None:
                        g = self.callee(n, mod)
                        if g is None or g[0] not in self.mods:
                            continue
                        for p, a in source.bind_args(n, g[1], skip_self=g[2]).items():
                            if self.is_client(a, mod):
                                self.client_params.add((id(g[1]), p))
                    elif isinstance(n, ast.Assign) and self.is_client(n.value, mod):
                        c = source.enclosing_class(n)
                        for t in n.targets:
                            if is_self_attr(t) and c is not None:
                                self.client_attrs.add((id(c), t.attr))
            if before == (len(self.client_params), len(self.client_attrs)):
                return

    def request_call(self, c, mod):
        """c is `<client>.<api...>(...)`: an API method invoked on a raw client (a request on the wire)."""
        if not (isinstance(c, ast.Call) and isinstance(c.func, ast.Attribute)):
            return False
        root, names = _chain(c.func)
        return bool(names) and names[0] != "transport" and names[-1] not in self.NON_REQUEST_LAST and self.is_client(root, mod)

    def senders(self, mod):
        """{id(funcdef): (funcdef, witness text)} for the functions of `mod` that (transitively) make a request call."""
        out = {}
        funcs = [f for f in mod.functions()]
        for f in funcs:
            for c in ast.walk(f):
                if self.request_call(c, mod):
                    out[id(f)] = (f, f"{u(c.func)}()")
                    break
        for _ in range(len(funcs)):
            grew = False
            for f in funcs:
                if id(f) in out:
                    continue
                for c in ast.walk(f):
                    if isinstance(c, ast.Call):
                        g = self.callee(c, mod)
                        if g is not None and id(g[1]) in out and g[1] is not f:
                            out[id(f)] = (f, f"{g[1].name} -> {out[id(g[1])][1]}")
                            grew = True
                            break
            if not grew:
                break
        return out


def _store_requests_guarded(chk, repo, met, EC, gd):
    fac = repo.module(_CF)
    chk.use(fac)
    if repo.exists("esrally/client/__init__.py"):
        chk.use(repo.module("esrally/client/__init__.py"))
    chk.rule("O17.5", "every call in esrally/metrics.py that sends a request to the metrics-store cluster is made by the guard: a client-package function that (transitively) invokes an "
             "API method of an Elasticsearch client is handed to `guarded` as its target (or is called inside a function / lambda that is only ever used as such a target), and "
             "outside the store client the raw client is only created, kept and handed to the wrapper", 2,
             "a store request outside the retry loop: one 429/502/503/504, refused connection or time-out aborts with a raw client exception instead of being retried with growing "
             "pauses, and a 401/403 is not turned into the Rally error that names the cause")
    guard_name = gd.name
    if [f for f in met.functions() if f.name == guard_name] != [gd]:
        raise AnchorMissing(f"`{guard_name}` is not a unique method name in {_M}: guard calls cannot be resolved by name")
    gparams = params_of(gd)
    tparam = gparams[1] if len(gparams) > 1 else None
    flow = _ClientFlow(repo, [fac, met])
    senders = flow.senders(fac)
    if not senders:
        raise AnchorMissing(f"no function of {_CF} is recognised as sending a request through a client it creates or receives")

    def is_guard_call(c):
        return isinstance(c, ast.Call) and isinstance(c.func, ast.Attribute) and c.func.attr == guard_name

    def flows_to_target(x, depth=0):
        """the value of expression x is only ever used as the target argument of a guard call."""
        p = source.parent(x)
        if depth > 6 or p is None:
            return False
        if isinstance(p, ast.Call) and p.args and p.args[0] is x:
            if is_guard_call(p):
                return True
            if last_attr(p.func) == "partial":
                return flows_to_target(p, depth + 1)
        if isinstance(p, ast.keyword) and p.arg == tparam and is_guard_call(source.parent(p)):
            return True
        if isinstance(p, ast.Assign) and p.value is x and len(p.targets) == 1 and isinstance(p.targets[0], ast.Name):
            f = source.enclosing_func(p)
            nm = p.targets[0].id
            if f is None or nm not in flow.defs_of(f):
                return False
            loads = [n for n in ast.walk(f) if isinstance(n, ast.Name) and n.id == nm and isinstance(n.ctx, ast.Load)]
            return bool(loads) and all(flows_to_target(n, depth + 1) for n in loads)
        return False

    def through_guard(c):
        """call c executes only inside the retry loop: it sits in a lambda / nested function / method / module function whose every reference is a guard target."""
        for a in source.ancestors(c):
            if isinstance(a, ast.Lambda):
                if flows_to_target(a):
                    return True
            elif isinstance(a, (ast.FunctionDef, ast.AsyncFunctionDef)):
                holder = source.parent(a)
                if isinstance(holder, ast.ClassDef):
                    refs = [n for n in ast.walk(met.tree) if isinstance(n, ast.Attribute) and n.attr == a.name and isinstance(n.ctx, ast.Load)]
                else:
                    scope = source.enclosing_func(a) or met.tree
                    refs = [n for n in ast.walk(scope) if isinstance(n, ast.Name) and n.id == a.name and isinstance(n.ctx, ast.Load)]
                if refs and all(flows_to_target(r) for r in refs):
                    return True
        return False

    def where(n):
        return source.qualname(n) or "<module>"

    def store_args(c):
        f = source.enclosing_func(c)
        defs = flow.defs_of(f) if f is not None else {}
        opts = sorted({x.value for a in list(c.args) + [k.value for k in c.keywords] for x in ast.walk(source.inline_node(a, defs))
                       if isinstance(x, ast.Constant) and isinstance(x.value, str) and x.value.startswith("datastore.")})
        return f" (addressed by the [reporting] settings {', '.join(opts)})" if opts else ""

    # (a) calls / references of request-sending client-package functions
    for n in ast.walk(met.tree):
        if isinstance(n, (ast.Name, ast.Attribute)) and isinstance(n.ctx, ast.Load) and not isinstance(source.parent(n), ast.Attribute):
            r = _resolve(repo, met, dotted(n) or "")
            if r is None or r[0] is met or id(r[1]) not in senders:
                continue
            p = source.parent(n)
            nm, wit = dotted(n), senders[id(r[1])][1]
            if isinstance(p, ast.Call) and p.func is n:
                ok = through_guard(p)
                chk.ob("O17.5", f"{where(p)}: the store request `{nm}(...)` is made by the guard", ok, p,
                       f"{nm} sends {wit}{store_args(p)}" + ("" if ok else f"; it is called directly, outside `{guard_name}`: a transient fault of the metrics store at this moment is "
                                                              "neither retried nor converted into a Rally error"),
                       key=f"{_M}:{where(p)}:unguarded-store-call:{nm}")
            else:
                ok = flows_to_target(n)
                chk.ob("O17.5", f"{where(n)}: the request-sending function `{nm}` is only handed to the guard as its target", ok, n,
                       f"{nm} sends {wit}" + ("" if ok else f"; used as `{short(p, 60)}`"), key=f"{_M}:{where(n)}:store-call-value:{nm}")

    # (b) the raw client outside the store client: created, kept, handed to the wrapper — never asked for anything
    for f in met.functions():
        if source.enclosing_class(f) is EC:
            continue
        for x in walk_body(f):
            if not isinstance(x, (ast.Name, ast.Attribute, ast.Call)) or not isinstance(getattr(x, "ctx", None), (ast.Load, type(None))) or not flow.is_client(x, met):
                continue
            p = source.parent(x)
            inst, ok, detail, k = None, True, "", None
            if isinstance(p, (ast.Assign, ast.AnnAssign)) and p.value is x:
                inst, detail = f"{where(x)}: raw client `{short(x, 40)}` is kept", short(p, 70)
            elif isinstance(p, ast.Attribute) and p.value is x:
                topn = p
                while isinstance(source.parent(topn), ast.Attribute):
                    topn = source.parent(topn)
                names, node = [], topn
                while node is not x:
                    names.append(node.attr)
                    node = node.value
                names.reverse()
                pc = source.parent(topn)
                if names[0] == "transport" or names[-1] == "options":
                    continue
                if isinstance(pc, ast.Call) and pc.func is topn:
                    if names[-1] in _ClientFlow.NON_REQUEST_LAST:
                        continue
                    ok = through_guard(pc)
                    inst = f"{where(x)}: the store request `{short(topn, 50)}(...)` is made by the guard"
                    detail = "" if ok else f"API method called on the raw client outside `{guard_name}`"
                    k = f"{_M}:{where(x)}:unguarded-store-call:{u(topn)}"
                elif flows_to_target(topn):
                    inst = f"{where(x)}: method value `{short(topn, 50)}` of the raw client is handed to the guard"
                elif isinstance(pc, (ast.Assign, ast.Call, ast.Return, ast.keyword)):
                    chk.unknown("O17.5", f"method value `{short(topn, 50)}` of the raw client is stored / passed on: not one of the enumerated uses", topn)
                    continue
                else:
                    continue
            elif isinstance(p, (ast.Call, ast.keyword)):
                call = p if isinstance(p, ast.Call) else source.parent(p)
                if isinstance(p, ast.Call) and p.func is x:
                    continue
                r = _resolve(repo, met, dotted(call.func) or "")
                if r is not None and r[1] is EC:
                    inst, detail = f"{where(x)}: raw client `{short(x, 40)}` is handed to the wrapper", short(call, 70)
                elif is_guard_call(call) and not (call.args and call.args[0] is x):
                    inst = f"{where(x)}: raw client `{short(x, 40)}` is an argument of a guarded call"
                elif r is not None and r[0] is not met:
                    if id(r[1]) in senders:
                        continue  # reported under (a)
                    inst = f"{where(x)}: raw client `{short(x, 40)}` is handed to `{dotted(call.func)}`, which sends nothing"
                else:
                    chk.unknown("O17.5", f"raw client `{short(x, 40)}` is handed to `{short(call.func, 50)}`: not one of the enumerated uses", call)
                    continue
            elif isinstance(p, ast.Return):
                chk.unknown("O17.5", f"{where(x)} returns the raw client: its callers are not analysed", p)
                continue
            else:
                continue
            chk.ob("O17.5", inst, ok, x, detail, key=k)


from sa.selftest import V  # noqa: E402

_GUARD_DEF = "    def guarded(self, target, *args, **kwargs):\n"
_GUARD_END = ("                self.logger.exception(msg)\n                # this does not necessarily mean it's a system setup problem...\n                raise exceptions.RallyError(msg)\n\n\n"
              "class EsClientFactory")
_WHILE_HEAD = ("        execution_count = 0\n\n        while execution_count <= max_execution_count:\n            time_to_sleep = 2**execution_count + random.random()\n"
               "            execution_count += 1\n")
_ITEM_SCAN = ("                for err in e.errors:\n                    err_type = err.get(\"index\", {}).get(\"error\", {}).get(\"type\", None)\n"
              "                    if err.get(\"index\", {}).get(\"status\", None) not in self.retryable_status_codes:\n"
              "                        msg = f\"Unretryable error encountered when sending metrics to remote metrics store: [{err_type}]\"\n"
              "                        self.logger.exception(\"%s - Full error(s) [%s]\", msg, str(e.errors))\n                        raise exceptions.RallyError(msg)\n")
_ITEM_HELPER = ("    def _raise_on_unretryable_items(self, item_errors):\n        for err in item_errors:\n            item = err.get(\"index\", {{}})\n"
                "            if item.get(\"status\", None) not in self.retryable_status_codes:\n"
                "                msg = f\"Unretryable error encountered when sending metrics to remote metrics store: [{{item.get('error')}}]\"\n"
                "                self.logger.exception(\"%s - Full error(s) [%s]\", msg, str(item_errors))\n{tail}\n")

_TIMEOUT_ARM = ("            except elasticsearch.exceptions.ConnectionTimeout as e:\n                if execution_count <= max_execution_count:\n                    self.logger.debug(\n"
                "                        \"Connection timeout [%s] in attempt [%d/%d]. Sleeping for [%f] seconds.\",\n                        e.message,\n                        execution_count,\n"
                "                        max_execution_count,\n                        time_to_sleep,\n                    )\n                    time.sleep(time_to_sleep)\n                else:\n"
                "                    operation = target.__name__\n"
                "                    self.logger.exception(\"Connection timeout while running [%s] (retried %d times).\", operation, max_execution_count)\n"
                "                    node = self._client.transport.node_pool.get()\n                    msg = (\n"
                "                        \"A connection timeout occurred while running the operation [%s] against your Elasticsearch metrics store on \"\n"
                "                        \"host [%s] at port [%s].\" % (operation, node.host, node.port)\n                    )\n                    raise exceptions.RallyError(msg)\n")
_TIMEOUT_CALL = ("            except elasticsearch.exceptions.ConnectionTimeout as e:\n"
                 "                self._on_timeout(e, execution_count, max_execution_count, pause=time_to_sleep, operation=target.__name__)\n")
_TIMEOUT_HELPER = ("    def _on_timeout(self, e, attempt, max_attempts, pause, operation):\n        if attempt {op} max_attempts:\n"
                   "            self.logger.exception(\"Connection timeout while running [%s] (retried %d times).\", operation, max_attempts)\n"
                   "            node = self._client.transport.node_pool.get()\n"
                   "            msg = \"A connection timeout occurred while running the operation [%s] against your Elasticsearch metrics store on host [%s] at port [%s].\" % (\n"
                   "                operation, node.host, node.port)\n            raise exceptions.RallyError(msg)\n"
                   "        self.logger.debug(\"Connection timeout [%s] in attempt [%d/%d]. Sleeping for [%f] seconds.\", e.message, attempt, max_attempts, pause)\n"
                   "        time.sleep(pause)\n\n")
_S = "esrally/client/synchronous.py"
_INDEX_DOC = "    def index(self, index, item, id=None):\n        doc = {\"_source\": item}\n"
_STATUS_TEST = ("        if not (method == \"HEAD\" and meta.status == 404) and (\n            not 200 <= meta.status < 299\n"
                "            and (self._ignore_status is DEFAULT or self._ignore_status is None or meta.status not in self._ignore_status)\n        ):\n")
VARIANTS = [
    # O17.8: the decision depends on the fault class and the budget only (per store operation / per content of the exception)
    V("timeouts of the bulk operation are not retried (C17-m18)", "break", _M, "            except elasticsearch.exceptions.ConnectionTimeout as e:\n                if execution_count <= max_execution_count:",
      "            except elasticsearch.exceptions.ConnectionTimeout as e:\n                if execution_count <= max_execution_count and target is not elasticsearch.helpers.bulk:", "O17.8"),
    V("connection errors of refresh (tested by the target's name) are not retried", "break", _M, "            except elasticsearch.exceptions.ConnectionError as e:\n                if execution_count <= max_execution_count:",
      "            except elasticsearch.exceptions.ConnectionError as e:\n                if execution_count <= max_execution_count and target.__name__ != \"refresh\":", "O17.8"),
    V("search retries a 404 (operation compared with the raw client's method)", "break", _M, "                if e.status_code in self.retryable_status_codes and execution_count <= max_execution_count:",
      "                if (e.status_code in self.retryable_status_codes or (target == self._client.search and e.status_code == 404)) and execution_count <= max_execution_count:", "O17.8"),
    V("a 403 with the reason cluster_block_exception is retried (C17-m17)", "break", _M, "            except elasticsearch.exceptions.AuthorizationException:\n                node = self._client.transport.node_pool.get()",
      "            except elasticsearch.exceptions.AuthorizationException as e:\n                if e.error == \"cluster_block_exception\" and execution_count <= max_execution_count:\n                    time.sleep(time_to_sleep)\n                    continue\n                node = self._client.transport.node_pool.get()", "O17.8"),
    V("an API error whose message mentions a circuit breaker is retried whatever its status", "break", _M, "                if e.status_code in self.retryable_status_codes and execution_count <= max_execution_count:",
      "                if (e.status_code in self.retryable_status_codes or \"circuit_breaking_exception\" in e.message) and execution_count <= max_execution_count:", "O17.8"),
    V("a bulk item rejected with a version conflict is retried", "break", _M, "                    if err.get(\"index\", {}).get(\"status\", None) not in self.retryable_status_codes:",
      "                    if err.get(\"index\", {}).get(\"status\", None) not in self.retryable_status_codes and err_type != \"version_conflict_engine_exception\":", "O17.8"),
    V("the timeout arm only LOGS which operation timed out", "keep", _M, "            except elasticsearch.exceptions.ConnectionTimeout as e:\n                if execution_count <= max_execution_count:",
      "            except elasticsearch.exceptions.ConnectionTimeout as e:\n                if target is elasticsearch.helpers.bulk:\n                    self.logger.debug(\"bulk request timed out\")\n                if execution_count <= max_execution_count:", "O17.8"),
    V("the authorization arm only LOGS a write block", "keep", _M, "            except elasticsearch.exceptions.AuthorizationException:\n                node = self._client.transport.node_pool.get()",
      "            except elasticsearch.exceptions.AuthorizationException as e:\n                if e.error == \"cluster_block_exception\":\n                    self.logger.warning(\"write block\")\n                node = self._client.transport.node_pool.get()", "O17.8"),
    V("search called directly", "break", _M, "        return self.guarded(self._client.search, index=index, body=body)", "        return self._client.search(index=index, body=body)", "O17.1"),
    V("second target call after the loop", "break", _M, "                self.logger.exception(msg)\n                # this does not necessarily mean it's a system setup problem...\n                raise exceptions.RallyError(msg)\n\n\nclass EsClientFactory",
      "                self.logger.exception(msg)\n                # this does not necessarily mean it's a system setup problem...\n                raise exceptions.RallyError(msg)\n        return target(*args, **kwargs)\n\n\nclass EsClientFactory", "O17."),
    V("loop guard <", "break", _M, "        while execution_count <= max_execution_count:", "        while execution_count < max_execution_count:", "O17.3"),
    V("linear back-off", "break", _M, "            time_to_sleep = 2**execution_count + random.random()", "            time_to_sleep = 2 * execution_count + random.random()", "O17.3"),
    V("500 added to the retryable set", "break", _M, "        self.retryable_status_codes = [502, 503, 504, 429]", "        self.retryable_status_codes = [500, 502, 503, 504, 429]", "O17.4"),
    V("auth arms after the API arm", "break", _M, "            except elasticsearch.exceptions.AuthenticationException:", "            except ApiError as e:\n                raise exceptions.RallyError(str(e))\n            except elasticsearch.exceptions.AuthenticationException:", "O17.4"),
    V("connection-error arm retries without sleeping", "break", _M, "                        execution_count,\n                        max_execution_count,\n                        time_to_sleep,\n                    )\n                    time.sleep(time_to_sleep)\n                else:\n                    node = self._client.transport.node_pool.get()\n                    msg = (\n                        \"Could not connect",
      "                        execution_count,\n                        max_execution_count,\n                        time_to_sleep,\n                    )\n                else:\n                    node = self._client.transport.node_pool.get()\n                    msg = (\n                        \"Could not connect", "O17.4"),
    V("timeout arm returns None when exhausted", "break", _M, "                    raise exceptions.RallyError(msg)\n            except elasticsearch.exceptions.ConnectionError as e:", "                    return None\n            except elasticsearch.exceptions.ConnectionError as e:", "O17.4"),
    V("unretryable bulk item retried", "break", _M, "                        self.logger.exception(\"%s - Full error(s) [%s]\", msg, str(e.errors))\n                        raise exceptions.RallyError(msg)\n\n                if execution_count", "                        self.logger.exception(\"%s - Full error(s) [%s]\", msg, str(e.errors))\n\n                if execution_count", "O17.4"),
    V("api arm ignores the status set", "break", _M, "                if e.status_code in self.retryable_status_codes and execution_count <= max_execution_count:", "                if execution_count <= max_execution_count:", "O17.4"),
    V("transport arm swallowed", "break", _M, "                self.logger.exception(msg)\n                # this does not necessarily mean it's a system setup problem...\n                raise exceptions.RallyError(msg)\n\n\nclass EsClientFactory", "                self.logger.exception(msg)\n\n\nclass EsClientFactory", "O17.4"),
    V("handler budget one short", "break", _M, "            except elasticsearch.exceptions.ConnectionTimeout as e:\n                if execution_count <= max_execution_count:", "            except elasticsearch.exceptions.ConnectionTimeout as e:\n                if execution_count < max_execution_count:", "O17.3"),
    V("seed m1: single-use iterator handed to the guard", "break", _M, "        self.guarded(elasticsearch.helpers.bulk, self._client, items, index=index, chunk_size=5000)", "        self.guarded(elasticsearch.helpers.bulk, self._client, filter(None, items), index=index, chunk_size=5000)", "O17.2"),
    V("seed m2: only item status 429 retryable", "break", _M, "                    if err.get(\"index\", {}).get(\"status\", None) not in self.retryable_status_codes:", "                    if err.get(\"index\", {}).get(\"status\", None) != 429:", "O17.4"),
    # preserving
    V("F55 shape: raw store client asked directly by the store factory", "break", _M, "        c = EsClient(self._client)\n", "        self._client.info()\n        c = EsClient(self._client)\n", "O17.5"),
    V("F55 shape: REST-layer wait on the raw store client outside the guard", "break", _M, "        self._client = factory.create()\n", "        self._client = factory.create()\n        client.wait_for_rest_layer(self._client)\n", "O17.5"),
    V("F55 shape: version probe repeated directly when the wrapper is created", "break", _M, "        c = EsClient(self._client)\n",
      "        client.cluster_distribution_version(hosts=self._hosts, client_options=self._options)\n        c = EsClient(self._client)\n", "O17.5"),
    # preserving (O17.5)
    V("raw store client kept through a local", "keep", _M, "        self._client = factory.create()\n", "        raw = factory.create()\n        self._client = raw\n"),
    V("raw store client wrapped through a local", "keep", _M, "        c = EsClient(self._client)\n", "        raw = self._client\n        c = EsClient(raw)\n"),
    V("1 << k back-off", "keep", _M, "            time_to_sleep = 2**execution_count + random.random()", "            time_to_sleep = (1 << execution_count) + random.random()"),
    V("set literal", "keep", _M, "        self.retryable_status_codes = [502, 503, 504, 429]", "        self.retryable_status_codes = {429, 502, 503, 504}"),
    V("budget constant 10 inline", "keep", _M, "        while execution_count <= max_execution_count:", "        while execution_count <= 10:"),
    # refactored shapes (benign round): extracted helpers, for over a range, result bound and logged before it is returned, break + return after the loop
    [V("status test extracted into a helper method", "keep", _M, "                if e.status_code in self.retryable_status_codes and execution_count <= max_execution_count:",
       "                if self._is_retryable_status(e.status_code) and execution_count <= max_execution_count:"),
     V("", "keep", _M, _GUARD_DEF, "    def _is_retryable_status(self, status):\n        return status in self.retryable_status_codes\n\n" + _GUARD_DEF)],
    [V("extracted status helper also accepts 500", "break", _M, "                if e.status_code in self.retryable_status_codes and execution_count <= max_execution_count:",
       "                if self._is_retryable_status(e.status_code) and execution_count <= max_execution_count:", "O17.4"),
     V("", "break", _M, _GUARD_DEF, "    def _is_retryable_status(self, status):\n        return status in self.retryable_status_codes or status == 500\n\n" + _GUARD_DEF)],
    [V("bulk item scan extracted into a helper method", "keep", _M, _ITEM_SCAN, "                self._raise_on_unretryable_items(e.errors)\n"),
     V("", "keep", _M, _GUARD_DEF, _ITEM_HELPER.format(tail="                raise exceptions.RallyError(msg)\n") + _GUARD_DEF)],
    [V("extracted bulk item scan only logs the unretryable item", "break", _M, _ITEM_SCAN, "                self._raise_on_unretryable_items(e.errors)\n", "O17.4"),
     V("", "break", _M, _GUARD_DEF, _ITEM_HELPER.format(tail="") + _GUARD_DEF)],
    [V("extracted bulk item scan stops after the first item", "break", _M, _ITEM_SCAN, "                self._raise_on_unretryable_items(e.errors)\n", "O17.4"),
     V("", "break", _M, _GUARD_DEF, _ITEM_HELPER.format(tail="                raise exceptions.RallyError(msg)\n            return\n") + _GUARD_DEF)],
    [V("timeout arm extracted wholesale into a helper (guard clause, renamed parameters, keyword arguments)", "keep", _M, _TIMEOUT_ARM, _TIMEOUT_CALL),
     V("", "keep", _M, _GUARD_DEF, _TIMEOUT_HELPER.format(op=">") + _GUARD_DEF)],
    [V("extracted timeout arm gives up one attempt early", "break", _M, _TIMEOUT_ARM, _TIMEOUT_CALL, "O17.3"),
     V("", "break", _M, _GUARD_DEF, _TIMEOUT_HELPER.format(op=">=") + _GUARD_DEF)],
    V("for over a range instead of while with a counter", "keep", _M, _WHILE_HEAD,
      "\n        for execution_count in range(1, max_execution_count + 2):\n            time_to_sleep = 2 ** (execution_count - 1) + random.random()\n"),
    V("for over a range one attempt short", "break", _M, _WHILE_HEAD,
      "\n        for execution_count in range(1, max_execution_count + 1):\n            time_to_sleep = 2 ** (execution_count - 1) + random.random()\n", "O17.3"),
    V("for over a range with a linear pause", "break", _M, _WHILE_HEAD,
      "\n        for execution_count in range(1, max_execution_count + 2):\n            time_to_sleep = 2 * (execution_count - 1) + random.random()\n", "O17.3"),
    V("result bound, success logged, then returned", "keep", _M, "                return target(*args, **kwargs)\n",
      "                result = target(*args, **kwargs)\n                if execution_count > 1:\n                    self.logger.debug(\"Operation [%s] succeeded in attempt [%d].\", "
      "getattr(target, \"__name__\", target), execution_count)\n                return result\n"),
    V("store call inside the try after the successful attempt", "break", _M, "                return target(*args, **kwargs)\n",
      "                result = target(*args, **kwargs)\n                self._client.indices.refresh(index=\"rally-*\")\n                return result\n", "O17.2"),
    V("only a truthy result is returned from the try", "break", _M, "                return target(*args, **kwargs)\n",
      "                result = target(*args, **kwargs)\n                if result:\n                    return result\n", "O17.2"),
    [V("break on success, result returned after the loop", "keep", _M, "                return target(*args, **kwargs)\n", "                result = target(*args, **kwargs)\n                break\n"),
     V("", "keep", _M, _GUARD_END, _GUARD_END.replace("\n\n\nclass EsClientFactory", "\n        return result\n\n\nclass EsClientFactory"))],
    V("renamed retryable set attribute", "keep", _M, "retryable_status_codes", "_transient_statuses", count=3),
    # O17.6: the action under which documents are sent == the key under which the bulk arm reads a failed item
    [V("seed m14: annotations are sent under the bulk action `create` (threaded through a new parameter of index)", "break", _M, _INDEX_DOC,
       "    def index(self, index, item, id=None, op_type=\"index\"):\n        doc = {\"_source\": item, \"_op_type\": op_type}\n", "O17.6"),
     V("", "break", _M, "                id=annotation_id,\n", "                id=annotation_id,\n                op_type=\"create\",\n")],
    V("every single document is sent under `create`", "break", _M, "        doc = {\"_source\": item}\n", "        doc = {\"_source\": item, \"_op_type\": \"create\"}\n", "O17.6"),
    V("document with an id is sent under `create` (subscript store)", "break", _M, "            doc[\"_id\"] = id\n", "            doc[\"_id\"] = id\n            doc[\"_op_type\"] = \"create\"\n", "O17.6"),
    V("flushed metrics documents are re-wrapped with the action `create`", "break", _M, "        self.guarded(elasticsearch.helpers.bulk, self._client, items, index=index, chunk_size=5000)",
      "        self.guarded(elasticsearch.helpers.bulk, self._client, [dict(doc, _op_type=\"create\") for doc in items], index=index, chunk_size=5000)", "O17.6"),
    V("the bulk arm reads failed items under `create` while documents are sent under the default action", "break", _M, "err.get(\"index\", {})", "err.get(\"create\", {})", "O17.", count=2),
    V("the default bulk action spelled out", "keep", _M, "        doc = {\"_source\": item}\n", "        doc = {\"_source\": item, \"_op_type\": \"index\"}\n"),
    [V("bulk action threaded through a parameter, every caller sends `index`", "keep", _M, _INDEX_DOC,
       "    def index(self, index, item, id=None, op_type=\"index\"):\n        doc = {\"_source\": item, \"_op_type\": op_type}\n"),
     V("", "keep", _M, "                id=annotation_id,\n", "                id=annotation_id,\n                op_type=\"index\",\n")],
    [V("annotations sent under `create`, failed items read under whatever action they are reported", "keep", _M, _INDEX_DOC,
       "    def index(self, index, item, id=None, op_type=\"index\"):\n        doc = {\"_source\": item, \"_op_type\": op_type}\n"),
     V("", "keep", _M, "                id=annotation_id,\n", "                id=annotation_id,\n                op_type=\"create\",\n"),
     V("", "keep", _M, _ITEM_SCAN, _ITEM_SCAN.replace("                    err_type = ", "                    item = next(iter(err.values()))\n                    err_type = ")
       .replace("err.get(\"index\", {})", "item"))],
    # O17.7: status -> exception conversion of the synchronous client
    V("seed m15: a client that tolerates one status swallows every error status", "break", _S, _STATUS_TEST,
      "        ignored = self._ignore_status is not DEFAULT and self._ignore_status is not None\n"
      "        if not (method == \"HEAD\" and meta.status == 404) and not 200 <= meta.status < 299 and not ignored:\n", "O17.7"),
    V("5xx answers are no longer converted", "break", _S, "            not 200 <= meta.status < 299\n", "            not 200 <= meta.status < 500\n", "O17.7"),
    V("every answer to a HEAD request is a normal response", "break", _S, "        if not (method == \"HEAD\" and meta.status == 404) and (\n", "        if not (method == \"HEAD\" or meta.status == 404) and (\n", "O17.7"),
    V("membership test of the tolerated statuses inverted", "break", _S, "meta.status not in self._ignore_status)", "meta.status in self._ignore_status)", "O17.7"),
    V("error answers only raise while no status is tolerated (or -> and)", "break", _S, "self._ignore_status is None or meta.status not in self._ignore_status)",
      "self._ignore_status is None and meta.status not in self._ignore_status)", "O17.7"),
    V("status test pulled into a local, De Morgan done right", "keep", _S, _STATUS_TEST,
      "        ignored = self._ignore_status is not DEFAULT and self._ignore_status is not None and meta.status in self._ignore_status\n"
      "        if not (method == \"HEAD\" and meta.status == 404) and not 200 <= meta.status < 299 and not ignored:\n"),
    V("any answer to a HEAD request returns early", "break", _S, _STATUS_TEST, "        if method == \"HEAD\":\n            return HeadApiResponse(meta=meta)\n" + _STATUS_TEST, "O17.7"),
    V("HEAD/404 returns early (guard clause)", "keep", _S, _STATUS_TEST, "        if method == \"HEAD\" and meta.status == 404:\n            return HeadApiResponse(meta=meta)\n" + _STATUS_TEST),
    V("tolerated statuses normalised to a tuple first", "keep", _S, _STATUS_TEST,
      "        ignore = () if self._ignore_status in (DEFAULT, None) else self._ignore_status\n"
      "        if not (method == \"HEAD\" and meta.status == 404) and meta.status >= 300 and meta.status not in ignore:\n"),
    V("normalised tolerated statuses tested for emptiness instead of membership", "break", _S, _STATUS_TEST,
      "        ignore = () if self._ignore_status in (DEFAULT, None) else self._ignore_status\n"
      "        if not (method == \"HEAD\" and meta.status == 404) and meta.status >= 300 and not ignore:\n", "O17.7"),
    V("tolerated statuses recognised by their container type", "keep", _S, _STATUS_TEST,
      "        if not (method == \"HEAD\" and meta.status == 404) and not 200 <= meta.status < 299 and not (\n"
      "            isinstance(self._ignore_status, (tuple, list)) and meta.status in self._ignore_status\n        ):\n"),
    V("status test as one `tolerated` flag", "keep", _S, _STATUS_TEST,
      "        status = meta.status\n        tolerated = 200 <= status < 299 or (method == \"HEAD\" and status == 404)\n"
      "        if not tolerated and self._ignore_status is not DEFAULT and self._ignore_status is not None:\n            tolerated = status in self._ignore_status\n"
      "        if not tolerated:\n"),
]
