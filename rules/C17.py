"""C17 — metrics store calls survive transient faults and never repeat after success (DESIGN.md section 4, C17)."""
from __future__ import annotations

import ast
import operator

from sa import source
from sa.cfg import cfg_of, guards
from sa.exc import Hierarchy, handler_type_names
from sa.source import AnchorMissing, dotted, is_self_attr, last_attr, local_defs, params_of, short, u, walk_body
from sa.sym import UnknownAtom, comparison
from sa.tables import Outcome, Unsupported, decide

_M = "esrally/metrics.py"
_E = "esrally/exceptions.py"

RETRYABLE = {429, 502, 503, 504}

# (label, raised class, ApiError status or None, kind) ; kind: 'transient' retry while budget, 'fatal' raise always
CASES = [
    ("connection timeout", "elasticsearch.ConnectionTimeout", None, "transient"),
    ("connection error", "elasticsearch.ConnectionError", None, "transient"),
    ("TLS error (a connection error)", "elasticsearch.SSLError", None, "transient"),
    ("HTTP 429", "elasticsearch.ApiError", 429, "transient"),
    ("HTTP 502", "elasticsearch.ApiError", 502, "transient"),
    ("HTTP 503", "elasticsearch.ApiError", 503, "transient"),
    ("HTTP 504", "elasticsearch.ApiError", 504, "transient"),
    ("HTTP 500", "elasticsearch.ApiError", 500, "fatal"),
    ("HTTP 404 (NotFoundError)", "elasticsearch.NotFoundError", 404, "fatal"),
    ("HTTP 400 (BadRequestError)", "elasticsearch.BadRequestError", 400, "fatal"),
    ("HTTP 409 (ConflictError)", "elasticsearch.ConflictError", 409, "fatal"),
    ("authentication failure (401)", "elasticsearch.AuthenticationException", 401, "fatal"),
    ("authorization failure (403)", "elasticsearch.AuthorizationException", 403, "fatal"),
    ("serialization error (other transport error)", "elasticsearch.SerializationError", None, "fatal"),
    ("generic transport error", "elastic_transport.TransportError", None, "fatal"),
    ("bulk error, item status 429", "elasticsearch.helpers.BulkIndexError", ("item", 429), "transient"),
    ("bulk error, item status 502", "elasticsearch.helpers.BulkIndexError", ("item", 502), "transient"),
    ("bulk error, item status 503", "elasticsearch.helpers.BulkIndexError", ("item", 503), "transient"),
    ("bulk error, item status 504", "elasticsearch.helpers.BulkIndexError", ("item", 504), "transient"),
    ("bulk error, item status 400", "elasticsearch.helpers.BulkIndexError", ("item", 400), "fatal"),
    ("bulk error, item status 409", "elasticsearch.helpers.BulkIndexError", ("item", 409), "fatal"),
    ("bulk error, item status 500", "elasticsearch.helpers.BulkIndexError", ("item", 500), "fatal"),
    ("bulk error, item without status", "elasticsearch.helpers.BulkIndexError", ("item", None), "fatal"),
]

_OPS = {"<": operator.lt, "<=": operator.le, ">": operator.gt, ">=": operator.ge, "==": operator.eq, "!=": operator.ne}


def run(chk):
    repo = chk.repo
    met, exm = repo.module(_M), repo.module(_E)
    chk.use(met, exm)
    H = Hierarchy()
    chk.trusted.append("library exception hierarchy parsed from " + ", ".join(sorted(__import__('os').path.basename(p) for p in H.files)))
    chk.explanation = (
        "Decides the guard of the metrics-store client: routing (every use of the raw client goes through the guard), the try body (return target(...) once per iteration), "
        "the retry budget by simulating the extracted counter comparisons (1 + 10 attempts, exhaustion ends in a raise, never a silent loop exit), exponential back-off in the "
        "counter, and the classification of 17 outcome classes placed in the real (parsed) library hierarchy as a decision table (transient: retry with sleep while budget, then "
        "Rally error; fatal: Rally error at once), with the retryable status set == {429,502,503,504}. O17.5 follows the raw Elasticsearch client (created by the client package's factory) "
        "through esrally/client/factory.py and esrally/metrics.py and requires every request-sending call of the store module to run inside the guard."
    )
    chk.not_decided = "partial success inside helpers.bulk (chunks already indexed are re-sent on retry), real back-off durations, faults of the client library itself."
    EC = met.cls("EsClient")
    em = met.methods(EC)
    gd = em.get("guarded")
    if gd is None:
        raise AnchorMissing("EsClient.guarded")
    loops = [n for n in walk_body(gd) if isinstance(n, ast.While)]
    if not loops:
        raise AnchorMissing("retry loop in EsClient.guarded")
    L = loops[0]
    trys = [n for n in L.body if isinstance(n, ast.Try)]
    if not trys:
        raise AnchorMissing("try in the retry loop")
    T = trys[0]
    defs = local_defs(gd)
    tparam = params_of(gd)[1]

    # Rally error classes
    rally_errors = set()
    for c in exm.classes():
        rally_errors.add(c.name)
    rally_bases = {c.name: [last_attr(b) for b in c.bases] for c in exm.classes()}

    def is_rally_error(name):
        seen, work = set(), [name]
        while work:
            x = work.pop()
            if x == "RallyError":
                return True
            if x in seen:
                continue
            seen.add(x)
            work.extend(rally_bases.get(x, []))
        return False

    # ---- O17.1 routing -----------------------------------------------------------------------------------------------------------------------
    chk.rule("O17.1", "in the store client every use of the raw client is a method value / argument handed to the guard (never called directly); the factory returns the wrapper; "
             "the ES-backed stores hold only the wrapper", 14,
             "an unguarded store call: a single transient fault aborts the race / loses metrics")
    n_ops = 0
    for name, f in em.items():
        if name in ("__init__", "guarded"):
            continue
        for n in walk_body(f):
            if isinstance(n, ast.Attribute) and is_self_attr(n, "_client") and isinstance(n.ctx, ast.Load):
                # climb to the outermost attribute chain
                top = n
                while isinstance(source.parent(top), ast.Attribute):
                    top = source.parent(top)
                p = source.parent(top)
                ok = isinstance(p, ast.Call) and u(p.func) == "self.guarded" and top in p.args
                called = isinstance(p, ast.Call) and p.func is top
                n_ops += 1
                chk.ob("O17.1", f"EsClient.{name}: raw client use goes through the guard", ok, n, "called directly, bypassing the guard" if called else (f"{short(p, 70)}" if not ok else ""))
        # operations that delegate to another guarded op are fine (index -> bulk_index)
    chk.ob("O17.1", "guarded operations located", n_ops >= 11, EC, f"{n_ops} raw-client uses in EsClient methods")
    F = met.cls("EsClientFactory")
    cr = met.methods(F).get("create")
    ok = cr is not None
    if ok:
        rets = [n for n in walk_body(cr) if isinstance(n, ast.Return)]
        fdefs = local_defs(cr)
        ok = bool(rets) and all(isinstance(source.inline_node(r.value, fdefs), ast.Call) and last_attr(source.inline_node(r.value, fdefs).func) == "EsClient" for r in rets)
    chk.ob("O17.1", "the factory returns the wrapper", ok, cr if cr is not None else F, "")
    for cname in ("EsMetricsStore", "EsRaceStore", "EsResultsStore"):
        try:
            c = met.cls(cname)
        except AnchorMissing:
            continue
        init = met.methods(c).get("__init__")
        asg = [n for n in walk_body(init) if isinstance(n, ast.Assign) and any(is_self_attr(t, "_client") or is_self_attr(t, "client") for t in n.targets)] if init else []
        ok = bool(asg) and all(isinstance(a.value, ast.Call) and last_attr(a.value.func) == "create" for a in asg)
        chk.ob("O17.1", f"{cname} holds only the wrapper (client := factory.create())", ok, asg[0] if asg else c, short(asg[0], 80) if asg else "")
        # and never reaches through the wrapper to the raw client
        for n in ast.walk(c):
            if isinstance(n, ast.Attribute) and n.attr == "_client" and isinstance(n.value, ast.Attribute) and n.value.attr in ("_client", "client"):
                chk.ob("O17.1", f"{cname} reaches through the wrapper to the raw client", False, n, u(n))

    # ---- O17.2 once per iteration ------------------------------------------------------------------------------------------------------------------
    chk.rule("O17.2", "the try body is `return target(*args, **kwargs)`; there is no other call of target", 2, "a call repeated after it succeeded (duplicate metrics), or a result dropped")
    ok = len(T.body) == 1 and isinstance(T.body[0], ast.Return) and isinstance(T.body[0].value, ast.Call) and u(T.body[0].value.func) == tparam \
        and [u(a) for a in T.body[0].value.args] == ["*args"] and [k.arg for k in T.body[0].value.keywords] == [None]
    chk.ob("O17.2", "try body returns target(*args, **kwargs)", ok, T.body[0], short(T.body[0], 60))
    tcalls = [n for n in walk_body(gd) if isinstance(n, ast.Call) and u(n.func) == tparam]
    chk.ob("O17.2", "single call site of target", len(tcalls) == 1, tcalls[0] if tcalls else gd, f"{len(tcalls)} call(s)")

    # a retry re-sends the SAME arguments: nothing single-use may be handed to the guard
    for name, f in em.items():
        fdefs2 = local_defs(f)
        for c in source.calls_in(f):
            if u(c.func) == "self.guarded":
                for a in list(c.args[1:]) + [k.value for k in c.keywords]:
                    e = source.inline_node(a, fdefs2) if not isinstance(a, ast.Starred) else a
                    single = isinstance(e, ast.GeneratorExp) or (isinstance(e, ast.Call) and dotted(e.func) in ("filter", "map", "iter", "zip", "reversed", "enumerate", "itertools.chain", "itertools.islice"))
                    if single:
                        chk.ob("O17.2", f"EsClient.{name}: argument `{short(a, 40)}` handed to the guard is re-iterable", False, c,
                               f"`{short(e, 60)}` is a single-use iterator: the first attempt consumes it and every retry sends nothing yet reports success")

    # the work must happen INSIDE the guarded call: a target that is a generator function only creates a generator there; the requests are then sent while the caller iterates,
    # outside the retry loop (decided by parsing the installed library source of elasticsearch.helpers.<name>)
    import importlib.util as _ilu

    def _lib_generator(dotted_name):
        parts = dotted_name.split(".")
        if parts[:2] != ["elasticsearch", "helpers"] or len(parts) != 3:
            return None
        try:
            spec = _ilu.find_spec("elasticsearch.helpers")
        except (ImportError, ValueError):
            return None
        if spec is None or not spec.submodule_search_locations:
            return None
        import os as _os
        for d_ in spec.submodule_search_locations:
            for fn_ in sorted(_os.listdir(d_)):
                if fn_.endswith(".py"):
                    try:
                        t_ = ast.parse(open(_os.path.join(d_, fn_), encoding="utf-8").read())
                    except (OSError, SyntaxError):
                        continue
                    for n_ in t_.body:
                        if isinstance(n_, (ast.FunctionDef, ast.AsyncFunctionDef)) and n_.name == parts[2]:
                            own = [x for x in ast.walk(n_) if isinstance(x, (ast.Yield, ast.YieldFrom))]
                            inner = {id(x) for f_ in ast.walk(n_) if isinstance(f_, (ast.FunctionDef, ast.AsyncFunctionDef, ast.Lambda)) and f_ is not n_ for x in ast.walk(f_)}
                            return any(id(x) not in inner for x in own)
        return None

    for name, f in em.items():
        for c in source.calls_in(f):
            if u(c.func) == "self.guarded" and c.args:
                tgt = dotted(c.args[0]) or ""
                isgen = _lib_generator(tgt) if tgt.startswith("elasticsearch.helpers.") else False
                iterated = isinstance(source.parent(c), (ast.For, ast.AsyncFor, ast.comprehension)) and getattr(source.parent(c), "iter", None) is c
                if tgt.startswith("elasticsearch.helpers.") and isgen is None:
                    chk.unknown("O17.2", f"library function {tgt} not found in the installed elasticsearch.helpers sources", c)
                    continue
                ok = not isgen and not iterated
                chk.ob("O17.2", f"EsClient.{name}: the guarded target does its work when called (not a lazy generator)", ok, c,
                       "" if ok else f"{tgt or short(c.args[0], 40)} {'is a generator function' if isgen else 'result is iterated by the caller'}: the requests are sent outside the retry loop, so nothing is retried or converted into a Rally error",
                       key=f"{_M}:EsClient.{name}:eager-target")

    # the guard is the ONLY retry layer of the store client: a call handed to it must not switch on the library's own retry / back-off (attempts and pauses would multiply)
    LIB_RETRY = {"max_retries", "initial_backoff", "max_backoff", "retry_on_timeout", "retry_on_status"}
    n_g = 0
    for name, f in em.items():
        for c in source.calls_in(f):
            if u(c.func) == "self.guarded":
                n_g += 1
                on = [k.arg for k in c.keywords if k.arg in LIB_RETRY and not (isinstance(k.value, ast.Constant) and k.value.value in (0, False, None))]
                chk.ob("O17.2", f"EsClient.{name}: no second retry layer below the guard", not on, c,
                       "" if not on else f"{on} enables the client library's own retry: a persistent fault is attempted (1 + {on[0]}) x 11 times and the pauses no longer grow",
                       key=f"{_M}:EsClient.{name}:nested-retry")

    from rules.C07 import flush_no_fallible_gap

    flush_no_fallible_gap(chk, "O17.2", met)

    # ---- O17.3 budget and back-off ------------------------------------------------------------------------------------------------------------------------
    chk.rule("O17.3", "counter starts at 0 and is incremented exactly once per iteration before the attempt; simulating the extracted loop/handler comparisons gives 1 + 10 attempts and "
             "exhaustion ends in a raise (never a silent loop exit); the sleep duration is exponential in the counter and every retry path sleeps it", 6,
             "fewer/more than ten retries, a silently returned None after the last retry, or constant/linear back-off")
    lc = comparison(L.test)
    if lc is None:
        raise AnchorMissing("loop guard comparison in EsClient.guarded")
    cnt = u(lc[0]) if u(lc[0]) in [n.targets[0].id for n in walk_body(gd) if isinstance(n, ast.Assign) and isinstance(n.targets[0], ast.Name)] + [n.target.id for n in walk_body(gd) if isinstance(n, ast.AugAssign) and isinstance(n.target, ast.Name)] else None
    incs = [n for n in walk_body(gd) if isinstance(n, ast.AugAssign) and isinstance(n.target, ast.Name)]
    if incs:
        cnt = incs[0].target.id
    if cnt is None:
        raise AnchorMissing("attempt counter in EsClient.guarded")
    inits = [n for n in walk_body(gd) if isinstance(n, ast.Assign) and isinstance(n.targets[0], ast.Name) and n.targets[0].id == cnt]
    g = cfg_of(gd)
    ok = len(inits) == 1 and source.is_const(inits[0].value, 0) and L not in list(source.ancestors(inits[0]))
    chk.ob("O17.3", "counter starts at 0", ok, inits[0] if inits else gd, "")
    cincs = [n for n in incs if n.target.id == cnt]
    ok = len(cincs) == 1 and isinstance(cincs[0].op, ast.Add) and source.is_const(cincs[0].value, 1) and source.parent(cincs[0]) is L and L.body.index(cincs[0]) < L.body.index(T)
    chk.ob("O17.3", "counter += 1 exactly once per iteration, before the attempt", ok, cincs[0] if cincs else L, f"{len(cincs)} increment(s)")

    def const_of(e):
        e = defs.get(e.id, e) if isinstance(e, ast.Name) else e
        return e.value if isinstance(e, ast.Constant) and isinstance(e.value, int) else None

    def cmp_fn(test):
        """function c -> bool for a comparison between the counter and an integer constant; None otherwise."""
        c = comparison(test)
        if c is None:
            return None
        l, op, r = c
        if u(l) == cnt and const_of(r) is not None and op in _OPS:
            k = const_of(r)
            return lambda v: _OPS[op](v, k)
        if u(r) == cnt and const_of(l) is not None and op in _OPS:
            k = const_of(l)
            return lambda v: _OPS[op](k, v)
        return None

    loop_ok = cmp_fn(L.test)
    budget_tests = []
    for h in T.handlers:
        for n in ast.walk(h):
            if isinstance(n, (ast.If,)):
                for a in ([n.test] if not isinstance(n.test, ast.BoolOp) else n.test.values):
                    if cmp_fn(a) is not None:
                        budget_tests.append((h, a))
    if loop_ok is None or not budget_tests:
        chk.unknown("O17.3", "loop guard / handler budget tests are not comparisons of the counter with an integer constant", L)
    tail = gd.body[gd.body.index(L) + 1:] if L in gd.body else []
    chk.ob("O17.3", "nothing after the loop (no stale return)", not tail and not L.orelse, tail[0] if tail else L, "")
    # back-off
    slp = None
    for n in L.body:
        if isinstance(n, ast.Assign) and isinstance(n.targets[0], ast.Name) and any(isinstance(x, ast.Name) and x.id == cnt for x in ast.walk(n.value)):
            slp = n
    ok = False
    detail = "no per-iteration sleep duration derived from the counter"
    if slp is not None:
        expo = [x for x in ast.walk(slp.value) if (isinstance(x, ast.BinOp) and isinstance(x.op, ast.Pow) and isinstance(x.left, ast.Constant) and isinstance(x.left.value, (int, float)) and x.left.value > 1 and u(x.right) == cnt)
                or (isinstance(x, ast.BinOp) and isinstance(x.op, ast.LShift) and source.is_const(x.left, 1) and u(x.right) == cnt)
                or (isinstance(x, ast.Call) and dotted(x.func) in ("pow", "math.pow") and len(x.args) == 2 and isinstance(x.args[0], ast.Constant) and x.args[0].value > 1 and u(x.args[1]) == cnt)]
        # the exponential must be an additive/multiplicative top-level part (not divided away)
        ok = bool(expo) and L.body.index(slp) < L.body.index(T)
        detail = f"{short(slp, 70)}"
    chk.ob("O17.3", "sleep duration exponential in the counter", ok, slp if slp is not None else L, detail)
    sleepvar = slp.targets[0].id if slp is not None else None

    # ---- O17.4 classification -------------------------------------------------------------------------------------------------------------------------------
    chk.rule("O17.4", "classification over the real hierarchy: connection timeout / connection error / bulk error with only retryable item statuses / API error with status in "
             "{429,502,503,504} retry with the exponential sleep while budget is left and raise a Rally error when exhausted; authentication, authorization, other API or transport "
             "errors and non-retryable bulk item errors raise a Rally error at once; no arm returns or falls out of the loop silently", 30,
             "a transient fault aborts the race, or a permanent fault is retried ten times / swallowed")
    # the guard classifies what the client raises: every non-2xx answer must leave RallySyncElasticsearch.perform_request as an API error (HTTP_EXCEPTIONS / ApiError) — also when
    # the body is no JSON object (an HTML page of a proxy, the empty body of a HEAD request): the error-detail extraction may only touch the body as a dict behind isinstance(dict)
    from sa import pat as _p17
    syn = repo.module("esrally/client/synchronous.py")
    chk.use(syn)
    prq = syn.methods(syn.cls("RallySyncElasticsearch")).get("perform_request")
    if prq is None:
        raise AnchorMissing("RallySyncElasticsearch.perform_request")
    unp_ = [n for n in walk_body(prq) if isinstance(n, ast.Assign) and isinstance(n.targets[0], ast.Tuple) and len(n.targets[0].elts) == 2 and isinstance(n.value, ast.Call)
            and u(n.value.func) == "self.transport.perform_request"]
    if not unp_:
        raise AnchorMissing("meta, body = self.transport.perform_request(...) in the synchronous client")
    bodyv = unp_[0].targets[0].elts[1].id
    araise = [n for n in walk_body(prq) if isinstance(n, ast.Raise) and n.exc is not None and "HTTP_EXCEPTIONS" in u(n.exc) and n.lineno > unp_[0].lineno]
    chk.ob("O17.4", "sync client: a non-2xx answer is raised as HTTP_EXCEPTIONS.get(status, ApiError)", len(araise) == 1, araise[0] if araise else prq, "")
    uses = [x for x in walk_body(prq) if isinstance(x, (ast.Attribute, ast.Subscript)) and isinstance(x.value, ast.Name) and x.value.id == bodyv and araise and unp_[0].lineno < x.lineno < araise[0].lineno]
    for x in uses:
        tr_ = source.enclosing(x, ast.Try)
        caught = {nm.split(".")[-1] for h in (tr_.handlers if tr_ is not None else []) for nm in ([dotted(e_) or "" for e_ in (h.type.elts if isinstance(h.type, ast.Tuple) else [h.type])] if h.type is not None else ["BaseException"])}
        ok = _p17.guarded(x, f"isinstance({bodyv}, dict)") is not None or bool(caught & {"AttributeError", "Exception", "BaseException"})
        chk.ob("O17.4", f"sync client: `{short(x, 30)}` touches the error body as a dict only behind isinstance(dict)", ok, x,
               "" if ok else f"a non-JSON error body raises AttributeError here (handlers cover only {sorted(caught)}): the error escapes as a bare Python error that the guard neither retries nor converts",
               key=f"esrally/client/synchronous.py:RallySyncElasticsearch.perform_request:body-as-dict:{short(x, 30)}")

    init = em.get("__init__")
    sets = [n for n in walk_body(init) if isinstance(n, ast.Assign) and any(is_self_attr(t, "retryable_status_codes") for t in n.targets)]
    ok = len(sets) == 1 and isinstance(sets[0].value, (ast.List, ast.Set, ast.Tuple)) and all(isinstance(e, ast.Constant) for e in sets[0].value.elts) and {e.value for e in sets[0].value.elts} == RETRYABLE
    chk.ob("O17.4", "retryable status set == {429, 502, 503, 504}", ok, sets[0] if sets else init, short(sets[0], 70) if sets else "")
    others = [n for n in ast.walk(met.tree) if isinstance(n, (ast.Assign, ast.AugAssign)) and any(isinstance(t, ast.Attribute) and t.attr == "retryable_status_codes" for t in (n.targets if isinstance(n, ast.Assign) else [n.target])) and n not in sets]
    others += [n for n in ast.walk(met.tree) if isinstance(n, ast.Call) and isinstance(n.func, ast.Attribute) and n.func.attr in ("append", "extend", "add", "remove") and last_attr(n.func.value) == "retryable_status_codes"]
    chk.ob("O17.4", "retryable status set never modified", not others, others[0] if others else EC, "")
    code_set = {e.value for e in sets[0].value.elts} if sets and isinstance(sets[0].value, (ast.List, ast.Set, ast.Tuple)) and all(isinstance(e, ast.Constant) for e in sets[0].value.elts) else set(RETRYABLE)
    handlers = [(h, handler_type_names(h, met)) for h in T.handlers]
    # `from elastic_transport import ApiError, TransportError` inside the function
    local_imp = {}
    for n in walk_body(gd):
        if isinstance(n, ast.ImportFrom) and n.module:
            for a in n.names:
                local_imp[a.asname or a.name] = f"{n.module.split('.')[0]}.{a.name}"
    handlers = [(h, [local_imp.get(nm, nm) for nm in names]) for h, names in handlers]
    for h, names in handlers:
        for nm in names:
            if not H.known(nm):
                chk.unknown("O17.4", f"handler names class {nm} that is not in the parsed library hierarchy", h)

    def select(raised):
        for h, names in handlers:
            if H.catches(names, raised):
                return h, names
        return None, None

    LOGLEVEL = {"debug": True}  # the log level is a FREE variable of the classification: every case is decided for both values and must not depend on it

    def interpret(h, status, c):
        ev = h.name

        def atom(n, env):
            t = u(n)
            if isinstance(n, ast.Call) and last_attr(n.func) in ("isEnabledFor", "isDebugEnabled"):
                return LOGLEVEL["debug"]
            if cmp_fn(n) is not None:
                return cmp_fn(n)(c)
            if ev and t in (f"{ev}.status_code in self.retryable_status_codes",):
                return status in code_set
            if ev and t in (f"{ev}.status_code not in self.retryable_status_codes",):
                return status not in code_set
            if isinstance(n, ast.Compare) and len(n.ops) == 1 and isinstance(status, tuple) and ".get('status'" in u(n.left):
                # item-level test inside the bulk handler's loop, evaluated for the single failed item of this abstract case
                item = status[1]
                cmpv = n.comparators[0]
                if u(cmpv) == "self.retryable_status_codes":
                    rhs = set(code_set)
                elif isinstance(cmpv, ast.Constant):
                    rhs = cmpv.value
                elif isinstance(cmpv, (ast.List, ast.Tuple, ast.Set)) and all(isinstance(e, ast.Constant) for e in cmpv.elts):
                    rhs = {e.value for e in cmpv.elts}
                else:
                    return None
                op = n.ops[0]
                if isinstance(op, ast.In) and isinstance(rhs, set):
                    return item in rhs
                if isinstance(op, ast.NotIn) and isinstance(rhs, set):
                    return item not in rhs
                if isinstance(op, ast.Eq) and not isinstance(rhs, set):
                    return item == rhs
                if isinstance(op, ast.NotEq) and not isinstance(rhs, set):
                    return item != rhs
                return None
            if ev and t in (f"{ev}.errors", "e.errors"):
                return True
            return None

        def on_stmt(s, env, b):
            if isinstance(s, ast.For):
                # search-loop idiom: for item in items: if P(item): raise  ==> raise iff some item satisfies P
                out = decide(s.body, atom, env, b, on_stmt)
                if out.kind == "raise":
                    return out
                if out.kind in ("fallthrough", "continue"):
                    return "skip"
                raise Unsupported(f"loop body outcome {out.kind}")
            return None

        return decide(h.body, atom, {}, on_stmt=on_stmt)

    # counter values inside the handler: 1 = first attempt, 10 = tenth attempt (one retry left), 11 = the attempt after the tenth retry (budget exhausted)
    simulated = set()
    for label, cls, status, kind in CASES:
        h, names = select(cls)
        for c, budget in ((1, True), (10, True), (11, False)):
            inst = f"{label} | budget left={budget}" + (" (last retry)" if c == 10 else "")
            key = f"{_M}:EsClient.guarded:{label}|{budget}" + ("|10" if c == 10 else "")
            if h is None:
                chk.ob("O17.4", inst, False, T, "no handler matches: the library exception escapes unconverted (not a Rally error)", key=key)
                continue
            try:
                LOGLEVEL["debug"] = True
                out = interpret(h, status, c)
                LOGLEVEL["debug"] = False
                out_q = interpret(h, status, c)
                LOGLEVEL["debug"] = True
            except (Unsupported, UnknownAtom) as e:
                LOGLEVEL["debug"] = True
                chk.unknown("O17.4", f"handler `except {', '.join(names)}` is not a decision over (counter, status class): {e}", h)
                continue
            sl_q = [e for e in out_q.effects if isinstance(e, ast.Call) and dotted(e.func) == "time.sleep"]
            if (out_q.kind, len(sl_q)) != (out.kind, len([e for e in out.effects if isinstance(e, ast.Call) and dotted(e.func) == "time.sleep"])):
                chk.ob("O17.4", inst, False, h, f"attempt {c}: the outcome depends on the log level: with DEBUG enabled {out.text()[:40]} / {len([e for e in out.effects if isinstance(e, ast.Call) and dotted(e.func) == 'time.sleep'])} sleep(s), "
                       f"otherwise {out_q.text()[:40]} / {len(sl_q)} sleep(s) — at the shipped INFO level the retries fire without the pause", key=key)
                continue
            sleeps = [e for e in out.effects if isinstance(e, ast.Call) and dotted(e.func) == "time.sleep"]
            if kind == "transient" and budget:
                ok = out.kind == "fallthrough" and len(sleeps) == 1 and sleepvar is not None and u(sleeps[0].args[0]) == sleepvar
                want = f"retry after time.sleep({sleepvar})"
            else:
                rc = last_attr(out.value.func) if out.kind == "raise" and isinstance(out.value, ast.Call) else None
                ok = out.kind == "raise" and rc is not None and is_rally_error(rc) and not sleeps
                want = "raise a Rally error"
            got = out.text() if out.kind != "fallthrough" else ("retry" + (f" after {u(sleeps[0])}" if sleeps else " WITHOUT sleeping"))
            chk.ob("O17.4", inst, ok, h, f"attempt {c}: selected `except {', '.join(names)}` -> {got[:90]}; expected: {want}", key=key)
        # O17.3: whole-loop simulation for this transient class (loop guard on the counter before the increment, handler decision after it)
        if kind == "transient" and h is not None and loop_ok is not None and (id(h), str(status)) not in simulated:
            simulated.add((id(h), str(status)))
            cval, attempts, end = 0, 0, None
            try:
                while attempts < 1000:
                    if not loop_ok(cval):
                        end = "silent loop exit (returns None)"
                        break
                    cval += 1
                    attempts += 1
                    o = interpret(h, status, cval)
                    if o.kind != "fallthrough":
                        end = o.kind
                        break
            except (Unsupported, UnknownAtom) as e:
                end = None
            if end is not None:
                chk.ob("O17.3", f"1 + 10 attempts, then a raise: {label}", attempts == 11 and end == "raise", h, f"simulated `{u(L.test)}` with the handler's own tests: {attempts} attempt(s), ends by {end}",
                       key=f"{_M}:EsClient.guarded:attempts:{label}")
    # the error path itself must not fail: every %-formatted message of the guard takes a tuple LITERAL with one element per placeholder (a bare operand that can itself be a
    # tuple, like the transport's collected errors, is unpacked as the argument list -> TypeError instead of the Rally error that names the cause)
    for n in walk_body(gd):
        if isinstance(n, ast.BinOp) and isinstance(n.op, ast.Mod) and isinstance(n.left, (ast.Constant, ast.JoinedStr)):
            ltxt = "".join(str(v.value) for v in n.left.values if isinstance(v, ast.Constant)) if isinstance(n.left, ast.JoinedStr) else n.left.value
            if not isinstance(ltxt, str):
                continue
            import re as _re17
            nph = len(_re17.findall(r"%[-#0 +]*\d*(?:\.\d+)?[sdrfxi]", ltxt.replace("%%", "")))
            ok = isinstance(n.right, ast.Tuple) and len(n.right.elts) == nph and not any(isinstance(e_, ast.Starred) for e_ in n.right.elts)
            chk.ob("O17.4", f"message at line {n.lineno}: {nph} placeholder(s) filled from a tuple literal of the same length", ok, n, f"right operand: {short(n.right, 70)}",
                   key=f"{_M}:EsClient.guarded:format:{ltxt[:40]}")
    # dead arms must agree with their shadow
    for i, (h, names) in enumerate(handlers):
        shadows = [hh for hh, pn in handlers[:i] if all(H.catches(pn, nm) for nm in names)] if i else []
        if shadows:
            def sig(hh):
                rows = []
                for st in (429, 401, None):
                    for b in (True, False):
                        try:
                            o = interpret(hh, st, b)
                            rows.append((o.kind, last_attr(o.value.func) if o.kind == "raise" and isinstance(o.value, ast.Call) else None))
                        except (Unsupported, UnknownAtom):
                            rows.append("?")
                return rows

            same = sig(h) == sig(shadows[0])
            chk.ob("O17.4", f"dead arm `except {', '.join(names)}` agrees with its shadow", same, h, "shadowed by an earlier superclass handler" + ("" if same else " that classifies differently (cause no longer named)"))
    # authentication / authorization name the cause (setup error)
    for nm in ("elasticsearch.AuthenticationException", "elasticsearch.AuthorizationException"):
        h, names = select(nm)
        if h is not None:
            try:
                o = interpret(h, 401, True)
                rc = last_attr(o.value.func) if o.kind == "raise" and isinstance(o.value, ast.Call) else None
                if rc != "SystemSetupError":
                    chk.adv("O17.4", f"{nm.split('.')[-1]} surfaces as {rc} rather than SystemSetupError", h)
            except (Unsupported, UnknownAtom):
                pass

    _store_requests_guarded(chk, repo, met, EC, gd)


# ---- O17.5 every request that esrally/metrics.py sends to the metrics-store cluster is sent by the guard -------------------------------------------------------
_CF = "esrally/client/factory.py"
_SCOPE = ("esrally.client.", "esrally.metrics.")  # names are resolved into the client package and the store module only (nothing else creates or holds an Elasticsearch client for the store)


def _pkg_file(repo, modname):
    for p in (modname.replace(".", "/") + ".py", modname.replace(".", "/") + "/__init__.py"):
        if repo.exists(p):
            return p
    return None


def _resolve(repo, mod, name, depth=0):
    """(Module, def node) of the esrally function / class that the dotted `name`, read in module `mod`, denotes — through import aliases and re-exporting
    `__init__` modules. None when the name is not a definition of the package (library objects, locals, attributes of values)."""
    if not name or depth > 6:
        return None
    parts = name.split(".")
    top = getattr(mod, "_c17_top", None)
    if top is None:
        top = mod._c17_top = {n.name for n in mod.tree.body if isinstance(n, (ast.FunctionDef, ast.AsyncFunctionDef, ast.ClassDef))}
    if parts[0] in top:
        d = mod.index().get(name)
        return (mod, d) if d is not None else None
    if parts[0] not in mod.imports:
        return None
    fp = mod.imports[parts[0]].split(".") + parts[1:]
    if not (".".join(fp) + ".").startswith(_SCOPE):
        return None
    for i in range(len(fp) - 1, 0, -1):
        path = _pkg_file(repo, ".".join(fp[:i]))
        if path is None:
            continue
        m2 = repo.module(path)
        if m2 is mod and depth:
            return None
        return _resolve(repo, m2, ".".join(fp[i:]), depth + 1)
    return None


def _chain(node):
    """(root expression, [attribute names outwards]) of an attribute chain."""
    names = []
    while isinstance(node, ast.Attribute):
        names.append(node.attr)
        node = node.value
    return node, list(reversed(names))


class _ClientFlow:
    """Where Elasticsearch client objects are created and where they flow, over esrally/client/factory.py and esrally/metrics.py (Appendix E typing: a local / self attribute /
    parameter carries a client when a creating expression is assigned / passed to it at some site). Roles are derived, not named:
      client class   = package class with a base imported from the `elasticsearch` library whose name ends in `Elasticsearch`;
      creator        = method of a client-package class that returns a construction of a client class (`create`, `create_async`);
      request call   = a method called on a client value, except through its `.transport` (connection pool bookkeeping) and `options()` / `close()`;
      sender         = client-package function that makes a request call or calls a sender."""

    NON_REQUEST_LAST = ("options", "close")

    def __init__(self, repo, mods):
        self.repo = repo
        self.mods = mods
        self.client_params = set()   # (id(funcdef), parameter)
        self.client_attrs = set()    # (id(classdef), self attribute)
        self._creators = {}          # id(classdef) -> {method names}
        self._defs = {}
        self._solve()

    # -- roles ---------------------------------------------------------------------------------------------------------------------------------
    def is_client_class(self, mod, c, depth=0):
        for b in c.bases:
            d = dotted(b) or ""
            head = d.split(".")[0]
            if mod.imports.get(head, "").split(".")[0] == "elasticsearch" and (d.split(".")[-1]).endswith("Elasticsearch"):
                return True
            r = _resolve(self.repo, mod, d)
            if r is not None and isinstance(r[1], ast.ClassDef) and depth < 4 and self.is_client_class(r[0], r[1], depth + 1):
                return True
        return False

    def creators(self, mod, c):
        if id(c) not in self._creators:
            out = set()
            for m in mod.methods(c).values():
                defs = local_defs(m)
                for r in walk_body(m):
                    if isinstance(r, ast.Return) and r.value is not None:
                        v = source.inline_node(r.value, defs)
                        if isinstance(v, ast.Call):
                            k = _resolve(self.repo, mod, dotted(v.func) or "")
                            if k is not None and isinstance(k[1], ast.ClassDef) and self.is_client_class(k[0], k[1]):
                                out.add(m.name)
            self._creators[id(c)] = out
        return self._creators[id(c)]

    def defs_of(self, f):
        if id(f) not in self._defs:
            self._defs[id(f)] = local_defs(f)
        return self._defs[id(f)]

    def scopes(self, node):
        """the function containing node and the functions enclosing it (closures read outer locals)."""
        out = []
        f = node if isinstance(node, (ast.FunctionDef, ast.AsyncFunctionDef)) else source.enclosing_func(node)
        while f is not None:
            out.append(f)
            f = source.enclosing_func(f)
        return out

    def lookup(self, name_node):
        """definition of a single-assignment local visible at name_node (own scope first), or None."""
        for f in self.scopes(name_node):
            if name_node.id in self.defs_of(f):
                return self.defs_of(f)[name_node.id]
            if name_node.id in params_of(f) + [a.arg for a in f.args.kwonlyargs]:
                return None
        return None

    def factory_class(self, e, mod, depth=0):
        """(Module, ClassDef) when expression e evaluates to an INSTANCE of a client-package class that has creator methods."""
        if depth > 6:
            return None
        if isinstance(e, ast.Name):
            d = self.lookup(e)
            return self.factory_class(d, mod, depth + 1) if d is not None else None
        if not isinstance(e, ast.Call):
            return None
        r = _resolve(self.repo, mod, dotted(e.func) or "")
        if r is None and isinstance(e.func, ast.Name):
            # a parameter whose default is the class (`client_factory=EsClientFactory`)
            for f in self.scopes(e):
                a = f.args
                pos = a.posonlyargs + a.args
                dflt = dict(zip([x.arg for x in pos[len(pos) - len(a.defaults):]], a.defaults))
                dflt.update({x.arg: d for x, d in zip(a.kwonlyargs, a.kw_defaults) if d is not None})
                if e.func.id in dflt:
                    r = _resolve(self.repo, mod, dotted(dflt[e.func.id]) or "")
                    break
        if r is not None and isinstance(r[1], ast.ClassDef) and self.creators(r[0], r[1]):
            return r
        return None

    def is_client(self, e, mod, depth=0):
        """expression e evaluates to a raw Elasticsearch client."""
        if e is None or depth > 8:
            return False
        if isinstance(e, ast.Name):
            if not isinstance(e.ctx, ast.Load):
                return False
            for f in self.scopes(e):
                if (id(f), e.id) in self.client_params:
                    return True
            d = self.lookup(e)
            return d is not None and self.is_client(d, mod, depth + 1)
        if is_self_attr(e):
            c = source.enclosing_class(e)
            return c is not None and (id(c), e.attr) in self.client_attrs
        if isinstance(e, ast.Call) and isinstance(e.func, ast.Attribute):
            k = self.factory_class(e.func.value, mod)
            if k is not None and e.func.attr in self.creators(k[0], k[1]):
                return True
            return e.func.attr == "options" and self.is_client(e.func.value, mod, depth + 1)
        return False

    def callee(self, c, mod):
        """(Module, FunctionDef, skip_self) of the package function that call c enters, else None."""
        r = _resolve(self.repo, mod, dotted(c.func) or "")
        if r is None and isinstance(c.func, ast.Attribute) and isinstance(c.func.value, ast.Name) and c.func.value.id == "self":
            k = source.enclosing_class(c)
            m = mod.methods(k).get(c.func.attr) if k is not None else None
            return (mod, m, True) if m is not None else None
        if r is None and isinstance(c.func, ast.Name):
            k = self.factory_class(c, mod)
            r = k
        if r is None:
            return None
        m2, d = r
        if isinstance(d, ast.ClassDef):
            init = m2.methods(d).get("__init__")
            return (m2, init, True) if init is not None else None
        return (m2, d, source.enclosing_class(d) is not None and source.parent(d) is source.enclosing_class(d))

    def _solve(self):
        for _ in range(12):
            before = (len(self.client_params), len(self.client_attrs))
            for mod in self.mods:
                for n in ast.walk(mod.tree):
                    if isinstance(n, ast.Call) and source.enclosing_func(n) is not None:
                        g = self.callee(n, mod)
                        if g is None or g[0] not in self.mods:
                            continue
                        for p, a in source.bind_args(n, g[1], skip_self=g[2]).items():
                            if self.is_client(a, mod):
                                self.client_params.add((id(g[1]), p))
                    elif isinstance(n, ast.Assign) and self.is_client(n.value, mod):
                        c = source.enclosing_class(n)
                        for t in n.targets:
                            if is_self_attr(t) and c is not None:
                                self.client_attrs.add((id(c), t.attr))
            if before == (len(self.client_params), len(self.client_attrs)):
                return

    def request_call(self, c, mod):
        """c is `<client>.<api...>(...)`: an API method invoked on a raw client (a request on the wire)."""
        if not (isinstance(c, ast.Call) and isinstance(c.func, ast.Attribute)):
            return False
        root, names = _chain(c.func)
        return bool(names) and names[0] != "transport" and names[-1] not in self.NON_REQUEST_LAST and self.is_client(root, mod)

    def senders(self, mod):
        """{id(funcdef): (funcdef, witness text)} for the functions of `mod` that (transitively) make a request call."""
        out = {}
        funcs = [f for f in mod.functions()]
        for f in funcs:
            for c in ast.walk(f):
                if self.request_call(c, mod):
                    out[id(f)] = (f, f"{u(c.func)}()")
                    break
        for _ in range(len(funcs)):
            grew = False
            for f in funcs:
                if id(f) in out:
                    continue
                for c in ast.walk(f):
                    if isinstance(c, ast.Call):
                        g = self.callee(c, mod)
                        if g is not None and id(g[1]) in out and g[1] is not f:
                            out[id(f)] = (f, f"{g[1].name} -> {out[id(g[1])][1]}")
                            grew = True
                            break
            if not grew:
                break
        return out


def _store_requests_guarded(chk, repo, met, EC, gd):
    fac = repo.module(_CF)
    chk.use(fac)
    if repo.exists("esrally/client/__init__.py"):
        chk.use(repo.module("esrally/client/__init__.py"))
    chk.rule("O17.5", "every call in esrally/metrics.py that sends a request to the metrics-store cluster is made by the guard: a client-package function that (transitively) invokes an "
             "API method of an Elasticsearch client is handed to `guarded` as its target (or is called inside a function / lambda that is only ever used as such a target), and "
             "outside the store client the raw client is only created, kept and handed to the wrapper", 2,
             "a store request outside the retry loop: one 429/502/503/504, refused connection or time-out aborts with a raw client exception instead of being retried with growing "
             "pauses, and a 401/403 is not turned into the Rally error that names the cause")
    guard_name = gd.name
    if [f for f in met.functions() if f.name == guard_name] != [gd]:
        raise AnchorMissing(f"`{guard_name}` is not a unique method name in {_M}: guard calls cannot be resolved by name")
    gparams = params_of(gd)
    tparam = gparams[1] if len(gparams) > 1 else None
    flow = _ClientFlow(repo, [fac, met])
    senders = flow.senders(fac)
    if not senders:
        raise AnchorMissing(f"no function of {_CF} is recognised as sending a request through a client it creates or receives")

    def is_guard_call(c):
        return isinstance(c, ast.Call) and isinstance(c.func, ast.Attribute) and c.func.attr == guard_name

    def flows_to_target(x, depth=0):
        """the value of expression x is only ever used as the target argument of a guard call."""
        p = source.parent(x)
        if depth > 6 or p is None:
            return False
        if isinstance(p, ast.Call) and p.args and p.args[0] is x:
            if is_guard_call(p):
                return True
            if last_attr(p.func) == "partial":
                return flows_to_target(p, depth + 1)
        if isinstance(p, ast.keyword) and p.arg == tparam and is_guard_call(source.parent(p)):
            return True
        if isinstance(p, ast.Assign) and p.value is x and len(p.targets) == 1 and isinstance(p.targets[0], ast.Name):
            f = source.enclosing_func(p)
            nm = p.targets[0].id
            if f is None or nm not in flow.defs_of(f):
                return False
            loads = [n for n in ast.walk(f) if isinstance(n, ast.Name) and n.id == nm and isinstance(n.ctx, ast.Load)]
            return bool(loads) and all(flows_to_target(n, depth + 1) for n in loads)
        return False

    def through_guard(c):
        """call c executes only inside the retry loop: it sits in a lambda / nested function / method / module function whose every reference is a guard target."""
        for a in source.ancestors(c):
            if isinstance(a, ast.Lambda):
                if flows_to_target(a):
                    return True
            elif isinstance(a, (ast.FunctionDef, ast.AsyncFunctionDef)):
                holder = source.parent(a)
                if isinstance(holder, ast.ClassDef):
                    refs = [n for n in ast.walk(met.tree) if isinstance(n, ast.Attribute) and n.attr == a.name and isinstance(n.ctx, ast.Load)]
                else:
                    scope = source.enclosing_func(a) or met.tree
                    refs = [n for n in ast.walk(scope) if isinstance(n, ast.Name) and n.id == a.name and isinstance(n.ctx, ast.Load)]
                if refs and all(flows_to_target(r) for r in refs):
                    return True
        return False

    def where(n):
        return source.qualname(n) or "<module>"

    def store_args(c):
        f = source.enclosing_func(c)
        defs = flow.defs_of(f) if f is not None else {}
        opts = sorted({x.value for a in list(c.args) + [k.value for k in c.keywords] for x in ast.walk(source.inline_node(a, defs))
                       if isinstance(x, ast.Constant) and isinstance(x.value, str) and x.value.startswith("datastore.")})
        return f" (addressed by the [reporting] settings {', '.join(opts)})" if opts else ""

    # (a) calls / references of request-sending client-package functions
    for n in ast.walk(met.tree):
        if isinstance(n, (ast.Name, ast.Attribute)) and isinstance(n.ctx, ast.Load) and not isinstance(source.parent(n), ast.Attribute):
            r = _resolve(repo, met, dotted(n) or "")
            if r is None or r[0] is met or id(r[1]) not in senders:
                continue
            p = source.parent(n)
            nm, wit = dotted(n), senders[id(r[1])][1]
            if isinstance(p, ast.Call) and p.func is n:
                ok = through_guard(p)
                chk.ob("O17.5", f"{where(p)}: the store request `{nm}(...)` is made by the guard", ok, p,
                       f"{nm} sends {wit}{store_args(p)}" + ("" if ok else f"; it is called directly, outside `{guard_name}`: a transient fault of the metrics store at this moment is "
                                                              "neither retried nor converted into a Rally error"),
                       key=f"{_M}:{where(p)}:unguarded-store-call:{nm}")
            else:
                ok = flows_to_target(n)
                chk.ob("O17.5", f"{where(n)}: the request-sending function `{nm}` is only handed to the guard as its target", ok, n,
                       f"{nm} sends {wit}" + ("" if ok else f"; used as `{short(p, 60)}`"), key=f"{_M}:{where(n)}:store-call-value:{nm}")

    # (b) the raw client outside the store client: created, kept, handed to the wrapper — never asked for anything
    for f in met.functions():
        if source.enclosing_class(f) is EC:
            continue
        for x in walk_body(f):
            if not isinstance(x, (ast.Name, ast.Attribute, ast.Call)) or not isinstance(getattr(x, "ctx", None), (ast.Load, type(None))) or not flow.is_client(x, met):
                continue
            p = source.parent(x)
            inst, ok, detail, k = None, True, "", None
            if isinstance(p, (ast.Assign, ast.AnnAssign)) and p.value is x:
                inst, detail = f"{where(x)}: raw client `{short(x, 40)}` is kept", short(p, 70)
            elif isinstance(p, ast.Attribute) and p.value is x:
                topn = p
                while isinstance(source.parent(topn), ast.Attribute):
                    topn = source.parent(topn)
                names, node = [], topn
                while node is not x:
                    names.append(node.attr)
                    node = node.value
                names.reverse()
                pc = source.parent(topn)
                if names[0] == "transport" or names[-1] == "options":
                    continue
                if isinstance(pc, ast.Call) and pc.func is topn:
                    if names[-1] in _ClientFlow.NON_REQUEST_LAST:
                        continue
                    ok = through_guard(pc)
                    inst = f"{where(x)}: the store request `{short(topn, 50)}(...)` is made by the guard"
                    detail = "" if ok else f"API method called on the raw client outside `{guard_name}`"
                    k = f"{_M}:{where(x)}:unguarded-store-call:{u(topn)}"
                elif flows_to_target(topn):
                    inst = f"{where(x)}: method value `{short(topn, 50)}` of the raw client is handed to the guard"
                elif isinstance(pc, (ast.Assign, ast.Call, ast.Return, ast.keyword)):
                    chk.unknown("O17.5", f"method value `{short(topn, 50)}` of the raw client is stored / passed on: not one of the enumerated uses", topn)
                    continue
                else:
                    continue
            elif isinstance(p, (ast.Call, ast.keyword)):
                call = p if isinstance(p, ast.Call) else source.parent(p)
                if isinstance(p, ast.Call) and p.func is x:
                    continue
                r = _resolve(repo, met, dotted(call.func) or "")
                if r is not None and r[1] is EC:
                    inst, detail = f"{where(x)}: raw client `{short(x, 40)}` is handed to the wrapper", short(call, 70)
                elif is_guard_call(call) and not (call.args and call.args[0] is x):
                    inst = f"{where(x)}: raw client `{short(x, 40)}` is an argument of a guarded call"
                elif r is not None and r[0] is not met:
                    if id(r[1]) in senders:
                        continue  # reported under (a)
                    inst = f"{where(x)}: raw client `{short(x, 40)}` is handed to `{dotted(call.func)}`, which sends nothing"
                else:
                    chk.unknown("O17.5", f"raw client `{short(x, 40)}` is handed to `{short(call.func, 50)}`: not one of the enumerated uses", call)
                    continue
            elif isinstance(p, ast.Return):
                chk.unknown("O17.5", f"{where(x)} returns the raw client: its callers are not analysed", p)
                continue
            else:
                continue
            chk.ob("O17.5", inst, ok, x, detail, key=k)


from sa.selftest import V  # noqa: E402

VARIANTS = [
    V("search called directly", "break", _M, "        return self.guarded(self._client.search, index=index, body=body)", "        return self._client.search(index=index, body=body)", "O17.1"),
    V("second target call after the loop", "break", _M, "                self.logger.exception(msg)\n                # this does not necessarily mean it's a system setup problem...\n                raise exceptions.RallyError(msg)\n\n\nclass EsClientFactory",
      "                self.logger.exception(msg)\n                # this does not necessarily mean it's a system setup problem...\n                raise exceptions.RallyError(msg)\n        return target(*args, **kwargs)\n\n\nclass EsClientFactory", "O17."),
    V("loop guard <", "break", _M, "        while execution_count <= max_execution_count:", "        while execution_count < max_execution_count:", "O17.3"),
    V("linear back-off", "break", _M, "            time_to_sleep = 2**execution_count + random.random()", "            time_to_sleep = 2 * execution_count + random.random()", "O17.3"),
    V("500 added to the retryable set", "break", _M, "        self.retryable_status_codes = [502, 503, 504, 429]", "        self.retryable_status_codes = [500, 502, 503, 504, 429]", "O17.4"),
    V("auth arms after the API arm", "break", _M, "            except elasticsearch.exceptions.AuthenticationException:", "            except ApiError as e:\n                raise exceptions.RallyError(str(e))\n            except elasticsearch.exceptions.AuthenticationException:", "O17.4"),
    V("connection-error arm retries without sleeping", "break", _M, "                        execution_count,\n                        max_execution_count,\n                        time_to_sleep,\n                    )\n                    time.sleep(time_to_sleep)\n                else:\n                    node = self._client.transport.node_pool.get()\n                    msg = (\n                        \"Could not connect",
      "                        execution_count,\n                        max_execution_count,\n                        time_to_sleep,\n                    )\n                else:\n                    node = self._client.transport.node_pool.get()\n                    msg = (\n                        \"Could not connect", "O17.4"),
    V("timeout arm returns None when exhausted", "break", _M, "                    raise exceptions.RallyError(msg)\n            except elasticsearch.exceptions.ConnectionError as e:", "                    return None\n            except elasticsearch.exceptions.ConnectionError as e:", "O17.4"),
    V("unretryable bulk item retried", "break", _M, "                        self.logger.exception(\"%s - Full error(s) [%s]\", msg, str(e.errors))\n                        raise exceptions.RallyError(msg)\n\n                if execution_count", "                        self.logger.exception(\"%s - Full error(s) [%s]\", msg, str(e.errors))\n\n                if execution_count", "O17.4"),
    V("api arm ignores the status set", "break", _M, "                if e.status_code in self.retryable_status_codes and execution_count <= max_execution_count:", "                if execution_count <= max_execution_count:", "O17.4"),
    V("transport arm swallowed", "break", _M, "                self.logger.exception(msg)\n                # this does not necessarily mean it's a system setup problem...\n                raise exceptions.RallyError(msg)\n\n\nclass EsClientFactory", "                self.logger.exception(msg)\n\n\nclass EsClientFactory", "O17.4"),
    V("handler budget one short", "break", _M, "            except elasticsearch.exceptions.ConnectionTimeout as e:\n                if execution_count <= max_execution_count:", "            except elasticsearch.exceptions.ConnectionTimeout as e:\n                if execution_count < max_execution_count:", "O17.3"),
    V("seed m1: single-use iterator handed to the guard", "break", _M, "        self.guarded(elasticsearch.helpers.bulk, self._client, items, index=index, chunk_size=5000)", "        self.guarded(elasticsearch.helpers.bulk, self._client, filter(None, items), index=index, chunk_size=5000)", "O17.2"),
    V("seed m2: only item status 429 retryable", "break", _M, "                    if err.get(\"index\", {}).get(\"status\", None) not in self.retryable_status_codes:", "                    if err.get(\"index\", {}).get(\"status\", None) != 429:", "O17.4"),
    # preserving
    V("F55 shape: raw store client asked directly by the store factory", "break", _M, "        c = EsClient(self._client)\n", "        self._client.info()\n        c = EsClient(self._client)\n", "O17.5"),
    V("F55 shape: REST-layer wait on the raw store client outside the guard", "break", _M, "        self._client = factory.create()\n", "        self._client = factory.create()\n        client.wait_for_rest_layer(self._client)\n", "O17.5"),
    V("F55 shape: version probe repeated directly when the wrapper is created", "break", _M, "        c = EsClient(self._client)\n",
      "        client.cluster_distribution_version(hosts=self._hosts, client_options=self._options)\n        c = EsClient(self._client)\n", "O17.5"),
    # preserving (O17.5)
    V("raw store client kept through a local", "keep", _M, "        self._client = factory.create()\n", "        raw = factory.create()\n        self._client = raw\n"),
    V("raw store client wrapped through a local", "keep", _M, "        c = EsClient(self._client)\n", "        raw = self._client\n        c = EsClient(raw)\n"),
    V("1 << k back-off", "keep", _M, "            time_to_sleep = 2**execution_count + random.random()", "            time_to_sleep = (1 << execution_count) + random.random()"),
    V("set literal", "keep", _M, "        self.retryable_status_codes = [502, 503, 504, 429]", "        self.retryable_status_codes = {429, 502, 503, 504}"),
    V("budget constant 10 inline", "keep", _M, "        while execution_count <= max_execution_count:", "        while execution_count <= 10:"),
]
